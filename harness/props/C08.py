"""C08 -- saving and loading returns an equal object.

(a) proofs: Properties/C08.v over the format facts regenerated from /repo (Gen_codec)
(b) correspondence: real HDF5 files written by `to_file` are dumped canonically (keys in file order,
    attributes, rows as bit patterns) and compared with the model's `enc` INSIDE Coq; the objects
    returned by `from_file` are compared with the model's `dec` of the dumped file
(c) oracle (Python, from the property text) on every generated object
(d) evidence;  (e) known finding F12 (only reported when listed in known_findings.json)
"""
from __future__ import annotations

import contextlib
import copy as _copy
import io
import json
import logging
import os
import pickle
import random
import shutil
import struct
import warnings
from pathlib import Path

import numpy as np

import vlib

TRUSTED = [
    "Coq 8.16.1 kernel + vm_compute (no native_compute)",
    "harness/gen_codec.py (Python-ast extraction of key formats, attribute names, markers, sorted() iteration, "
    "time column; fail closed) -- its output is what the theorems are instantiated with",
    "hand-written model coq/Model/Codec.v of Emulsion/EmulsionTimeCourse/DropletTrack/DropletTrackList "
    "to_file/from_file and of the five constructors, tied to /repo by the correspondence run of this check",
    "HDF5 store oracle (h5py 3.16): datasets and attributes are returned bit for bit, group members are listed in "
    "lexicographic order of their names; python int attrs are stored as int64/uint64; both checked on every sample "
    "(the dump of the real file must equal h5_store(enc x) computed in Coq)",
    "numpy behaviours determined by experiment and checked per sample: np.array of records with different dtypes is "
    "an object array (h5py TypeError); record dtypes are equal iff dimension, fields and mode count agree (the layout "
    "check of DropletTrack.data); tuple assignment to a structured row would broadcast a length-1 list (unreachable "
    "behind that check); int -> f8 is correctly rounded",
    "the dump/canonicalisation code of this module (numpy uint64 views of the stored doubles)",
    "h5py.File(path, 'w') truncates an existing file (checked per sample: after writing twice / over another "
    "collection the dump of the file must equal h5_store(enc x) of the last object written)",
    "the model is state free: every file or dataset that a SEQUENCE of calls leaves behind is compared in Coq with enc of "
    "the last object written there; harness/gen_codec.py refuses covered functions that read module-level variables or "
    "non-constant class attributes, carry caching decorators, use global / del / in-place operators on attributes or "
    "items, or open the file in another mode than 'w' (to_file) / 'r' (from_file)",
    "file-level attributes written for to_file(info=...) are not part of the model's `file` (no reader looks at them); "
    "the dump accepts them only if their keys are exactly those of `info`",
]
ASSUME = [
    "doubles are modelled by their bit patterns: equality is bit identity (NaN payloads preserved, +0 <> -0), which "
    "implies the package's == (np.allclose(rtol=0, atol=0, equal_nan=True))",
    "at most 10^6 frames / tracks per file (premise of C08_dec_enc_etc / _tracklist_partial; beyond it "
    "C08_pad6_unsorted_refuted applies)",
    "objects are those the constructors / append produce (valid_drop, same dimension within a track, radius > -1 "
    "within a time course because EmulsionTimeCourse.append copies with Emulsion.copy())",
    "tracks: integer times within +-2^53 (times_exact: the time column is f8; beyond it C08_track_int_time_refuted "
    "applies); time courses: no NaN radius (C08_etc_nan_radius_refuted)",
    "times are python/numpy ints or 64-bit floats, not NaN (time codes of other numpy scalar types and 0-d arrays are "
    "outside the hand model: they go to the property oracle only, histogram key time_style exotic:*)",
    "class names are the five registered droplet classes",
]
RULE = ("objects generated from VERIF_SEED: all five classes, d=1..3, 0..15 amplitudes (all-zero / only-last patterns), "
        "unset/NaN/-0/inf/subnormal fields, empty collections and empty members at the first / interior / last position, "
        "int/float/numpy times (0 at every position, negative, duplicated, non-monotone, +-2^53, uint64 range), times "
        "given as list/tuple/ndarray/iterator, mixed classes (also the two classes with identical layouts) and mixed "
        "layouts; built by every constructor path (ctor, append with/without time, copy=False, copy constructor, "
        "Emulsion.empty+extend, +, dtype=, force_consistency), reaching to_file fresh / copied / deep-copied / pickled / "
        "sliced / linked; written once, twice, over an existing file, after growing, and again after reading back; "
        "options info= and progress=; collections of 11 / 101 / 1001 (thorough: 10001, 100001) members; call sequences "
        "within one process (B written over A at one path for all 16 ordered pairs of kinds x shorter / equal / longer / "
        "empty / over empty / much shorter, two files alternately, look-alike classes and layouts alternately, one file read "
        "twice, read-mutate-write to the same path, rewriting a path while an object read from it is alive, a good call "
        "after a failing read / write, several datasets through one open h5py group); each object is "
        "written with to_file, the file is dumped and compared with enc inside Coq, read back with from_file and compared "
        "with dec; distinct = distinct canonical objects, non-trivial = at least one droplet")

F12_TEXT = ("more than 10^6 frames/tracks: 6-digit keys sort lexicographically, time_1000000 is read before "
            "time_999999")
CLASS_NAMES = ["SphericalDroplet", "DiffuseDroplet", "PerturbedDroplet2D", "PerturbedDroplet3D",
               "PerturbedDroplet3DAxisSym"]
COQ_CLASS = {"SphericalDroplet": "Spherical", "DiffuseDroplet": "Diffuse", "PerturbedDroplet2D": "P2D",
             "PerturbedDroplet3D": "P3D", "PerturbedDroplet3DAxisSym": "P3DAxi"}
HAS_WIDTH = {n: n != "SphericalDroplet" for n in CLASS_NAMES}
HAS_AMPL = {n: n.startswith("Perturbed") for n in CLASS_NAMES}
CLASS_DIM = {"PerturbedDroplet2D": 2, "PerturbedDroplet3D": 3, "PerturbedDroplet3DAxisSym": 3}


# ---------------------------------------------------------------------------------------------
# bit patterns
# ---------------------------------------------------------------------------------------------
def f2b(x) -> int:
    return struct.unpack("<Q", struct.pack("<d", float(x)))[0]


def b2f(b: int) -> float:
    return struct.unpack("<d", struct.pack("<Q", b))[0]


def arr_bits(a) -> list[int]:
    """exact bit patterns of a float64 scalar / array (no FPU round trip)"""
    a = np.ascontiguousarray(np.atleast_1d(a), dtype="<f8")
    return [int(v) for v in a.view("<u8").ravel()]


def float_kind(b: int) -> str:
    """class of a binary64 bit pattern (for the evidence histogram)"""
    mag, neg = b & (2 ** 63 - 1), b >> 63
    if mag == 0:
        return "-0" if neg else "+0"
    e, fr = mag >> 52, mag & (2 ** 52 - 1)
    if e == 0:
        return "subnormal"
    if e == 2047:
        if fr == 0:
            return "-inf" if neg else "+inf"
        if fr == 2 ** 51:
            return "nan (default, negative)" if neg else "nan (default)"
        return "nan (quiet, payload)" if fr & 2 ** 51 else "nan (signalling)"
    return "normal" if 1023 - 60 <= e <= 1023 + 60 else ("huge (>2^60)" if e > 1023 else "tiny (<2^-60)")


def is_nan_bits(b: int) -> bool:
    return (b & (2 ** 63 - 1)) > 0x7FF0000000000000


QNAN = 0x7FF8000000000000
SPECIAL_NONNEG = [0, 0x8000000000000000, 0x7FF0000000000000, QNAN, 0x7FF8000000000123, 0xFFF8000000000000,
                  0x7FF0000000000001, 1, 0x000FFFFFFFFFFFFF, 0x7FEFFFFFFFFFFFFF]   # not < 0 (NaN, -0.0 included)
SPECIAL_ANY = SPECIAL_NONNEG + [0xFFF0000000000000, 0x8000000000000001, 0xFFEFFFFFFFFFFFFF]
AXIS_OK = [0, 0x8000000000000000, f2b(1e-8), f2b(-1e-8), 1, f2b(1e-9), f2b(-3e-9)]


def gen_bits(rng: random.Random, role: str) -> int:
    u = rng.random()
    if role == "axis":
        return rng.choice(AXIS_OK)
    if role in ("radius", "width"):
        if u < 0.55:
            return f2b(rng.randrange(0, 64 * 50) / 64.0)
        if u < 0.75:
            return f2b(abs(rng.gauss(0, 1)) * 10 ** rng.randrange(-6, 7))
        if u < 0.88:
            b = rng.getrandbits(63)       # sign cleared: any non-negative double, inf or NaN
            return b
        return rng.choice(SPECIAL_NONNEG)
    # position / amplitude: anything
    if u < 0.5:
        return f2b(rng.randrange(-64 * 100, 64 * 100) / 64.0)
    if u < 0.72:
        return f2b(rng.gauss(0, 1) * 10 ** rng.randrange(-6, 7))
    if u < 0.88:
        return rng.getrandbits(64)
    return rng.choice(SPECIAL_ANY)


# ---------------------------------------------------------------------------------------------
# recipes (JSON-able) and how they become objects
# ---------------------------------------------------------------------------------------------
NA_CHOICES = [1, 1, 2, 3, 4, 5, 6, 8, 15]
AMPL_PATTERNS = ["random"] * 6 + ["all_zero", "last_only", "first_only", "neg_zero"]


def gen_drop(rng: random.Random, cls: str | None = None, dim: int | None = None, na: int | None = None,
             on_axis: bool = False) -> dict:
    """one droplet recipe; `na` = number of amplitudes (None: drawn, 0 with a small probability: the zero-sized
    amplitude field that h5py refuses), `on_axis`: position acceptable for the axisymmetric class"""
    cls = cls or rng.choice(CLASS_NAMES)
    dim = CLASS_DIM.get(cls) or dim or rng.choice([1, 2, 3])
    pos = [gen_bits(rng, "pos") for _ in range(dim)]
    if cls == "PerturbedDroplet3DAxisSym" or (on_axis and dim == 3):
        pos[0], pos[1] = gen_bits(rng, "axis"), gen_bits(rng, "axis")
    r = {"cls": cls, "pos": pos, "radius": gen_bits(rng, "radius")}
    if HAS_WIDTH[cls]:
        r["width"] = None if rng.random() < 0.35 else gen_bits(rng, "width")   # None = argument left unset
    if HAS_AMPL[cls]:
        if na is None:
            na = 0 if rng.random() < 0.04 else rng.choice(NA_CHOICES + [rng.randrange(1, 16)])
        pat = rng.choice(AMPL_PATTERNS)
        if pat == "random" or na == 0:
            amp = [gen_bits(rng, "ampl") for _ in range(na)]
        elif pat == "all_zero":
            amp = [0] * na
        elif pat == "neg_zero":
            amp = [0x8000000000000000] * na
        elif pat == "last_only":
            amp = [0] * (na - 1) + [gen_bits(rng, "ampl") or f2b(0.25)]
        else:
            amp = [gen_bits(rng, "ampl") or f2b(0.25)] + [0] * (na - 1)
        r["ampl"] = amp
        if na == 0 and rng.random() < 0.5:
            r["ampl_none"] = True           # amplitudes=None instead of an empty list
    return r


def build_drop(r: dict):
    from droplets import droplets as dr
    cls = getattr(dr, r["cls"])
    # uint64 views keep the exact bit patterns (NaN payloads)
    pos = np.array(r["pos"], dtype="<u8").view("<f8")
    kw = {}
    if "width" in r:
        kw["interface_width"] = None if r["width"] is None else np.array([r["width"]], dtype="<u8").view("<f8")[0]
    if "ampl" in r:
        kw["amplitudes"] = None if r.get("ampl_none") else np.array(r["ampl"], dtype="<u8").view("<f8")
    radius = np.array([r["radius"]], dtype="<u8").view("<f8")[0]
    return cls(pos, radius, **kw)


ZERO_TIMES = [{"int": 0}, {"float": 0}, {"float": 0x8000000000000000}, {"int": 0, "np": True}, {"float": 0, "np": True}]
TIME_STYLES = ["range", "range", "half", "nonuniform", "negative", "mixed", "numpy", "dups", "decreasing",
               "bigint", "special", "ood", "zero", "zero"]


def gen_time_list(rng: random.Random, n: int, for_track: bool) -> tuple[list[dict], bool, str]:
    """returns (times, in_domain, style); a time is {"int": z} | {"float": bits} (+ "np": true for numpy scalars)"""
    style = rng.choice(TIME_STYLES)
    in_domain = True
    out: list[dict] = []
    for i in range(n):
        if style == "range":
            t = {"int": i}
        elif style == "half":
            t = {"float": f2b(0.5 * i)}
        elif style == "nonuniform":
            t = {"float": f2b(rng.uniform(-5, 50) * 10 ** rng.randrange(-3, 4))}
        elif style == "negative":
            t = {"int": -rng.randrange(0, 1000)} if rng.random() < 0.5 else {"float": f2b(-rng.random() * 100)}
        elif style == "mixed":
            t = {"int": rng.randrange(-10, 100)} if rng.random() < 0.5 else {"float": f2b(rng.randrange(-640, 6400) / 64)}
        elif style == "numpy":
            t = ({"int": rng.randrange(-10 ** 6, 10 ** 6), "np": True} if rng.random() < 0.5
                 else {"float": f2b(rng.gauss(0, 100)), "np": True})
        elif style == "dups":
            t = {"int": i // 2}
        elif style == "decreasing":
            t = {"float": f2b(10.0 - 1.25 * i)}
        elif style == "bigint":
            t = {"int": rng.choice([2 ** 53, -2 ** 53, 2 ** 53 - 1, 2 ** 52 + 1, 2 ** 31, -2 ** 40 + 7, 10 ** 15 + i])}
        elif style == "special":
            t = {"float": rng.choice([0x8000000000000000, 0x7FF0000000000000, 0xFFF0000000000000, 1,
                                      0x7FEFFFFFFFFFFFFF, 0])}
        elif style == "zero":
            # non-zero background with steps != 1 (increasing, decreasing or unordered); zeros are placed below
            t = rng.choice([{"int": 3 * i + 2}, {"int": -7 - 2 * i}, {"float": f2b(2.5 * i + 1.5)},
                            {"int": rng.randrange(2, 50)}, {"float": f2b(-0.75 * (i + 1))}])
        else:  # outside the domain of the property: correspondence only
            in_domain = False
            if for_track:
                t = rng.choice([{"int": 2 ** 53 + 1 + 2 * i}, {"float": QNAN}, {"int": 2 ** 63 + 12345}, {"int": 2 ** 64 + 1},
                                {"int": -2 ** 63 - 1025}, {"int": 2 ** 200 + 3}, {"int": 10 ** 400},
                                {"int": (2 ** 53 + 1) * 2 ** 11}, {"float": 0x7FF8000000000123}])
            else:
                t = rng.choice([{"float": QNAN}, {"float": 0xFFF8000000000001}, {"int": i}])
        out.append(t)
    if style == "zero" and n:
        # time code 0 (every spelling) as first / interior / last entry, alone or several times
        where = rng.choice(["first", "last", "interior", "first+last", "all", "one"])
        idx = {"first": [0], "last": [n - 1], "interior": list(range(1, n - 1)) or [n - 1],
               "first+last": [0, n - 1], "all": list(range(n)), "one": [rng.randrange(n)]}[where]
        for k in idx:
            out[k] = dict(rng.choice(ZERO_TIMES))
    if not for_track and rng.random() < 0.08:
        # int attributes at the edges of what h5py can store (beyond: TypeError on writing)
        k = rng.randrange(n) if n else 0
        if n:
            out[k] = {"int": rng.choice([2 ** 63 - 1, 2 ** 63, 2 ** 64 - 1, 2 ** 64, -2 ** 63, -2 ** 63 - 1, 2 ** 53 + 1, 10 ** 30])}
    return out, in_domain, style


# numpy scalar types / 0-d arrays as time codes: the hand model knows python/numpy ints and 64-bit floats only, so
# recipes with these go to the property oracle alone (`oracle_only`)
EXOTIC_TIMES = {
    "float32": lambda v: np.float32(v), "float16": lambda v: np.float16(v), "longdouble": lambda v: np.longdouble(v),
    "int32": lambda v: np.int32(int(v)), "int16": lambda v: np.int16(int(v)), "int8": lambda v: np.int8(int(v)),
    "uint8": lambda v: np.uint8(abs(int(v))), "uint32": lambda v: np.uint32(abs(int(v))),
    "uint64": lambda v: np.uint64(abs(int(v))), "array0d_float": lambda v: np.array(float(v)),
    "array0d_int": lambda v: np.array(int(v)),
}


def build_time(t: dict):
    if "exotic" in t:
        return EXOTIC_TIMES[t["exotic"]](t["value"])
    if "int" in t:
        if t.get("np") and -2 ** 63 <= t["int"] < 2 ** 63:
            return np.int64(t["int"])
        return int(t["int"])
    v = np.array([t["float"]], dtype="<u8").view("<f8")[0]
    return v if t.get("np") else float(v)


def build_times(ts: list[dict], container: str | None):
    """the `times` argument in the container the recipe asks for (list / tuple / ndarray / iterator)"""
    vals = [build_time(t) for t in ts]
    if container == "tuple":
        return tuple(vals)
    if container == "iter":
        return iter(vals)
    if container == "ndarray" and vals:
        if all("int" in t and -2 ** 63 <= t["int"] < 2 ** 63 for t in ts):
            return np.array([int(v) for v in vals], dtype=np.int64)
        if all("float" in t for t in ts):
            return np.array([t["float"] for t in ts], dtype="<u8").view("<f8")
    return vals


def gen_members(rng: random.Random, n: int, for_track: bool) -> tuple[list[dict], str]:
    """n droplet recipes + the flavour: uniform | mixed_class | mixed_class_same_layout | mixed_layout | bcast | mixed_dim"""
    if n == 0:
        return [], "empty"
    u = rng.random()
    cls = rng.choice(CLASS_NAMES)
    d0 = gen_drop(rng, cls)
    dim, na = len(d0["pos"]), (len(d0["ampl"]) if "ampl" in d0 else None)
    if u < 0.66 or n == 1:
        return [d0] + [gen_drop(rng, cls, dim, na) for _ in range(n - 1)], "uniform"
    if u < 0.72:
        # the two classes whose records have the same layout (F9): only the class check can reject the mixture
        na = rng.choice(NA_CHOICES)
        pair = ["PerturbedDroplet3D", "PerturbedDroplet3DAxisSym"]
        rng.shuffle(pair)
        ms = [gen_drop(rng, rng.choice(pair), 3, na, on_axis=True) for _ in range(n)]
        k = rng.randrange(n)                        # the odd one out at a random position (first / interior / last)
        for j in range(n):
            ms[j]["cls"] = pair[1] if j == k else pair[0]
        if rng.random() < 0.5:                     # the same interface-width state everywhere (None/NaN is a value, not a layout)
            for m in ms:
                m["width"] = ms[0]["width"]
        return ms, "mixed_class_same_layout"
    if u < 0.82:
        # a second class; for tracks prefer the same dimension (otherwise append raises already)
        others = [c for c in CLASS_NAMES if c != cls and (not for_track or (CLASS_DIM.get(c) or dim) == dim)]
        c2 = rng.choice(others or [c for c in CLASS_NAMES if c != cls])
        ms = [d0] + [gen_drop(rng, cls if rng.random() < 0.5 else c2, dim, na) for _ in range(n - 1)]
        k = rng.randrange(1, n)
        ms[k] = gen_drop(rng, c2, dim if c2 not in CLASS_DIM else None, None)
        if rng.random() < 0.3:
            ms[0], ms[k] = ms[k], ms[0]
        return ms, "mixed_class"
    # same class, different layouts
    ms = [d0] + [gen_drop(rng, cls, dim, na) for _ in range(n - 1)]
    k = rng.randrange(1, n)
    if HAS_AMPL[cls]:
        v = rng.random()
        if v < 0.35:
            na0, nak = rng.choice([2, 3, 5, 8]), 1          # one amplitude after several (numpy broadcasts)
        elif v < 0.55:
            na0, nak = 1, rng.choice([2, 3, 7])
        elif v < 0.65:
            na0, nak = rng.choice([(0, 1), (0, 3), (1, 0), (4, 0)])   # no amplitudes next to some
        else:
            na0 = rng.randrange(2, 9)
            nak = rng.choice([x for x in range(2, 12) if x != na0])
        ms = [gen_drop(rng, cls, dim, na0) for _ in range(n)]
        ms[k] = gen_drop(rng, cls, dim, nak)
        if rng.random() < 0.25:
            ms[0], ms[k] = ms[k], ms[0]
        flav = "bcast" if (len(ms[0]["ampl"]) != 1 and any(len(m["ampl"]) == 1 for m in ms[1:])) else "mixed_layout"
        return ms, flav
    d2 = rng.choice([x for x in (1, 2, 3) if x != dim])
    ms[k] = gen_drop(rng, cls, d2)
    return ms, "mixed_dim"


SIZES = [0, 1, 1, 2, 2, 3, 4, 5]
PROVENANCE = {   # how the object reaches to_file
    "emulsion": ["fresh"] * 6 + ["deepcopy", "pickle", "pickle2", "copy", "slice", "copy_method", "copy_ctor", "linked"],
    "track": ["fresh"] * 6 + ["deepcopy", "pickle", "pickle2", "copy", "slice", "copy_ctor"],
    "etc": ["fresh"] * 6 + ["deepcopy", "pickle", "pickle2", "copy", "slice", "copy_ctor", "linked"],
    "tracklist": ["fresh"] * 6 + ["deepcopy", "pickle", "pickle2", "copy", "slice", "copy_ctor"],
}
HISTORY = ["once"] * 10 + ["twice_same", "twice_other", "overwrite", "overwrite", "rewrite", "rewrite", "mutate"]
INFOS = [None, {}, {"a": 1}, {"time_000000": "x", "droplet_class": "None", "track_000000": [1, 2.5, None]},
         {"nested": {"k": [1, {"z": "w"}]}, "time": 0}]


def _empty_positions(rng: random.Random, n: int) -> list[int] | None:
    """positions of members (frames / tracks) forced to be empty: first / interior / last / all / all but one"""
    if n < 1 or rng.random() >= 0.3:
        return None
    where = rng.choice(["first", "last", "interior", "all", "all_but_one", "first+last"])
    keep = rng.randrange(n)
    return {"first": [0], "last": [n - 1], "interior": list(range(1, n - 1)), "all": list(range(n)),
            "all_but_one": [j for j in range(n) if j != keep], "first+last": [0, n - 1]}[where]


def gen_recipe(rng: random.Random, i: int) -> dict:
    kind = ["emulsion", "track", "etc", "tracklist"][i % 4]
    rec = _gen_recipe(rng, kind)
    # ---- provenance of the object, history of the file, options of the calls
    rec["prov"] = rng.choice(PROVENANCE[kind])
    rec["hist"] = rng.choice(HISTORY)
    if rec["hist"] == "overwrite":
        # what the path holds before: usually a longer collection of the same kind, sometimes another kind
        k2 = kind if rng.random() < 0.7 else rng.choice(KINDS)
        before = _gen_recipe(rng, k2, longer=True)
        rec["before"] = before
    if rec["hist"] == "mutate":
        # write, append one more member, write again to the same path: the file must hold the grown object
        first = next(iter(_all_members(rec)), None)
        rec["grow"] = {"drop": gen_drop(rng, first["cls"], len(first["pos"]), len(first["ampl"]) if "ampl" in first else None)
                       if first and rng.random() < 0.8 else gen_drop(rng),
                       "time": rng.choice([{"int": 0}, {"float": f2b(-2.5)}, {"int": 17}, {"float": 0}, None])}
    if kind != "emulsion":
        u = rng.random()
        if u < 0.25:
            rec["info"] = _copy.deepcopy(rng.choice(INFOS))     # None = passed explicitly
    if kind in ("etc", "tracklist"):
        rec["progress"] = rng.choice(["default", True, False, False])
    return rec


def _all_members(rec: dict) -> list[dict]:
    if rec["kind"] in ("emulsion", "track"):
        return rec["members"]
    if rec["kind"] == "etc":
        return [m for fr in rec["frames"] for m in fr]
    return [m for tr in rec["tracks"] for m in tr["members"]]


def grow(obj, rec: dict) -> None:
    """the mutation of history `mutate`: one more droplet / frame / track"""
    from droplets.emulsions import Emulsion
    from droplets.droplet_tracks import DropletTrack
    g = rec["grow"]
    d = build_drop(g["drop"])
    t = None if g["time"] is None else build_time(g["time"])
    if rec["kind"] == "emulsion":
        obj.append(d)
    elif rec["kind"] == "track":
        obj.append(d, t)
    elif rec["kind"] == "etc":
        obj.append(Emulsion([d]), t)
    else:
        obj.append(DropletTrack([d], None if t is None else [t]))


def _gen_recipe(rng: random.Random, kind: str, longer: bool = False) -> dict:
    sizes = [3, 5, 7, 12] if longer else SIZES + ([rng.choice([6, 9, 10, 11, 12])] if rng.random() < 0.25 else [])
    if kind == "emulsion":
        ms, flav = gen_members(rng, rng.choice(sizes), False)
        rec = {"kind": kind, "members": ms, "flavour": flav, "in_domain": True}
        if not ms:
            rec["build"] = rng.choice(["ctor", "empty_like", "dtype_kw"])
        else:
            rec["build"] = rng.choice(["ctor"] * 5 + ["nocopy", "nocopy_shared", "empty_then_extend", "add", "dtype_kw",
                                                      "force_consistency", "from_iter"])
        if rec["build"] in ("empty_like", "dtype_kw", "empty_then_extend"):
            rec["empty_like"] = gen_drop(rng)     # example droplet that fixes the emulsion's dtype (may differ from the members)
        if rec["build"] == "nocopy_shared" and len(ms) >= 2:
            j = rng.randrange(1, len(ms))
            ms[j] = _copy.deepcopy(ms[0])
            rec["share"] = [0, j]                   # one droplet object at two positions
        return rec
    if kind == "track":
        ms, flav = gen_members(rng, rng.choice(sizes), True)
        ts, dom, style = gen_time_list(rng, len(ms), True)
        rec = {"kind": kind, "members": ms, "times": ts, "flavour": flav, "in_domain": dom, "time_style": style,
               "build": rng.choice(["ctor"] * 4 + ["append", "append", "append_default", "copy_ctor", "ctor_then_append"]),
               "times_as": rng.choice(["list", "list", "tuple", "ndarray", "iter"])}
        if rec["build"] == "append_default":
            rec["times"], rec["in_domain"], rec["time_style"] = [{"int": j} for j in range(len(ms))], True, "default"
        return rec
    if kind == "etc":
        n = rng.choice(sizes)
        frames, flavs = [], []
        for _ in range(n):
            ms, flav = gen_members(rng, rng.choice([0, 0, 1, 2, 3]), False) if rng.random() < 0.85 else \
                gen_members(rng, rng.choice([2, 3]), False)
            frames.append(ms)
            flavs.append(flav)
        for k in _empty_positions(rng, n) or []:
            frames[k], flavs[k] = [], "empty"
        ts, dom, style = gen_time_list(rng, n, False)
        flav = "empty" if n == 0 else next((f for f in flavs if f not in ("uniform", "empty")), "uniform")
        rec = {"kind": kind, "frames": frames, "times": ts, "flavour": flav, "in_domain": dom, "time_style": style,
               "build": rng.choice(["ctor"] * 4 + ["default_times", "append", "append", "append_nocopy", "append_default",
                                                   "copy_ctor", "from_iter"]),
               "times_as": rng.choice(["list", "list", "tuple", "ndarray", "iter"])}
        if rec["build"] in ("default_times", "append_default"):
            rec["times"], rec["in_domain"], rec["time_style"] = [{"int": j} for j in range(n)], True, "default"
        return rec
    n = rng.choice([0, 1, 2, 3, 4] if not longer else sizes)
    if not longer and rng.random() < 0.1:
        n = rng.choice([6, 10, 11, 12])
    tracks, flavs, dom, styles = [], [], True, []
    empty = _empty_positions(rng, n) or []
    for k in range(n):
        ms, flav = gen_members(rng, 0 if k in empty else rng.choice([0, 1, 2, 3]), True)
        ts, d, style = gen_time_list(rng, len(ms), True)
        dom = dom and d
        tracks.append({"members": ms, "times": ts})
        flavs.append(flav)
        styles.append(style)
    rec = {"kind": kind, "tracks": tracks, "in_domain": dom,
           "time_style": next((s for s in styles if s != "range"), "range") if styles else "none",
           "build": rng.choice(["ctor"] * 4 + ["append", "shared", "from_iter"])}
    if rec["build"] == "shared" and n >= 2:
        j = rng.randrange(1, n)
        tracks[j], flavs[j] = _copy.deepcopy(tracks[0]), flavs[0]
        rec["share"] = [0, j]                       # one DropletTrack object at two positions of the list
    rec["flavour"] = "empty" if n == 0 else next((f for f in flavs if f not in ("uniform", "empty")), "uniform")
    return rec


def build(rec: dict):
    from droplets.emulsions import Emulsion, EmulsionTimeCourse
    from droplets.droplet_tracks import DropletTrack, DropletTrackList
    k = rec["kind"]
    style = rec.get("build", "ctor")
    cont = rec.get("times_as")
    if k == "emulsion":
        ds = [build_drop(m) for m in rec["members"]]
        if not ds and rec.get("empty_like") and style in ("ctor", "empty_like"):
            return Emulsion.empty(build_drop(rec["empty_like"]))
        if style == "dtype_kw":
            return Emulsion(ds, dtype=build_drop(rec["empty_like"]).data.dtype)
        if style == "empty_then_extend":
            obj = Emulsion.empty(build_drop(rec["empty_like"]))
            obj.extend(ds)
            return obj
        if style in ("nocopy", "nocopy_shared"):
            if rec.get("share"):
                ds[rec["share"][1]] = ds[rec["share"][0]]
            return Emulsion(ds, copy=False)
        if style == "add":
            h = len(ds) // 2
            return Emulsion(ds[:h]) + Emulsion(ds[h:])
        if style == "force_consistency":      # raises ValueError unless all members share one layout
            return Emulsion(ds, force_consistency=True)
        if style == "from_iter":              # droplets: Iterable -- a one-shot generator
            return Emulsion(d for d in ds)
        return Emulsion(ds)
    if k == "track":
        ds = [build_drop(m) for m in rec["members"]]
        if style in ("append", "append_default", "ctor_then_append"):
            h = len(ds) // 2 if style == "ctor_then_append" else 0
            obj = DropletTrack(ds[:h], build_times(rec["times"][:h], cont))
            for d, t in zip(ds[h:], rec["times"][h:]):
                if style == "append_default":
                    obj.append(d)
                else:
                    obj.append(d, build_time(t))
            return obj
        obj = DropletTrack(ds, build_times(rec["times"], cont))
        return DropletTrack(obj) if style == "copy_ctor" else obj
    if k == "etc":
        ems = [Emulsion([build_drop(m) for m in fr]) for fr in rec["frames"]]
        if rec.get("default_times") or style == "default_times":
            return EmulsionTimeCourse(ems)
        if rec.get("append_style") or style in ("append", "append_nocopy", "append_default"):
            obj = EmulsionTimeCourse()
            for e, t in zip(ems, rec["times"]):
                if style == "append_default":
                    obj.append(e)
                else:
                    obj.append(e, build_time(t), copy=not (rec.get("nocopy") or style == "append_nocopy"))
            return obj
        if style == "from_iter":              # emulsions: Iterable[Emulsion] -- a one-shot generator of droplet lists
            return EmulsionTimeCourse((list(e) for e in ems), build_times(rec["times"], cont))
        obj = EmulsionTimeCourse(ems, build_times(rec["times"], cont))
        return EmulsionTimeCourse(obj) if style == "copy_ctor" else obj
    trs = [DropletTrack([build_drop(m) for m in tr["members"]], [build_time(t) for t in tr["times"]])
           for tr in rec["tracks"]]
    if rec.get("share"):
        trs[rec["share"][1]] = trs[rec["share"][0]]
    if style == "append":
        obj = DropletTrackList()
        for tr in trs:
            obj.append(tr)
        return obj
    if style == "from_iter":
        return DropletTrackList(iter(trs))
    return DropletTrackList(trs)


def apply_provenance(obj, prov: str, kind: str):
    """the object as it reaches to_file: fresh, copied in one of the ways the package / python offers, pickled
    (what worker processes return), sliced, or with its droplet data linked into one array"""
    if prov in (None, "fresh"):
        return obj
    if prov == "deepcopy":
        return _copy.deepcopy(obj)
    if prov == "pickle":
        return pickle.loads(pickle.dumps(obj))
    if prov == "pickle2":
        return pickle.loads(pickle.dumps(obj, protocol=2))
    if prov == "copy":
        return _copy.copy(obj)
    if prov == "slice":
        return obj[:]
    if prov == "copy_method":
        return obj.copy()
    if prov == "copy_ctor":
        return type(obj)(obj)
    if prov == "linked":
        for e in ([obj] if kind == "emulsion" else obj.emulsions):
            try:
                e.get_linked_data()
            except Exception:  # noqa  (empty without dtype, mixed classes / layouts: nothing to link)
                pass
        return obj
    raise ValueError(prov)


# ---------------------------------------------------------------------------------------------
# canonical dumps
# ---------------------------------------------------------------------------------------------
class Undumpable(Exception):
    pass


def dump_drop(d) -> dict:
    name = type(d).__name__
    if name not in COQ_CLASS:
        raise Undumpable(f"droplet class {name}")
    names = d.data.dtype.names
    known = ["position", "radius", "interface_width", "amplitudes"]
    if any(n not in known for n in names):
        raise Undumpable(f"fields {names}")
    out = {"cls": name, "pos": arr_bits(d.data["position"]), "radius": arr_bits(d.data["radius"])[0],
           "width": arr_bits(d.data["interface_width"])[0] if "interface_width" in names else None,
           "ampl": arr_bits(d.data["amplitudes"]) if "amplitudes" in names else []}
    if "amplitudes" in names and not HAS_AMPL[name] or ("interface_width" in names) != HAS_WIDTH[name]:
        raise Undumpable(f"{name} with fields {names}")
    return out


def dump_time(t) -> dict:
    if isinstance(t, (bool, np.bool_)):
        raise Undumpable(f"time {t!r}")
    if isinstance(t, (int, np.integer)):
        return {"int": int(t)}
    if isinstance(t, float) or (isinstance(t, np.floating) and t.dtype == np.float64):
        return {"float": arr_bits(t)[0]}
    raise Undumpable(f"time {t!r} of type {type(t).__name__}")


def dump_obj(obj, kind: str):
    if kind == "emulsion":
        return [dump_drop(d) for d in obj]
    if kind == "track":
        if len(obj.times) != len(obj.droplets):
            raise Undumpable("track with different numbers of times and droplets")
        return [[dump_time(t), dump_drop(d)] for t, d in zip(obj.times, obj.droplets)]
    if kind == "etc":
        if len(obj.times) != len(obj.emulsions):
            raise Undumpable("time course with different numbers of times and emulsions")
        return [[dump_time(t), [dump_drop(d) for d in e]] for t, e in zip(obj.times, obj.emulsions)]
    return [dump_obj(tr, "track") for tr in obj]


def dump_dataset(ds) -> tuple:
    """(attrs, body) of one h5py dataset: attributes as tagged values, rows as bit patterns"""
    import h5py
    if not isinstance(ds, h5py.Dataset):
        raise Undumpable(f"{ds.name} is not a dataset")
    attrs = []
    for an, av in ds.attrs.items():
        if isinstance(av, str):
            attrs.append([an, {"str": av}])
        elif isinstance(av, (np.integer,)) and not isinstance(av, np.bool_):
            attrs.append([an, {"int": int(av)}])
        elif isinstance(av, np.floating) and av.dtype == np.float64:
            attrs.append([an, {"float": arr_bits(av)[0]}])
        else:
            raise Undumpable(f"attribute {an}={av!r} of type {type(av).__name__}")
    if ds.shape == ():
        return attrs, None
    if ds.ndim != 1 or ds.dtype.names is None:
        raise Undumpable(f"dataset of shape {ds.shape} dtype {ds.dtype}")
    arr = ds[...]
    rows = []
    for row in arr:
        fields = []
        for n in arr.dtype.names:
            ft = arr.dtype.fields[n][0]
            if ft.base != np.dtype("<f8") or len(ft.shape) > 1:
                raise Undumpable(f"field {n} of type {ft}")
            fields.append([n, arr_bits(row[n]), bool(ft.shape)])
        rows.append(fields)
    return attrs, rows


def dump_file(path, info=None) -> list:
    """[(key, attrs, body)] in the order in which h5py lists the keys.  File-level attributes are accepted only if
    they are the ones asked for with `info` (the model's `file` is the list of datasets; readers ignore them)."""
    import h5py
    out = []
    with h5py.File(path, "r") as fp:
        if len(fp.attrs) and sorted(fp.attrs.keys()) != sorted((info or {}).keys()):
            raise Undumpable(f"file-level attributes {sorted(fp.attrs.keys())[:5]}")
        for key in fp.keys():
            attrs, body = dump_dataset(fp[key])
            out.append([key, attrs, body])
    return out


# ---------------------------------------------------------------------------------------------
# Coq literals
# ---------------------------------------------------------------------------------------------
# frequent strings are written once (HEADER defines s_<name> := "<name>"): Coq spends most of its time on a case
# file parsing string and number literals
ABBREVIATED = ["position", "radius", "interface_width", "amplitudes", "time", "droplet_class", "None", "emulsion",
               "droplet_track"] + CLASS_NAMES


def cq_str(s: str) -> str:
    if s in ABBREVIATED:
        return "s_" + s
    if not s.isascii() or any(ord(c) < 32 for c in s):
        raise Undumpable(f"string {s!r}")
    return '"' + s.replace('"', '""') + '"'


def cq_zs(bs) -> str:
    return "[" + "; ".join(str(int(b)) for b in bs) + "]"


def cq_time(t: dict) -> str:
    if "int" in t:
        return f"(TInt ({int(t['int'])}))"
    return f"(TFloat {int(t['float'])})"


def cq_drop(d: dict) -> str:
    w = "None" if d["width"] is None else f"(Some {int(d['width'])})"
    return f"(D {COQ_CLASS[d['cls']]} {cq_zs(d['pos'])} {int(d['radius'])} {w} {cq_zs(d['ampl'])})"


def cq_list(items, f) -> str:
    return "[" + "; ".join(f(x) for x in items) + "]"


def cq_track(tr) -> str:
    return cq_list(tr, lambda td: f"({cq_time(td[0])}, {cq_drop(td[1])})")


def cq_obj(kind: str, o) -> str:
    if kind == "emulsion":
        return f"(OEm {cq_list(o, cq_drop)})"
    if kind == "track":
        return f"(OTr {cq_track(o)})"
    if kind == "etc":
        return "(OEtc " + cq_list(o, lambda te: f"({cq_time(te[0])}, {cq_list(te[1], cq_drop)})") + ")"
    return f"(OTl {cq_list(o, cq_track)})"


def cq_file(f: list) -> str:
    def attr(a):
        v = a[1]
        if "str" in v:
            return f"({cq_str(a[0])}, AStr {cq_str(v['str'])})"
        return f"({cq_str(a[0])}, ATime {cq_time(v)})"

    def field(x):
        n, bits, is_arr = x
        return f"({cq_str(n)}, " + (f"FA {cq_zs(bits)}" if is_arr else f"FS {int(bits[0])}") + ")"

    def ds(e):
        key, attrs, body = e
        b = "BScalar" if body is None else "(BRows " + cq_list(body, lambda r: cq_list(r, field)) + ")"
        return f"({cq_str(key)}, DS {cq_list(attrs, attr)} {b})"

    return cq_list(f, ds)


def cq_dataset(attrs, body) -> str:
    lit = cq_file([["emulsion", attrs, body]])
    prefix = "[(s_emulsion, "
    assert lit.startswith(prefix) and lit.endswith(")]")
    return "(" + lit[len(prefix):-2] + ")"


def cq_err(kind: str) -> str:
    return {"TypeError": "EType", "ValueError": "EValue"}.get(kind, "EOther")


def count_drops(kind: str, o) -> int:
    if kind in ("emulsion", "track"):
        return len(o)
    if kind == "etc":
        return sum(len(te[1]) for te in o)
    return sum(len(tr) for tr in o)


HEADER = """From Coq Require Import ZArith List Bool String.
From PD Require Import Model.Codec Gen.Gen_codec Proofs.C08.
Import ListNotations.
Local Open Scope string_scope.
Local Open Scope Z_scope.
Inductive obj := OEm (l : emulsion) | OTr (l : track) | OEtc (x : etc) | OTl (x : tracklist).
Definition length {A} := @Datatypes.length A.   (* String.length would shadow it *)
""" + "".join(f'Definition s_{n} : string := "{n}".\n' for n in ABBREVIATED) + """
Definition D c p r w a : drop := {| cls := c; dpos := p; radius := r; width := w; ampl := a |}.
Definition DS a b : dataset := {| ds_attrs := a; ds_body := b |}.
Definition obj_eqb (a b : obj) : bool :=
  match a, b with
  | OEm x, OEm y => emulsion_eqb x y
  | OTr x, OTr y => track_eqb x y
  | OEtc x, OEtc y => etc_eqb x y
  | OTl x, OTl y => tracklist_eqb x y
  | _, _ => false
  end.
Definition rmap {A B} (f : A -> B) (r : result A) : result B := match r with Ok a => Ok (f a) | Err e => Err e end.
Definition enc_obj (o : obj) : result file :=
  match o with
  | OEm l => enc_emulsion_file repo_fmt l
  | OTr l => enc_track_file repo_fmt l
  | OEtc x => enc_etc repo_fmt x
  | OTl x => enc_tracklist repo_fmt x
  end.
Definition dec_as (o : obj) (f : file) : result obj :=
  match o with
  | OEm _ => rmap OEm (dec_emulsion_file repo_fmt f)
  | OTr _ => rmap OTr (dec_track_file repo_fmt f)
  | OEtc _ => rmap OEtc (dec_etc repo_fmt f)
  | OTl _ => rmap OTl (dec_tracklist repo_fmt f)
  end.
(* case = (object, what to_file did: the dumped file or the error, what from_file returned) *)
Definition agree (c : obj * result file * result obj) : bool :=
  let '(o, w, r) := c in
  result_eqb file_eqb (enc_obj o) w &&
  match w with Ok f => result_eqb obj_eqb (dec_as o f) r | Err _ => true end.
"""


# ---------------------------------------------------------------------------------------------
# running the implementation on one recipe
# ---------------------------------------------------------------------------------------------
def exc_kind(e: BaseException) -> str:
    if isinstance(e, TypeError):
        return "TypeError"
    if isinstance(e, ValueError):
        return "ValueError"
    return "Other:" + type(e).__name__


def reader_of(kind: str, progress=False):
    """from_file of the collection type; `progress`: False / True / "default" (argument omitted, i.e. True)"""
    from droplets.emulsions import Emulsion, EmulsionTimeCourse
    from droplets.droplet_tracks import DropletTrack, DropletTrackList
    if kind == "emulsion":
        return Emulsion.from_file
    if kind == "track":
        return DropletTrack.from_file
    cls = EmulsionTimeCourse if kind == "etc" else DropletTrackList
    if progress is False:
        return lambda p: cls.from_file(p, progress=False)

    def read_with_bar(p):
        with contextlib.redirect_stderr(io.StringIO()), contextlib.redirect_stdout(io.StringIO()):
            return cls.from_file(p) if progress == "default" else cls.from_file(p, progress=True)
    return read_with_bar


def droplets_of(obj, kind: str):
    if kind == "emulsion":
        return [list(obj)]
    if kind == "track":
        return [list(obj.droplets)]
    if kind == "etc":
        return [list(e) for e in obj.emulsions]
    return [list(tr.droplets) for tr in obj]


def times_of(obj, kind: str):
    if kind == "emulsion":
        return []
    if kind == "track":
        return [list(obj.times)]
    if kind == "etc":
        return [list(obj.times)]
    return [list(tr.times) for tr in obj]


def property_failures(obj, back, kind: str) -> list[str]:
    """The property text as a predicate on (object written, object read back)."""
    fails = []
    try:
        eq = bool(back == obj)
    except Exception as e:  # noqa
        eq = False
        fails.append(f"comparison with == raised {type(e).__name__}")
    if not eq:
        fails.append("read back object is not == to the one written")
    if type(back) is not type(obj):
        fails.append(f"type {type(back).__name__} != {type(obj).__name__}")
        return fails
    try:
        ga, gb = droplets_of(obj, kind), droplets_of(back, kind)
        ta, tb = times_of(obj, kind), times_of(back, kind)
    except Exception as e:  # noqa
        fails.append(f"object read back has no usable members/times ({type(e).__name__}: {str(e)[:80]})")
        return sorted(set(fails))
    if [len(g) for g in ga] != [len(g) for g in gb]:
        la, lb = [len(g) for g in ga], [len(g) for g in gb]
        if len(la) == len(lb) and len(la) > 12:
            k = next(j for j in range(len(la)) if la[j] != lb[j])
            fails.append(f"member counts differ from member {k} on: {la[k:k + 6]}... written, {lb[k:k + 6]}... read "
                         f"({len(la)} members)")
        else:
            fails.append(f"member counts differ: {str(la)[:120]} written, {str(lb)[:120]} read")
    else:
        for a_, b_ in zip(ga, gb):
            for x, y in zip(a_, b_):
                if type(x).__name__ != type(y).__name__:
                    fails.append(f"droplet class {type(x).__name__} read back as {type(y).__name__}")
                else:
                    try:
                        if x.data.dtype != y.data.dtype:
                            fails.append(f"droplet layout {x.data.dtype} read back as {y.data.dtype}")
                        elif arr_bits(x._data_array) != arr_bits(y._data_array):
                            fails.append("droplet parameters are not bit-identical")
                    except Exception as e:  # noqa
                        fails.append(f"droplet read back has unusable data ({type(e).__name__}: {str(e)[:80]})")
    if [len(t) for t in ta] != [len(t) for t in tb]:
        fails.append("numbers of times differ")
    else:
        for a_, b_ in zip(ta, tb):
            for x, y in zip(a_, b_):
                try:
                    same = bool(x == y)
                    if same and isinstance(y, (complex, np.complexfloating, str, bytes)):
                        same = False          # a time of the wrong kind
                except Exception:  # noqa
                    same = False
                if not same:
                    fails.append(f"time {x!r} read back as {y!r}")
    return sorted(set(fails))


def _safe(fn, *args, **kw):
    """dumps never crash the check: anything unexpected is `Undumpable` (reported with the input)"""
    try:
        return fn(*args, **kw)
    except Undumpable:
        raise
    except Exception as e:  # noqa
        raise Undumpable(f"{type(e).__name__}: {str(e)[:100]}")


def _write(obj, path: Path, rec: dict, out: dict | None = None):
    if "info" in rec and rec["kind"] != "emulsion":
        arg = _copy.deepcopy(rec["info"])
        obj.to_file(str(path), info=arg)
        if arg != rec["info"] and out is not None:      # arguments are inspected after the call
            out.setdefault("oracle", []).append(f"to_file changed its info argument to {str(arg)[:80]}")
    else:
        obj.to_file(str(path))


def _round(obj, path: Path, rec: dict, out: dict, tag: str = "") -> tuple:
    """dump the file at `path`, read it back, judge.  Returns (file dump | None, back | None, back dump | None);
    oracle failures are appended to out["oracle"] with the tag."""
    kind = rec["kind"]
    fdump = bdump = back = None
    if not rec.get("oracle_only"):
        try:
            fdump = _safe(dump_file, path, rec.get("info"))
        except Undumpable as e:
            out["undumpable"] = f"file{tag}: {e}"
    try:
        back = reader_of(kind, rec.get("progress", False))(str(path))
    except Exception as e:  # noqa
        out.setdefault("oracle", []).append(
            f"file{tag} was written without error but from_file raises {type(e).__name__}: {str(e)[:120]}")
        return fdump, None, exc_kind(e)
    if not rec.get("oracle_only"):
        try:
            bdump = _safe(dump_obj, back, kind)
        except Undumpable as e:
            out["undumpable"] = f"object read back{tag}: {e}"
    out.setdefault("oracle", []).extend(f + tag for f in property_failures(obj, back, kind))
    return fdump, back, bdump


def run_one(rec: dict, workdir: Path) -> dict:
    """Build (with the provenance asked for), write (with the history asked for), dump, read back.  Returns
    everything the correspondence and the oracle need.  out["extra"]: further (object, file, read back) triples
    of the same kind for the correspondence (second file of a double write, the re-written read-back object)."""
    out: dict = {"recipe": rec}
    kind = rec["kind"]
    oracle_only = bool(rec.get("oracle_only"))
    try:
        obj = build(rec)
    except Exception as e:  # noqa
        out["construct_error"] = exc_kind(e) + ": " + str(e)[:160]
        return out
    prov = rec.get("prov", "fresh")
    if prov != "fresh":
        try:
            before = None if oracle_only else _safe(dump_obj, obj, kind)
            obj2 = apply_provenance(obj, prov, kind)
            if type(obj2) is not type(obj):
                out["prov_note"] = f"{prov} returns {type(obj2).__name__}"
            else:
                obj = obj2
                if not oracle_only and _safe(dump_obj, obj, kind) != before:
                    out["prov_note"] = f"{prov} changes the object"      # e.g. Emulsion.copy drops NaN radii
        except Undumpable as e:
            out["undumpable"] = f"object: {e}"
            return out
        except Exception as e:  # noqa
            out["prov_note"] = f"{prov} raises {type(e).__name__}"
    path, path2 = workdir / "case.h5", workdir / "case2.h5"
    for q in (path, path2):
        if q.exists():
            q.unlink()
    hist = rec.get("hist", "once")
    if hist == "mutate" and rec.get("grow"):
        try:
            _write(obj, path, rec)
            out["first_write"] = "ok"
        except Exception as e:  # noqa
            out["first_write"] = exc_kind(e)
        try:
            grow(obj, rec)
        except ValueError as e:     # DropletTrack.append refuses another space dimension
            out["grow_error"] = str(e)[:80]
    if not oracle_only:
        try:
            out["obj"] = _safe(dump_obj, obj, kind)
        except Undumpable as e:
            out["undumpable"] = f"object: {e}"
            return out
        if kind == "etc" and any(is_nan_bits(d["radius"]) for _, em in out["obj"] for d in em):
            # stated premise of the property's theorem (C08_etc_nan_radius_refuted): a NaN radius can only sit in a
            # time course through append(copy=False) and is dropped on reading -- correspondence only
            out["domain_note"] = "NaN radius inside a time course"
    if hist == "overwrite" and rec.get("before"):
        try:            # the path already holds another collection
            build(rec["before"]).to_file(str(path))
            out["before_written"] = True
        except Exception:  # noqa
            if path.exists():
                path.unlink()
    try:
        _write(obj, path, rec, out)
        if hist == "twice_same":
            _write(obj, path, rec, out)
        elif hist == "twice_other":
            _write(obj, path2, rec, out)
        out["write"] = "ok"
    except Exception as e:  # noqa
        out["write"] = exc_kind(e)
        out["write_msg"] = str(e)[:160]
        # informational: what a failed to_file leaves behind (not judged: the call raised)
        if hist != "once":
            pass
        elif not path.exists():
            out["left_behind"] = "no file"
        else:
            try:
                left = reader_of(kind)(str(path))
                out["left_behind"] = f"readable file with {len(left)} of {len(obj)} members"
            except Exception as e2:  # noqa
                out["left_behind"] = f"file that {type(e2).__name__}s on reading"
        return out
    if not oracle_only:
        try:      # the object handed to to_file must be the object that was written
            if _safe(dump_obj, obj, kind) != out["obj"]:
                out.setdefault("oracle", []).append("to_file modified the object it was given")
        except Undumpable as e:
            out.setdefault("oracle", []).append(f"to_file left the object in an unusable state ({e})")
    out.setdefault("oracle", [])
    fdump, back, bdump = _round(obj, path, rec, out)
    if fdump is not None:
        out["file"] = fdump
    if back is None:
        out["read"] = bdump
        return out
    out["read"] = "ok"
    if bdump is not None:
        out["back"] = bdump
    out["extra"] = []
    if hist == "twice_other":
        f2, back2, b2 = _round(obj, path2, rec, out, " (second file)")
        if f2 is not None and not oracle_only and "undumpable" not in out:
            out["extra"].append((out["obj"], f2, b2 if back2 is not None else None, b2 if back2 is None else "ok"))
    if hist == "rewrite":
        # the object read back is itself a collection the property quantifies over: write it, read it again
        try:
            _write(back, path2, rec)
        except Exception as e:  # noqa
            out["oracle"].append(f"the object read back cannot be written again: {type(e).__name__}: {str(e)[:100]}")
        else:
            sub: dict = {}
            f2, back2, b2 = _round(back, path2, rec, sub, " (after writing the read-back object again)")
            out["oracle"].extend(sub.get("oracle", []))
            if "undumpable" in sub:
                out["undumpable"] = sub["undumpable"]
            if back2 is not None:
                out["oracle"].extend(f + " (second generation vs original)" for f in property_failures(obj, back2, kind))
            if f2 is not None and bdump is not None and not oracle_only and "undumpable" not in out:
                out["extra"].append((bdump, f2, b2 if back2 is not None else None, b2 if back2 is None else "ok"))
    out["oracle"] = sorted(set(out["oracle"]))
    if rec.get("cross") and "undumpable" not in out and not oracle_only:
        out["cross"] = cross_reads(path, [k for k in KINDS if k != kind])
    return out


KINDS = ["emulsion", "track", "etc", "tracklist"]


def cross_reads(path, kinds) -> list:
    """what the readers of the OTHER collection types make of this file (ties `dec` on files it did not write)"""
    res = []
    for k in kinds:
        try:
            o = reader_of(k)(str(path))
            res.append([k, "ok", dump_obj(o, k)])
        except Undumpable:
            continue
        except Exception as e:  # noqa
            res.append([k, exc_kind(e), None])
    return res


def crafted_cases(workdir: Path) -> list:
    """hand-made files: class names / markers / layouts that to_file never produces"""
    import h5py
    from droplets.droplets import SphericalDroplet, DiffuseDroplet
    from droplets.emulsions import Emulsion
    from droplets.droplet_tracks import DropletTrack
    sph = Emulsion([SphericalDroplet([1.0, 2.0], 3.0)]).data
    dif = Emulsion([DiffuseDroplet([1.0, 2.0], 3.0, 0.5), DiffuseDroplet([0.0, 1.0], 2.0)]).data
    trk = DropletTrack([SphericalDroplet([1.0], 3.0), SphericalDroplet([2.0], 1.0)], [0.5, 2]).data
    specs = [
        (None, "SphericalDroplet"), (sph, "Nope"), (sph, None), (dif, "SphericalDroplet"), (sph, "DiffuseDroplet"),
        (sph, "PerturbedDroplet2D"), (dif, "PerturbedDroplet3D"), (trk, "SphericalDroplet"), (trk, "DiffuseDroplet"),
        (sph, "None"), (trk, "None"), (dif, "DiffuseDroplet"),
    ]
    # rows that no constructor would accept (or only just): the checks of `construct` in the model
    def rows(dim, width, amps, *recs):
        dt = [("position", "<f8", (dim,)), ("radius", "<f8")]
        dt += [("interface_width", "<f8")] if width else []
        dt += [("amplitudes", "<f8", (amps,))] if amps else []
        return np.array(list(recs), dtype=dt)
    nxt = float(np.nextafter(1e-8, 1.0))
    nnan = b2f(0xFFF8000000000000)
    specs += [
        (rows(1, False, 0, ([1.0], -1.0)), "SphericalDroplet"),
        (rows(1, False, 0, ([1.0], 2.0), ([1.0], -np.inf)), "SphericalDroplet"),
        (rows(1, False, 0, ([1.0], -0.0), ([np.nan], nnan)), "SphericalDroplet"),
        (rows(2, True, 0, ([1.0, 2.0], 1.0, -0.5)), "DiffuseDroplet"),
        (rows(2, True, 0, ([1.0, 2.0], np.nan, -0.0), ([1.0, 2.0], 1.0, nnan)), "DiffuseDroplet"),
        (rows(3, True, 2, ([1e-8, -1e-8, 5.0], 1.0, 0.1, [0.1, 0.2])), "PerturbedDroplet3DAxisSym"),
        (rows(3, True, 2, ([nxt, 0.0, 5.0], 1.0, 0.1, [0.1, 0.2])), "PerturbedDroplet3DAxisSym"),
        (rows(3, True, 2, ([0.0, -1e-7, 5.0], 1.0, 0.1, [0.1, 0.2])), "PerturbedDroplet3DAxisSym"),
        (rows(3, True, 2, ([0.0, np.nan, 5.0], 1.0, 0.1, [0.1, 0.2])), "PerturbedDroplet3DAxisSym"),
        (rows(3, True, 2, ([1.0, 2.0, 5.0], 1.0, 0.1, [0.1, 0.2])), "PerturbedDroplet3D"),
        (rows(3, True, 1, ([1.0, 2.0, 5.0], 1.0, 0.1, [0.1])), "PerturbedDroplet2D"),
        (rows(2, True, 1, ([1.0, 2.0], 1.0, 0.1, [0.1])), "PerturbedDroplet3D"),
        (rows(2, True, 1, ([1.0, 2.0], 1.0, 0.1, [0.1])), "PerturbedDroplet2D"),
        (rows(2, True, 1, ([1.0, 2.0], 1.0, 0.1, [0.1])), "DiffuseDroplet"),
    ]
    out = []
    path = workdir / "crafted.h5"
    for data, cname in specs:
        if path.exists():
            path.unlink()
        with h5py.File(path, "w") as fp:
            ds = fp.create_dataset("x", shape=()) if data is None else fp.create_dataset("x", data=data)
            if cname is not None:
                ds.attrs["droplet_class"] = cname
        f = dump_file(path)
        for k, status, o in cross_reads(path, KINDS):
            out.append((k, f, status, o))
    path.unlink()
    return out


HEADER2 = HEADER + """
Definition dec_by (k : Z) (f : file) : result obj :=
  if k =? 0 then rmap OEm (dec_emulsion_file repo_fmt f)
  else if k =? 1 then rmap OTr (dec_track_file repo_fmt f)
  else if k =? 2 then rmap OEtc (dec_etc repo_fmt f)
  else rmap OTl (dec_tracklist repo_fmt f).
(* case = (reader, dumped file, what that reader returned) *)
Definition agree2 (c : Z * file * result obj) : bool :=
  let '(k, f, r) := c in result_eqb obj_eqb (dec_by k f) r.
"""


# ---------------------------------------------------------------------------------------------
# sequences: state kept between calls (input dimension 8) -- on disk, in the objects, in the module
# ---------------------------------------------------------------------------------------------
SAFE_TIME_STYLES = ["range", "half", "negative", "zero", "decreasing", "dups", "mixed", "numpy", "nonuniform"]


def seq_recipe(rng: random.Random, kind: str, n: int, cls: str | None = None, dim: int | None = None,
               na: int | None = None) -> dict:
    """a collection with n top-level members that is inside the domain of the property and can be written:
    one class and layout per dataset, finite radii, no NaN / oversized times"""
    def drops(k, c=None):
        c = c or cls or rng.choice(CLASS_NAMES)
        d_ = CLASS_DIM.get(c) or dim or rng.choice([1, 2, 3])
        a_ = (na or rng.choice([1, 2, 3])) if HAS_AMPL[c] else None     # short records: Coq's time goes into parsing literals
        out = []
        while len(out) < k:
            d = gen_drop(rng, c, d_, a_)
            if not is_nan_bits(d["radius"]):
                out.append(d)
        return out

    def times(k, for_track):
        while True:
            ts, dom, style = gen_time_list(rng, k, for_track)
            if dom and style in SAFE_TIME_STYLES and all("float" in t or abs(t["int"]) < 2 ** 53 for t in ts):
                return ts
    base = {"kind": kind, "flavour": "uniform" if n else "empty", "in_domain": True, "hist": "once", "prov": "fresh"}
    if kind == "emulsion":
        return {**base, "members": drops(n), "build": "ctor"}
    if kind == "track":
        return {**base, "members": drops(n), "times": times(n, True), "build": "ctor"}
    if kind == "etc":
        return {**base, "frames": [drops(rng.choice([0, 1, 2])) for _ in range(n)], "times": times(n, False), "build": "ctor"}
    trs = []
    for _ in range(n):
        k = rng.choice([0, 1, 2])
        trs.append({"members": drops(k), "times": times(k, True)})
    return {**base, "tracks": trs, "build": "ctor"}


# pairs of (class, dim, amplitudes) whose records agree in everything a cache might be keyed on (number of doubles /
# itemsize, field names, dimension) but not in class or layout
LOOKALIKES = [
    (("PerturbedDroplet3D", 3, 2), ("PerturbedDroplet3DAxisSym", 3, 2)),     # identical dtype, different class
    (("DiffuseDroplet", 2, None), ("SphericalDroplet", 3, None)),             # 4 doubles each
    (("PerturbedDroplet2D", 2, 2), ("PerturbedDroplet3D", 3, 1)),             # 6 doubles each, same field names
    (("PerturbedDroplet2D", 2, 1), ("PerturbedDroplet2D", 2, 2)),             # same class and names, other length
    (("SphericalDroplet", 1, None), ("SphericalDroplet", 2, None)),
    (("DiffuseDroplet", 3, None), ("PerturbedDroplet3D", 3, 1)),
]
MUTATIONS = ["grow", "shrink", "clear", "edit"]


def sequence_specs(rng: random.Random, reps: int) -> list[dict]:
    """JSON-able descriptions of call sequences; `reps` scales the randomised families"""
    specs: list[dict] = []
    # (a) B written over A at the same path: every ordered pair of kinds x every length relation
    for ka in KINDS:
        for kb in KINDS:
            for rel, na_, nb_ in (("shorter", 3, 2), ("equal", 3, 3), ("longer", 3, 5), ("empty", 3, 0), ("over empty", 0, 2),
                                  ("much shorter", 12, 1)):
                specs.append({"seq": "write_over", "label": f"{ka} then {kb}, second {rel}",
                              "objs": [seq_recipe(rng, ka, na_), seq_recipe(rng, kb, nb_)]})
    for _ in range(reps):
        for kind in KINDS:
            la, lb = rng.choice(LOOKALIKES)
            if rng.random() < 0.5:
                la, lb = lb, la
            n = rng.choice([1, 2, 3])
            x1, y1, x2, y2 = (seq_recipe(rng, kind, n, *la), seq_recipe(rng, kind, n, *lb),
                              seq_recipe(rng, kind, rng.choice([0, 1, 2, 4]), *la), seq_recipe(rng, kind, n, *lb))
            # (b) two files written alternately   (c) look-alike classes / layouts alternately, fresh paths
            specs.append({"seq": "alternate_files", "label": kind, "objs": [x1, y1, x2, y2]})
            specs.append({"seq": "alternate_classes", "label": f"{kind}: {la[0]}/{la[1]}d/{la[2]} vs {lb[0]}/{lb[1]}d/{lb[2]}",
                          "objs": [x1, y1]})
            a = seq_recipe(rng, kind, rng.choice([1, 2, 3, 4]))
            b = seq_recipe(rng, rng.choice(KINDS + [kind, kind]), rng.choice([0, 1, 2, 6]))
            # (d) the same file read twice: equal, independent objects
            specs.append({"seq": "read_twice", "label": kind, "objs": [a]})
            # (e) read, mutate, write to the same path
            how = rng.choice(MUTATIONS)
            first = next(iter(_all_members(a)), None)
            g = {"drop": gen_drop(rng, first["cls"], len(first["pos"]), len(first["ampl"]) if "ampl" in first else None)
                 if first else gen_drop(rng), "time": rng.choice([{"int": 0}, {"float": f2b(-2.5)}, {"int": 17}, None])}
            while is_nan_bits(g["drop"]["radius"]) or g["drop"].get("ampl") == []:
                g["drop"] = gen_drop(rng, g["drop"]["cls"], len(g["drop"]["pos"]), len(g["drop"].get("ampl", [0])) or 1)
            specs.append({"seq": "read_mutate_write", "label": f"{kind}: {how}", "objs": [a], "how": how, "grow": g})
            # (f) the path is rewritten while an object read from it is still alive
            specs.append({"seq": "write_while_alive", "label": f"{kind} alive, {b['kind']} written", "objs": [a, b]})
            # (g) a good call after a failing one
            specs.append({"seq": "after_failure", "label": kind, "objs": [a, seq_recipe(rng, kind, 2, *la), seq_recipe(rng, kind, 2, *lb)],
                          "bad_file": rng.choice(["unknown_class", "no_attribute", "other_kind", "not_hdf5"])})
        # (i) write (or only query .data / get_linked_data), change the SAME in-memory object in place WITHOUT changing
        # its length, write again to the same and to another path: the files must hold the current values
        for kind in KINDS:
            for k_how, how in enumerate(EDITS):
                touch = TOUCHES[(k_how + KINDS.index(kind) + _) % len(TOUCHES)]
                specs.append({"seq": "write_edit_write", "label": f"{kind}: {touch}, then {how}",
                              "objs": [seq_recipe(rng, kind, 3)], "touch": touch, "how": how})
        # (h) several collections through one open h5py group, look-alike classes alternately, own keys
        for grp in ("/", "g", "a/b"):
            la, lb = rng.choice(LOOKALIKES)
            objs = [seq_recipe(rng, rng.choice(["emulsion", "track"]), rng.choice([0, 1, 2, 3]), *(la if j % 2 == 0 else lb))
                    for j in range(rng.choice([2, 3, 4, 5]))]
            specs.append({"seq": "open_group", "label": f"{len(objs)} datasets", "objs": objs,
                          "group": grp, "dup_key": rng.random() < 0.5})
    return specs


def _parts(obj, kind: str) -> list:
    """every mutable object a collection is made of: the collection, its lists, its members, their droplets"""
    out = [obj]
    if kind == "emulsion":
        return out + list(obj)
    if kind == "track":
        return out + [obj.droplets, obj.times] + list(obj.droplets)
    if kind == "etc":
        return out + [obj.emulsions, obj.times] + list(obj.emulsions) + [d for e in obj.emulsions for d in e]
    for tr in obj:
        out += _parts(tr, "track")
    return out


def shared_state(a, b, kind: str) -> str | None:
    """what two collections that must be independent have in common (object identity or droplet memory)"""
    ids = {id(x): x for x in _parts(a, kind)}
    for y in _parts(b, kind):
        if id(y) in ids:
            return f"the same {type(y).__name__} object"
    da = [d for g in droplets_of(a, kind) for d in g][:24]
    db = [d for g in droplets_of(b, kind) for d in g][:24]
    for x in da:
        for y in db:
            if np.shares_memory(x.data, y.data):
                return "droplet records in the same memory"
    return None


def grow_everywhere(obj, kind: str) -> None:
    """one more entry in every container of the collection (also in the empty ones)"""
    from droplets.droplets import SphericalDroplet
    from droplets.emulsions import Emulsion
    from droplets.droplet_tracks import DropletTrack
    extra = lambda dim: SphericalDroplet([0.5] * (dim or 1), 1.25)   # noqa: E731
    if kind == "emulsion":
        obj.append(extra(obj.dim))
    elif kind == "track":
        obj.append(extra(obj.dim), 99.5)
    elif kind == "etc":
        for e in obj.emulsions:
            e.append(extra(e.dim))
        obj.append(Emulsion([extra(1)]), 99.5)
    else:
        for tr in obj:
            tr.append(extra(tr.dim), 99.5)
        obj.append(DropletTrack([extra(1)], [99.5]))


EDITS = ["radius", "position", "amplitudes_or_width", "times_replaced", "times_item", "member_replaced"]
TOUCHES = ["to_file", "data", "linked_data", "to_file+data"]


def touch_data(obj, kind: str, how: str, path: Path) -> None:
    """what happens to the object before it is edited: written once, and / or its array views queried"""
    containers = [obj] if kind in ("emulsion", "track") else list(obj.emulsions) if kind == "etc" else list(obj)
    if "to_file" in how:
        obj.to_file(str(path))
    if "data" in how:
        for c in containers:
            try:
                if how == "linked_data" and hasattr(c, "get_linked_data"):
                    c.get_linked_data()
                else:
                    c.data
            except Exception:  # noqa   (empty emulsion without dtype)
                pass


def edit_in_place(obj, kind: str, how: str) -> None:
    """change values of a collection through its public attributes, keeping every length"""
    from droplets.emulsions import Emulsion
    from droplets.droplet_tracks import DropletTrack
    groups = droplets_of(obj, kind)
    holders = [obj] if kind in ("track", "etc") else list(obj) if kind == "tracklist" else []
    if how in ("times_replaced", "times_item") and not any(h.times for h in holders):
        how = "radius"                                   # emulsions have no times
    if how == "radius":
        for g in groups:
            for i, d in enumerate(g):
                if i % 2 == 1 or len(g) == 1:
                    d.radius = 7.0 + i
    elif how == "position":
        for g in groups:
            for i, d in enumerate(g[-1:]):
                pos = np.array(d.position, dtype=float)
                pos[-1] = -11.5                           # the last axis is free also for axisymmetric droplets
                d.position = pos
    elif how == "amplitudes_or_width":
        for g in groups:
            for d in g[:2]:
                if hasattr(d, "amplitudes") and len(d.amplitudes):
                    d.amplitudes = np.linspace(0.015625, 0.03125, len(d.amplitudes))
                elif hasattr(d, "interface_width"):
                    d.interface_width = 0.375
                else:
                    d.radius = 3.5
    elif how == "times_replaced":
        for h in holders:
            h.times = [0.5 * j - 1.0 for j in range(len(h.times))]      # a new list of the same length, 0 included
    elif how == "times_item":
        for h in holders:
            if h.times:
                h.times[-1] = 123.25
    else:   # member_replaced: another object of the same class and length at an existing position
        def other(d):
            c = d.copy()
            c.radius = 19.0
            return c
        if kind == "emulsion":
            if len(obj):
                obj[-1] = other(obj[-1])
        elif kind == "track":
            if obj.droplets:
                obj.droplets[0] = other(obj.droplets[0])
        elif kind == "etc":
            for j, e in enumerate(obj.emulsions):
                obj.emulsions[j] = Emulsion([other(d) for d in e])
        else:
            for j, tr in enumerate(obj):
                obj[j] = DropletTrack([other(d) for d in tr.droplets], list(tr.times))


def mutate_obj(obj, kind: str, how: str, spec: dict) -> None:
    """public-attribute mutations of a collection (history `read_mutate_write`)"""
    if how == "grow":
        grow(obj, {"kind": kind, "grow": spec["grow"]})
    elif how == "shrink":
        if kind in ("emulsion", "tracklist"):
            if len(obj):
                obj.pop()
        else:
            members = obj.droplets if kind == "track" else obj.emulsions
            if members:
                members.pop()
                obj.times.pop()
    elif how == "clear":
        if kind == "track":
            obj.droplets, obj.times = [], []
        else:
            obj.clear()
    else:   # edit: another radius for the first droplet, another first time
        ds = [d for g in droplets_of(obj, kind) for d in g]
        if ds:
            ds[0].data["radius"] = 2.5 + float(len(ds))
        for holder in ([obj] if kind in ("track", "etc") else list(obj) if kind == "tracklist" else []):
            if holder.times:
                holder.times[0] = -3.25


def _bad_file(path: Path, how: str, kind: str) -> None:
    """a file the reader of `kind` must refuse"""
    import h5py
    from droplets.droplets import SphericalDroplet
    from droplets.emulsions import Emulsion
    if path.exists():
        path.unlink()
    if how == "not_hdf5":
        path.write_bytes(b"this is not an HDF5 file\n" * 8)
        return
    with h5py.File(path, "w") as fp:
        data = Emulsion([SphericalDroplet([1.0, 2.0], 3.0)]).data
        if how == "other_kind":       # two plain arrays without attributes
            fp.create_dataset("x", data=np.arange(3.0))
            fp.create_dataset("y", data=np.arange(2.0))
            return
        ds = fp.create_dataset("time_000000" if kind == "etc" else "x", data=data)
        if how == "unknown_class":
            ds.attrs["droplet_class"] = "NoSuchDroplet"
            ds.attrs["time"] = 0


def run_sequence(spec: dict, workdir: Path) -> dict:
    """Execute one sequence.  Returns {"oracle": failures, "triples": [(kind, obj dump, file dump, back dump | None,
    status)], "dstriples": [(kind, obj dump, dataset dump, back dump | None, status)], "notes": [...]}; every file that
    a sequence leaves behind is compared with the state-free model (`enc` of the last object written there)."""
    import h5py
    out: dict = {"oracle": [], "triples": [], "dstriples": [], "notes": []}
    objs = [build(r) for r in spec["objs"]]
    kinds = [r["kind"] for r in spec["objs"]]
    dumps = [_safe(dump_obj, o, k) for o, k in zip(objs, kinds)]
    p1, p2 = workdir / "seq1.h5", workdir / "seq2.h5"
    for q in (p1, p2):
        if q.exists():
            q.unlink()

    def judge(j_or_obj, path, tag, kind=None, dump=None):
        """read `path` with the reader of the object's kind, compare with the object, record the triple"""
        if isinstance(j_or_obj, int):
            obj, kind, dump = objs[j_or_obj], kinds[j_or_obj], dumps[j_or_obj]
        else:
            obj = j_or_obj
        rec = {"kind": kind}
        sub: dict = {}
        fdump, back, bdump = _round(obj, path, rec, sub, f" [{tag}]")
        out["oracle"].extend(sub.get("oracle", []))
        if "undumpable" in sub:
            out["notes"].append("undumpable: " + sub["undumpable"])
        elif fdump is not None:
            out["triples"].append((kind, dump, fdump, bdump if back is not None else None, "ok" if back is not None else bdump))
        try:
            if _safe(dump_obj, obj, kind) != dump:
                out["oracle"].append(f"the object written was modified [{tag}]")
        except Undumpable as e:
            out["oracle"].append(f"the object written is unusable afterwards ({e}) [{tag}]")
        return back

    seq = spec["seq"]
    if seq == "write_over":
        try:
            objs[0].to_file(str(p1))
        except Exception as e:  # noqa
            out["notes"].append(f"first write raises {type(e).__name__}")
        objs[1].to_file(str(p1))
        judge(1, p1, "second object over the first")
    elif seq == "alternate_files":
        objs[0].to_file(str(p1))
        objs[1].to_file(str(p2))
        objs[2].to_file(str(p1))
        judge(1, p2, "file 2 after file 1 was rewritten")
        objs[3].to_file(str(p2))
        judge(2, p1, "file 1 after file 2 was rewritten")
        judge(3, p2, "file 2, second content")
    elif seq == "alternate_classes":
        for rnd in (1, 2):
            for j in ((0, 1) if rnd == 1 else (1, 0)):
                if p1.exists():
                    p1.unlink()
                objs[j].to_file(str(p1))
                judge(j, p1, f"round {rnd}, object {j}")
    elif seq == "read_twice":
        kind = kinds[0]
        objs[0].to_file(str(p1))
        r1 = judge(0, p1, "first read")
        r2 = judge(0, p1, "second read")
        if r1 is not None and r2 is not None:
            sh = shared_state(r1, r2, kind)
            if sh:
                out["oracle"].append(f"two reads of one file share {sh}")
            d2 = _safe(dump_obj, r2, kind)
            mutate_obj(r1, kind, "edit", spec)
            grow_everywhere(r1, kind)
            mutate_obj(r1, kind, "shrink", spec)
            if _safe(dump_obj, r2, kind) != d2:
                out["oracle"].append("changing the result of the first read changes the result of the second read")
            judge(0, p1, "third read, after the first result was changed")
    elif seq == "read_mutate_write":
        kind = kinds[0]
        objs[0].to_file(str(p1))
        r = judge(0, p1, "read")
        if r is not None:
            try:
                mutate_obj(r, kind, spec["how"], spec)
            except ValueError as e:        # DropletTrack.append refuses another dimension
                out["notes"].append(f"mutation refused: {str(e)[:60]}")
            dr = _safe(dump_obj, r, kind)
            try:
                r.to_file(str(p1))
            except Exception as e:  # noqa
                out["notes"].append(f"writing the mutated object raises {type(e).__name__}")
            else:
                judge(r, p1, f"mutated ({spec['how']}) object written to the path it was read from", kind, dr)
    elif seq == "write_edit_write":
        kind = kinds[0]
        touch_data(objs[0], kind, spec["touch"], p1)
        edit_in_place(objs[0], kind, spec["how"])
        dumps[0] = _safe(dump_obj, objs[0], kind)
        objs[0].to_file(str(p1))
        judge(0, p1, f"same path, after {spec['touch']} and an in-place change ({spec['how']})")
        objs[0].to_file(str(p2))
        judge(0, p2, f"another path, after {spec['touch']} and an in-place change ({spec['how']})")
    elif seq == "write_while_alive":
        kind = kinds[0]
        objs[0].to_file(str(p1))
        r = judge(0, p1, "read")
        if r is not None:
            dr = _safe(dump_obj, r, kind)
            objs[1].to_file(str(p1))
            if _safe(dump_obj, r, kind) != dr:
                out["oracle"].append("an object read earlier changed when its file was rewritten")
            out["oracle"].extend(f + " [object read before its file was rewritten]" for f in property_failures(objs[0], r, kind))
            r_new = judge(1, p1, "written while the earlier result is alive")
            if r_new is not None and kinds[1] == kind:
                sh = shared_state(r, r_new, kind)
                if sh:
                    out["oracle"].append(f"the results of reading the path before and after it was rewritten share {sh}")
                dn = _safe(dump_obj, r_new, kind)
                grow_everywhere(r, kind)
                if _safe(dump_obj, r_new, kind) != dn:
                    out["oracle"].append("changing an object read earlier changes the object read after the path was rewritten")
    elif seq == "after_failure":
        kind = kinds[0]
        objs[0].to_file(str(p1))
        _bad_file(p2, spec["bad_file"], kind)
        errs = []
        for _ in range(2):
            try:
                reader_of(kind)(str(p2))
                errs.append("no error")
            except Exception as e:  # noqa
                errs.append(type(e).__name__)
            judge(0, p1, f"good file read after a failing read ({errs[-1]})")
        if errs[0] != errs[1]:
            out["oracle"].append(f"reading the same unreadable file twice: {errs[0]}, then {errs[1]}")
        out["notes"].append(f"bad file {spec['bad_file']}: {errs[0]}")
        # a failing to_file (look-alike classes mixed in one dataset), then a good one to the same path
        ra, rb = spec["objs"][1], spec["objs"][2]
        mixed = _copy.deepcopy(ra)
        if kind in ("emulsion", "track"):
            mixed["members"] = ra["members"][:1] + rb["members"][:1]
            if kind == "track":
                mixed["times"] = [{"int": 0}, {"int": 1}]
        elif kind == "etc":
            mixed["frames"] = [ra["frames"][0], [gen_drop(random.Random(0), "SphericalDroplet", 1), gen_drop(random.Random(1), "DiffuseDroplet", 1)]]
            mixed["times"] = [{"int": 0}, {"int": 1}]
        else:
            mixed["tracks"] = ra["tracks"][:1] + [{"members": [gen_drop(random.Random(0), "SphericalDroplet", 1),
                                                              gen_drop(random.Random(1), "DiffuseDroplet", 1)],
                                                  "times": [{"int": 0}, {"int": 1}]}]
        try:
            build(mixed).to_file(str(p1))
            out["notes"].append("the mixed collection was written")
        except Exception as e:  # noqa
            out["notes"].append(f"failing write: {type(e).__name__}")
        objs[1].to_file(str(p1))
        judge(1, p1, "good write after a failing write to the same path")
    elif seq == "open_group":
        from droplets.emulsions import Emulsion
        from droplets.droplet_tracks import DropletTrack
        keys = [f"k{j}_{kinds[j]}" for j in range(len(objs))]
        written: dict[str, int] = {}
        with h5py.File(p1, "w") as fp:
            g = fp if spec["group"] == "/" else fp.create_group(spec["group"])
            for j, (o, key) in enumerate(zip(objs, keys)):
                o._write_hdf_dataset(g, key)
                written[key] = j
            if spec.get("dup_key") and len(objs) >= 2:
                try:       # the key of the first dataset again, with the last object
                    objs[-1]._write_hdf_dataset(g, keys[0])
                    written[keys[0]] = len(objs) - 1
                    out["notes"].append("second write under an existing key accepted")
                except Exception as e:  # noqa
                    out["notes"].append(f"second write under an existing key raises {type(e).__name__}")
        with h5py.File(p1, "r") as fp:
            g = fp if spec["group"] == "/" else fp[spec["group"]]
            if sorted(g.keys()) != sorted(written):
                out["oracle"].append(f"group holds {sorted(g.keys())}, written {sorted(written)}")
            for key, j in written.items():
                if key not in g:
                    continue
                kind = kinds[j]
                try:
                    dsd = _safe(dump_dataset, g[key])
                except Undumpable as e:
                    out["notes"].append(f"undumpable: {e}")
                    continue
                try:
                    back = (Emulsion if kind == "emulsion" else DropletTrack)._from_hdf_dataset(g[key])
                except Exception as e:  # noqa
                    out["oracle"].append(f"dataset {key} was written without error but cannot be read: {type(e).__name__}")
                    out["dstriples"].append((kind, dumps[j], dsd, None, exc_kind(e)))
                    continue
                out["oracle"].extend(f + f" [dataset {key} in an open group]" for f in property_failures(objs[j], back, kind))
                try:
                    out["dstriples"].append((kind, dumps[j], dsd, _safe(dump_obj, back, kind), "ok"))
                except Undumpable as e:
                    out["notes"].append(f"undumpable: {e}")
    else:
        raise ValueError(seq)
    out["oracle"] = sorted(set(out["oracle"]))
    return out


HEADER3 = HEADER + """
Definition enc_ds (o : obj) : result dataset :=
  match o with OEm l => enc_emulsion repo_fmt l | OTr l => enc_track repo_fmt l | _ => Err EOther end.
Definition dec_ds (o : obj) (d : dataset) : result obj :=
  match o with
  | OEm _ => rmap OEm (dec_emulsion repo_fmt d)
  | OTr _ => rmap OTr (dec_track repo_fmt d)
  | _ => Err EOther
  end.
(* case = (object, the dataset that _write_hdf_dataset left in an open group, what _from_hdf_dataset returned) *)
Definition agree3 (c : obj * dataset * result obj) : bool :=
  let '(o, d, r) := c in result_eqb dataset_eqb (enc_ds o) (Ok d) && result_eqb obj_eqb (dec_ds o d) r.
"""


def track_with_mixed_dims(rec: dict) -> bool:
    """the constructions that are documented to raise ValueError: droplets of different space dimensions in one
    track (DropletTrack.append), members of different layouts with Emulsion(..., force_consistency=True)"""
    if rec["kind"] == "emulsion" and rec.get("build") == "force_consistency":
        lay = {(len(m["pos"]), "width" in m, len(m["ampl"]) if "ampl" in m else None) for m in rec["members"]}
        return len(lay) > 1
    tracks = [rec["members"]] if rec["kind"] == "track" else \
        [t["members"] for t in rec["tracks"]] if rec["kind"] == "tracklist" else []
    return any(len({len(m["pos"]) for m in ms}) > 1 for ms in tracks)


def long_recipes(sizes, oracle_only_above: int = 1001) -> list[dict]:
    """collections whose generated keys cross the digit-width boundaries 10 / 100 / 1000 / ... : time courses of
    (mostly empty) frames with non-monotone int/float times, and track lists of one-droplet tracks that are all
    different.  Above `oracle_only_above` members the objects go to the property oracle only."""
    one = f2b(1.0)
    out = []
    for n in sizes:
        near = lambda i: any(abs(i - b) <= 1 for b in (0, 10, 100, 1000, 10 ** 4, 10 ** 5, n - 1))   # noqa: E731
        sp = lambda i: {"cls": "SphericalDroplet", "pos": [f2b(float(i)), i + 1], "radius": one}   # noqa: E731
        df = lambda i: {"cls": "DiffuseDroplet", "pos": [i + 1], "radius": f2b(i / 8), "width": None}   # noqa: E731
        frames = [([sp(i)] if i % 2 else [df(i), df(i + 1)]) if near(i) else [] for i in range(n)]
        times = [({"int": n - i} if i % 3 else {"float": f2b(0.5 * i)}) for i in range(n)]       # last one: time 0 or 1
        base = {"flavour": "uniform", "in_domain": True, "long": n, "hist": "once", "prov": "fresh",
                "oracle_only": n > oracle_only_above}
        out.append({"kind": "etc", "frames": frames, "times": times, "build": "ctor", "time_style": "long", **base})
        tracks = [{"members": [sp(i)] if i % 7 else [df(i), df(i)], "times": [{"int": i}] if i % 7 else
                   [{"float": f2b(-0.5 * i)}, {"int": 0}]} for i in range(n)]
        if n <= 101 or n > oracle_only_above:
            out.append({"kind": "tracklist", "tracks": tracks, "build": "ctor", "time_style": "long", **base})
        else:
            # all tracks different: property oracle only; for the model (Coq spends ~15 ms per track on parsing) a
            # list with the same keys in which only the tracks next to a boundary and every 7th one are non-empty
            out.append({"kind": "tracklist", "tracks": tracks, "build": "ctor", "time_style": "long",
                        **{**base, "oracle_only": True}})
            sparse = [tr if near(i) or i % 7 == 0 else {"members": [], "times": []} for i, tr in enumerate(tracks)]
            out.append({"kind": "tracklist", "tracks": sparse, "build": "ctor", "time_style": "long", **base})
    return out


def exotic_time_recipes(rng: random.Random) -> list[dict]:
    """time codes of numpy scalar types the hand model does not know (float16/32, long double, small ints, unsigned,
    0-d arrays), zero included, at the first / interior / last position: property oracle only"""
    sp = lambda x: {"cls": "SphericalDroplet", "pos": [f2b(x)], "radius": f2b(1.0)}   # noqa: E731
    out = []
    for name in EXOTIC_TIMES:
        vals = [rng.choice([0, 3, 7, 100]), rng.choice([0, 5, 64]), rng.choice([0, 2, 9])]
        if "float" in name or name == "longdouble":
            vals = [v + rng.choice([0, 0.5, 0.25]) for v in vals]
        if not name.startswith("u") and name != "int8":
            vals[rng.randrange(3)] *= -1
        ts = [{"exotic": name, "value": v} for v in vals]
        base = {"flavour": "uniform", "in_domain": True, "oracle_only": True, "time_style": "exotic:" + name,
                "hist": rng.choice(["once", "rewrite"]), "prov": rng.choice(["fresh", "pickle"])}
        out.append({"kind": "etc", "frames": [[sp(1.0)], [], [sp(2.0), sp(3.0)]], "times": ts,
                    "build": rng.choice(["ctor", "append"]), **base})
        out.append({"kind": "track", "members": [sp(1.0), sp(2.0), sp(3.0)], "times": ts,
                    "build": rng.choice(["ctor", "append"]), **base})
        out.append({"kind": "tracklist", "tracks": [{"members": [sp(1.0), sp(2.0)], "times": ts[:2]},
                                                    {"members": [sp(3.0)], "times": ts[2:]}], "build": "ctor", **base})
    return out


def long_collection_failures(width: int, kind: str, workdir: Path) -> list[dict]:
    """10^width + 1 frames / tracks (only called when something is broken and the width is small)."""
    from droplets.emulsions import Emulsion, EmulsionTimeCourse
    from droplets.droplet_tracks import DropletTrack, DropletTrackList
    from droplets.droplets import SphericalDroplet
    n = 10 ** width + 1
    path = workdir / "long.h5"
    if path.exists():
        path.unlink()
    if kind == "etc":
        obj = EmulsionTimeCourse([Emulsion() for _ in range(n)], times=list(range(n)))
        obj.to_file(str(path))
        back = EmulsionTimeCourse.from_file(str(path), progress=False)
    else:
        obj = DropletTrackList([DropletTrack([SphericalDroplet([0.0], 1.0)], [i]) for i in range(n)])
        obj.to_file(str(path))
        back = DropletTrackList.from_file(str(path), progress=False)
    path.unlink()
    f = property_failures(obj, back, kind)
    if f:
        return [{"what": f"{kind} with {n} members does not read back equal: " + "; ".join(f[:3]),
                 "input": {"kind": kind, "members": n, "times": "0..n-1", "content": "empty frames" if kind == "etc"
                           else "one SphericalDroplet([0.0], 1.0) per track"}, "found": True}]
    return []


# ---------------------------------------------------------------------------------------------
# check / replay
# ---------------------------------------------------------------------------------------------
def _quiet():
    logging.disable(logging.CRITICAL)
    warnings.simplefilter("ignore")


def corpus() -> list[dict]:
    """fixed cases that run before the generated stream (past findings and the examples of the proofs)"""
    one = f2b(1.0)
    p2 = lambda amps: {"cls": "PerturbedDroplet2D", "pos": [f2b(1.0), f2b(2.0)], "radius": f2b(3.0),  # noqa: E731
                       "width": f2b(0.5), "ampl": [f2b(a) for a in amps]}
    p3 = {"cls": "PerturbedDroplet3D", "pos": [0, 0, one], "radius": one, "width": None, "ampl": [f2b(.1)] * 3}
    ax = {"cls": "PerturbedDroplet3DAxisSym", "pos": [0, 0, one], "radius": one, "width": None, "ampl": [f2b(.1)] * 3}
    sp = {"cls": "SphericalDroplet", "pos": [one], "radius": one}
    return [
        # F9 (fixed): P3D + AxisSym in one track
        {"kind": "track", "members": [p3, ax], "times": [{"int": 0}, {"int": 1}], "flavour": "mixed_class", "in_domain": True},
        # F26 (fixed by f3c9dfd): one amplitude after two -- to_file must raise TypeError now
        {"kind": "track", "members": [p2([.1, .3]), p2([.2])], "times": [{"int": 0}, {"int": 1}], "flavour": "bcast",
         "in_domain": True},
        {"kind": "track", "members": [p2([.2]), p2([.1, .3])], "times": [{"int": 0}, {"int": 1}], "flavour": "mixed_layout",
         "in_domain": True},
        # integer time beyond 2^53 (outside the domain: correspondence only)
        {"kind": "track", "members": [sp], "times": [{"int": 2 ** 53 + 1}], "flavour": "uniform", "in_domain": False},
        # the non-vacuity example of Properties/C08.v
        {"kind": "etc", "frames": [[{"cls": "SphericalDroplet", "pos": [one, f2b(2.0)], "radius": f2b(3.0)},
                                    {"cls": "SphericalDroplet", "pos": [f2b(2.0), one], "radius": f2b(.5)}], [],
                                   [{"cls": "PerturbedDroplet3DAxisSym", "pos": [0, 0, one], "radius": f2b(2.0),
                                     "width": None, "ampl": [f2b(.1), f2b(.2), f2b(.3)]}],
                                   [{"cls": "DiffuseDroplet", "pos": [one], "radius": one, "width": f2b(.5)}]],
         "times": [{"int": 0}, {"float": f2b(-2.5)}, {"int": 7}, {"float": f2b(.5)}], "flavour": "uniform",
         "in_domain": True},
        {"kind": "etc", "frames": [[sp], [sp, sp]], "times": [{"int": 3}, {"int": 1}], "flavour": "uniform",
         "in_domain": True, "append_style": True},
        # a NaN radius kept in a time course by append(copy=False) (outside the domain: correspondence only)
        {"kind": "etc", "frames": [[{"cls": "SphericalDroplet", "pos": [one, f2b(2.0)], "radius": QNAN},
                                    {"cls": "SphericalDroplet", "pos": [one, f2b(2.0)], "radius": f2b(3.0)}]],
         "times": [{"int": 0}], "flavour": "uniform", "in_domain": False, "append_style": True, "nocopy": True},
        {"kind": "emulsion", "members": [], "flavour": "empty", "in_domain": True},
        {"kind": "tracklist", "tracks": [{"members": [], "times": []}, {"members": [sp], "times": [{"float": f2b(.25)}]}],
         "flavour": "uniform", "in_domain": True},
        # the same mixtures inside an Emulsion / a frame of a time course (independent of the seed)
        {"kind": "emulsion", "members": [p2([.1, .3]), p2([.2])], "flavour": "bcast", "in_domain": True},
        {"kind": "emulsion", "members": [p2([.2]), p2([.1, .3])], "flavour": "mixed_layout", "in_domain": True},
        {"kind": "emulsion", "members": [p3, ax], "flavour": "mixed_class_same_layout", "in_domain": True},
        {"kind": "emulsion", "members": [ax, p3, ax], "flavour": "mixed_class_same_layout", "in_domain": True},
        {"kind": "etc", "frames": [[sp], [ax, p3]], "times": [{"int": 0}, {"int": 1}], "flavour": "mixed_class_same_layout",
         "in_domain": True},
        {"kind": "tracklist", "tracks": [{"members": [sp], "times": [{"int": 0}]},
                                         {"members": [ax, ax, p3], "times": [{"int": 0}, {"int": 1}, {"int": 2}]}],
         "flavour": "mixed_class_same_layout", "in_domain": True},
        # time code 0 after a non-zero one (interior and last), every spelling, through the constructor and append
        {"kind": "track", "members": [sp, sp, sp, sp], "times": [{"int": 5}, {"int": 0}, {"float": 0}, {"float": 2 ** 63}],
         "flavour": "uniform", "in_domain": True, "time_style": "zero"},
        {"kind": "track", "members": [sp, sp, sp], "times": [{"float": f2b(-2.5)}, {"int": 0, "np": True}, {"int": 0}],
         "flavour": "uniform", "in_domain": True, "time_style": "zero", "build": "append"},
        {"kind": "etc", "frames": [[sp], [sp, sp], [], [sp]], "times": [{"int": 3}, {"int": 0}, {"float": 2 ** 63}, {"float": 0, "np": True}],
         "flavour": "uniform", "in_domain": True, "time_style": "zero", "build": "append"},
        {"kind": "etc", "frames": [[], [sp], []], "times": [{"float": f2b(7.5)}, {"int": 0, "np": True}, {"int": 0}],
         "flavour": "uniform", "in_domain": True, "time_style": "zero"},
        # no amplitudes at all: the zero-sized field cannot be stored, to_file must raise
        {"kind": "emulsion", "members": [dict(p2([]), ampl_none=True)], "flavour": "uniform", "in_domain": True},
        {"kind": "track", "members": [p2([]), p2([])], "times": [{"int": 0}, {"int": 1}], "flavour": "uniform", "in_domain": True},
    ]


DEPS = ["Proofs/C08.vo"]


def prove_with_fallback(ctx: vlib.Ctx):
    """Prove over the facts generated from the current source; if the translator fails closed or a proof over
    the fresh text fails, prove over the golden facts instead (DESIGN.md 2.2: the tie is then the correspondence
    run alone).  Returns (ok, fell_back, pending) with pending = what broke on the fresh text."""
    import gen_codec
    ob0, nb0 = ctx.obligations, len(ctx.broken)
    if vlib.prove(ctx, DEPS, gens=["Gen_codec"]):
        return True, False, []
    pending = ctx.broken[nb0:]
    if any("forbidden construct" in b or "allow-list" in b for b in pending):
        return False, False, []
    del ctx.broken[nb0:]
    ctx.obligations = ob0
    with vlib.BuildLock():
        (vlib.COQ_BUILD / "Gen").mkdir(parents=True, exist_ok=True)
        (vlib.COQ_BUILD / "Gen" / "Gen_codec.v").write_text(gen_codec.golden())
    if not vlib.prove(ctx, DEPS, gens=[]):
        ctx.broken[nb0:nb0] = pending
        return False, False, []
    return True, True, pending


def _zero_positions(ts: list) -> str:
    """where the time code 0 sits in a list of dumped times"""
    z = [k for k, t in enumerate(ts) if ("int" in t and t["int"] == 0) or ("float" in t and t["float"] & (2 ** 63 - 1) == 0)]
    if not z:
        return "none"
    n = len(ts)
    if len(z) == n:
        return "all" if n > 1 else "only entry"
    tags = sorted({"first" if k == 0 else "last" if k == n - 1 else "interior" for k in z})
    return "+".join(tags)


def _time_value(t: dict):
    return t["int"] if "int" in t else b2f(t["float"])


def _time_order(ts: list) -> str:
    if len(ts) < 2:
        return "fewer than 2"
    v = [_time_value(t) for t in ts]
    if any(isinstance(x, float) and x != x for x in v):
        return "with NaN"
    steps = [b - a for a, b in zip(v, v[1:])]
    if all(st == 1 for st in steps):
        return "increasing, unit steps"
    if all(st > 0 for st in steps):
        return "increasing, other steps"
    if all(st < 0 for st in steps):
        return "decreasing"
    if all(st == 0 for st in steps):
        return "constant"
    return "with duplicates" if any(st == 0 for st in steps) or len(set(v)) < len(v) else "non-monotone"


def _member_pattern(sizes: list[int]) -> str:
    """where the empty members (frames of a time course, tracks of a list) sit"""
    n = len(sizes)
    if n == 0:
        return "no members"
    e = [k for k, x in enumerate(sizes) if x == 0]
    if not e:
        return "none empty"
    if len(e) == n:
        return "all empty"
    return "empty at " + "+".join(sorted({"first" if k == 0 else "last" if k == n - 1 else "interior" for k in e}))


def _groups(kind: str, obj) -> list[list[dict]]:
    """the droplet groups that are stored as one dataset each"""
    if kind == "emulsion":
        return [obj]
    if kind == "track":
        return [[td[1] for td in obj]]
    if kind == "etc":
        return [te[1] for te in obj]
    return [[td[1] for td in tr] for tr in obj]


def flavour_of(kind: str, obj) -> str:
    """uniform / mixture flavour of the object that actually reaches to_file (a copy may have dropped members)"""
    found = set()
    groups = _groups(kind, obj)
    if not any(groups):
        return "empty"
    for g in groups:
        if len({d["cls"] for d in g}) > 1:
            lay = {(len(d["pos"]), d["width"] is not None, len(d["ampl"])) for d in g}
            found.add("mixed_class_same_layout" if len(lay) == 1 else "mixed_class")
        elif len({len(d["pos"]) for d in g}) > 1:
            found.add("mixed_dim")
        elif len({len(d["ampl"]) for d in g}) > 1:
            found.add("bcast" if len(g[0]["ampl"]) != 1 and any(len(d["ampl"]) == 1 for d in g[1:]) else "mixed_layout")
    for f in ("mixed_class_same_layout", "mixed_class", "mixed_dim", "bcast", "mixed_layout"):
        if f in found:
            return f
    return "uniform"


def count_dimensions(ctx: vlib.Ctx, rec: dict, res: dict) -> None:
    """input-distribution histogram: one key per dimension of notes/input_dimensions.md that applies to C08"""
    kind = rec["kind"]
    ctx.count("kind", kind)
    flav = flavour_of(kind, res["obj"]) if "obj" in res else rec["flavour"]
    ctx.count("flavour", flav)
    if flav not in ("uniform", "empty"):
        ctx.count("mixture_outcome", f"{kind} {flav}: " + (
            "constructor raises" if "construct_error" in res else "to_file raises " + str(res.get("write"))
            if res.get("write") != "ok" else "WRITTEN"))
    ctx.count("build", f"{kind}: {rec.get('build', 'ctor')}")
    ctx.count("provenance", rec.get("prov", "fresh") + (" [" + res["prov_note"].split(" ", 1)[1] + "]" if "prov_note" in res else ""))
    ctx.count("history", rec.get("hist", "once") + (" (" + rec["before"]["kind"] + " file before)" if res.get("before_written") else "")
              + (f" (first to_file {res['first_write']}" + (", growing refused" if "grow_error" in res else "") + ")"
                 if "first_write" in res else ""))
    if kind != "emulsion":
        ctx.count("option_info", "omitted" if "info" not in rec else "None" if rec["info"] is None
                  else "{}" if not rec["info"] else f"{len(rec['info'])} entries")
        ctx.count("time_style", rec.get("time_style", "corpus"))
    if kind in ("etc", "tracklist"):
        ctx.count("option_progress", str(rec.get("progress", False)))
    if kind in ("etc", "track"):
        ctx.count("times_container", rec.get("times_as", "list"))
    if "left_behind" in res:
        ctx.count("after_failed_to_file", res["left_behind"] if "members" not in res["left_behind"] else
                  "readable file with fewer members" if not res["left_behind"].startswith("readable file with 0 ") else
                  "readable file with 0 members")
    obj = res.get("obj")
    if obj is None:
        return
    if kind == "emulsion":
        groups, tlists = [obj], []
    elif kind == "track":
        groups, tlists = [[td[1] for td in obj]], [[td[0] for td in obj]]
    elif kind == "etc":
        groups, tlists = [te[1] for te in obj], [[te[0] for te in obj]]
        ctx.count("n_frames", min(len(obj), 13) if len(obj) < 13 else f">={10 ** (len(str(len(obj) - 1)) - 1)}")
        ctx.count("empty_frames", _member_pattern([len(g) for g in groups]))
    else:
        groups, tlists = [[td[1] for td in tr] for tr in obj], [[td[0] for td in tr] for tr in obj]
        ctx.count("n_tracks", min(len(obj), 13) if len(obj) < 13 else f">={10 ** (len(str(len(obj) - 1)) - 1)}")
        ctx.count("empty_tracks", _member_pattern([len(g) for g in groups]))
    if rec.get("long"):
        return              # thousands of identical-looking members would drown the value histograms
    for ts in tlists:
        if ts:
            ctx.count("time_zero_position", _zero_positions(ts))
            ctx.count("time_order", _time_order(ts))
        for t in ts:
            ctx.count("time_type", "int" if "int" in t else "float")
            if "float" in t:
                ctx.count("bits_time", float_kind(t["float"]))
            else:
                z = abs(t["int"])
                ctx.count("int_time_size", "0" if z == 0 else "<2^31" if z < 2 ** 31 else "<=2^53" if z <= 2 ** 53 else
                          "<2^63" if z < 2 ** 63 else ">=2^63")
    for g in groups:
        for d in g:
            ctx.count("class", d["cls"])
            ctx.count("dim", len(d["pos"]))
            for b in d["pos"]:
                ctx.count("bits_position", float_kind(b))
            ctx.count("bits_radius", float_kind(d["radius"]))
            if d["width"] is not None:
                ctx.count("bits_width", float_kind(d["width"]))
            if HAS_AMPL[d["cls"]]:
                na = len(d["ampl"])
                ctx.count("n_amplitudes", "0" if na == 0 else "1" if na == 1 else ("odd" if na % 2 else "even") + f" ({'<=5' if na <= 5 else '>5'})")
                if na:
                    zero = [b & (2 ** 63 - 1) == 0 for b in d["ampl"]]
                    ctx.count("amplitude_pattern", "all zero" if all(zero) else "only last non-zero" if all(zero[:-1]) and na > 1
                              else "only first non-zero" if all(zero[1:]) and na > 1 else "general")
                for b in d["ampl"]:
                    ctx.count("bits_amplitude", float_kind(b))


def _result_lits(kind: str, fdump, bdump, status: str) -> tuple[str, str]:
    w = f"(Ok {cq_file(fdump)})"
    r = f"(Ok {cq_obj(kind, bdump)})" if status == "ok" else f"(@Err obj {cq_err(status)})"
    return w, r


def check(ctx: vlib.Ctx) -> int:
    _quiet()
    rng = random.Random(ctx.seed)
    ok, fell_back, pending = prove_with_fallback(ctx)
    if fell_back:
        ctx.notes.append("theorems checked over the golden format facts because the text generated from the current "
                         "source did not go through: " + "; ".join(pending)[:600])
        ctx.tie.append("correspondence (translator fell back to the golden facts): real HDF5 files vs enc/dec "
                       "evaluated in Coq")
    else:
        ctx.tie.append("translator (Gen_codec regenerated from /repo: key formats, attribute names, markers, "
                       "sorted(), time column) + correspondence (real HDF5 files vs enc/dec evaluated in Coq)")
    known = vlib.load_known()
    known_ids = {e.get("id") for e in known if e.get("id") == "F12"}

    workdir = ctx.casedir / "h5tmp"
    if workdir.exists():
        shutil.rmtree(workdir)
    workdir.mkdir(parents=True, exist_ok=True)
    try:
        n_cases = ctx.scale(480, 6000)
        recipes = corpus() + [gen_recipe(rng, i) for i in range(n_cases)]
        for j, r in enumerate(recipes):
            r["cross"] = j < ctx.scale(160, 1200)       # also read these files with the other three readers
        n_stream = len(recipes)
        # collections whose keys cross the digit-width boundaries (10^6 + 1 is the known finding F12), and time codes
        # of numpy types outside the hand model (oracle only)
        recipes += long_recipes(ctx.scale([11, 101, 1001], [11, 101, 1001, 10001]))
        if ctx.tier != "quick":
            recipes += [r for r in long_recipes([100001]) if r["kind"] == "etc"]
        recipes += exotic_time_recipes(rng)
        results = [run_one(r, workdir) for r in recipes]

        # ---- sequences of calls (state kept between calls: on disk, in objects, in the module); own PRNG stream so
        # that the recipe stream above does not depend on them
        rng_seq = random.Random(ctx.seed * 7919 + 8)
        seq_specs = sequence_specs(rng_seq, ctx.scale(2, 12))
        seq_lits, seq_index, seqds_lits, seqds_index = [], [], [], []
        seq_viol = []
        for j, spec in enumerate(seq_specs):
            try:
                sres = run_sequence(spec, workdir)
            except Exception as e:  # noqa
                # every object of a sequence can be built, written and read in a fresh state (the state-free model
                # says so below), so a call that raises here does so because of what happened before
                sres = {"oracle": [f"sequence aborted by {type(e).__name__}: {str(e)[:160]}"], "triples": [], "dstriples": [],
                        "notes": []}
            ctx.case(["seq", spec["seq"], spec["label"], j], nontrivial=True)
            okay = "ok" if not sres["oracle"] else "FAILS"
            ctx.count("sequence", f"{spec['seq']}: {okay}")
            if spec["seq"] == "write_over":
                first, rel = spec["label"].split(", second ")
                ctx.count("seq_write_over_kinds", first.replace(" then ", " -> "))
                ctx.count("seq_write_over_length", "second " + rel)
            elif spec["seq"] == "read_mutate_write":
                ctx.count("seq_read_mutate_write", spec["label"])
            elif spec["seq"] == "write_edit_write":
                ctx.count("seq_write_edit_write", spec["label"])
            elif spec["seq"] == "after_failure":
                for nt in sres["notes"]:
                    ctx.count("seq_after_failure", f"{spec['label']}: {nt}")
            elif spec["seq"] == "open_group":
                ctx.count("seq_open_group", f"group {spec['group']!r}, {spec['label']}" + "".join(
                    ", " + nt for nt in sres["notes"] if "existing key" in nt))
            elif spec["seq"] == "alternate_classes":
                ctx.count("seq_lookalikes", spec["label"].split(": ", 1)[1])
            if any(nt.startswith("undumpable") for nt in sres["notes"]):
                ctx.broken.append(f"sequence {j} ({spec['seq']}, {spec['label']}): " + "; ".join(sres["notes"])[:200])
            for kind, od, fd, bd, status in sres["triples"]:
                w2, r2 = _result_lits(kind, fd, bd, status)
                seq_lits.append(f"({cq_obj(kind, od)}, {w2}, {r2})")
                seq_index.append(j)
            for kind, od, dsd, bd, status in sres["dstriples"]:
                r2 = f"(Ok {cq_obj(kind, bd)})" if status == "ok" else f"(@Err obj {cq_err(status)})"
                seqds_lits.append(f"({cq_obj(kind, od)}, {cq_dataset(*dsd)}, {r2})")
                seqds_index.append(j)
            if sres["oracle"]:
                seq_viol.append({"what": f"sequence {spec['seq']} ({spec['label']}): " + "; ".join(sres["oracle"][:4]),
                                 "input": spec, "found": True})
        ctx.evaluations += len(seq_lits) + len(seqds_lits)

        # ---- correspondence literals
        lits, lit_index, long_lits, long_index = [], [], [], []
        suspected_hits = []
        for i, res in enumerate(results):
            rec = res["recipe"]
            if "domain_note" in res:
                rec["in_domain"] = False
                ctx.count("out_of_domain_reason", res["domain_note"])
            elif not rec["in_domain"]:
                ctx.count("out_of_domain_reason", "time outside the stated premise (int beyond 2^53 in a track, NaN)")
            count_dimensions(ctx, rec, res)
            ctx.count("in_domain", rec["in_domain"])
            ctx.count("checked_by", "oracle only" if rec.get("oracle_only") else "model and oracle")
            if rec.get("long"):
                ctx.count("long_collection", f"{rec['kind']} with {rec['long']} members: to_file {res.get('write')}, "
                          f"from_file {res.get('read')}, " + ("equal" if not res.get("oracle") else "DIFFERENT"))
            if "construct_error" in res:
                ctx.count("outcome", "constructor raises " + res["construct_error"].split(":")[0])
                ctx.case(["construct", rec], nontrivial=False)
                # only mixed dimensions inside a track may fail to build (DropletTrack.append checks them)
                if not (track_with_mixed_dims(rec) and res["construct_error"].startswith("ValueError")):
                    ctx.violations.append({"what": "an object the property quantifies over cannot be built: "
                                           + res["construct_error"], "input": rec, "found": True})
                continue
            if "undumpable" in res:
                ctx.broken.append(f"case {i}: cannot be expressed in the model ({res['undumpable']})")
                ctx.count("outcome", "undumpable")
                continue
            if rec.get("oracle_only"):
                ctx.case([rec["kind"], rec.get("time_style"), rec.get("long"), json.dumps(rec.get("times", ""), sort_keys=True)[:200]],
                         nontrivial=True)
                ctx.count("outcome", ("to_file raises " + res["write"]) if res.get("write") != "ok" else
                          "written and read" + ("" if not res.get("oracle") else " (differs)") if res.get("read") == "ok"
                          else "from_file raises " + str(res.get("read")))
                continue
            obj = res["obj"]
            kind = rec["kind"]
            nd = count_drops(kind, obj)
            ctx.case([kind, obj], nontrivial=nd > 0)
            ctx.count("droplets", min(nd, 8))
            if res["write"] != "ok":
                ctx.count("outcome", "to_file raises " + res["write"].split(":")[0])
                w = f"(@Err file {cq_err(res['write'])})"
                r = "(@Err obj EOther)"
            else:
                w = f"(Ok {cq_file(res['file'])})"
                if res["read"] == "ok":
                    ctx.count("outcome", "written and read" + ("" if not res["oracle"] else " (differs)"))
                    r = f"(Ok {cq_obj(kind, res['back'])})"
                else:
                    ctx.count("outcome", "from_file raises " + res["read"].split(":")[0])
                    r = f"(@Err obj {cq_err(res['read'])})"
            target, index = (long_lits, long_index) if rec.get("long") else (lits, lit_index)
            target.append(f"({cq_obj(kind, obj)}, {w}, {r})")
            index.append(i)
            for o2, f2, b2, status in res.get("extra", []):
                w2, r2 = _result_lits(kind, f2, b2, status)
                target.append(f"({cq_obj(kind, o2)}, {w2}, {r2})")
                index.append(i)
                ctx.evaluations += 1
            if rec["flavour"] not in ("uniform", "empty") or nd >= 3:
                ctx.sample({"recipe_kind": kind, "flavour": rec["flavour"], "to_file": res["write"],
                            "from_file": res.get("read"), "object": obj if nd <= 2 else f"{nd} droplets"}, limit=8)

        # ---- the three correspondence runs (independent Coq processes) side by side
        lits2 = []
        if ok:
            for res in results:
                for k, status, o in res.get("cross", []):
                    r = f"(Ok {cq_obj(k, o)})" if status == "ok" else f"(@Err obj {cq_err(status)})"
                    lits2.append(f"({KINDS.index(k)}, {cq_file(res['file'])}, {r})")
                    ctx.count("cross_read", f"{k} reader on {res['recipe']['kind']} file: "
                              + ("ok" if status == "ok" else status.split(":")[0]))
            for k, f, status, o in crafted_cases(workdir):
                r = f"(Ok {cq_obj(k, o)})" if status == "ok" else f"(@Err obj {cq_err(status)})"
                lits2.append(f"({KINDS.index(k)}, {cq_file(f)}, {r})")
                ctx.count("cross_read", f"{k} reader on crafted file: " + ("ok" if status == "ok" else status.split(":")[0]))
            ctx.evaluations += len(lits2)
        bad_cases: list[int] = []
        if ok:
            from concurrent.futures import ThreadPoolExecutor
            with ThreadPoolExecutor(max_workers=5) as ex:
                fut = ex.submit(vlib.run_cases, ctx, "codec", HEADER, lits, "agree", 100) if lits else None
                fut_long = ex.submit(vlib.run_cases, ctx, "long", HEADER, long_lits, "agree", 1) if long_lits else None
                fut2 = ex.submit(vlib.run_cases, ctx, "readers", HEADER2, lits2, "agree2", 120) if lits2 else None
                fut_s = ex.submit(vlib.run_cases, ctx, "seqfile", HEADER, seq_lits, "agree", 100) if seq_lits else None
                fut_d = ex.submit(vlib.run_cases, ctx, "seqds", HEADER3, seqds_lits, "agree3", 100) if seqds_lits else None
                bad = fut.result() if fut else []
                bad_long = fut_long.result() if fut_long else []
                bad2 = fut2.result() if fut2 else []
                bad_s = sorted({seq_index[b] for b in (fut_s.result() if fut_s else [])}
                               | {seqds_index[b] for b in (fut_d.result() if fut_d else [])})
            if bad_s:
                sp = seq_specs[bad_s[0]]
                ctx.broken.append(f"correspondence sequences: a file or dataset left by a sequence of calls differs from "
                                  f"the state-free model in {len(bad_s)} sequence(s), e.g. {sp['seq']} ({sp['label']})")
                ctx.extra["disagreeing_sequences"] = [seq_specs[b] for b in bad_s[:2]]
            bad_cases = sorted({lit_index[b] for b in bad} | {long_index[b] for b in bad_long})
            if bad_cases:
                ex_ = results[bad_cases[0]]
                ctx.broken.append(f"correspondence codec: model and implementation differ on {len(bad_cases)} case(s), e.g. "
                                  f"{ex_['recipe']['kind']}/{ex_['recipe']['flavour']}"
                                  + (f" with {ex_['recipe']['long']} members" if ex_['recipe'].get('long') else "")
                                  + f" to_file={ex_.get('write')} from_file={ex_.get('read')}")
                ctx.extra["disagreeing_recipes"] = [results[b]["recipe"] for b in bad_cases[:3]
                                                    if not results[b]["recipe"].get("long")]
            if bad2:
                ctx.broken.append(f"correspondence readers: model dec and from_file differ on {len(bad2)} of {len(lits2)} "
                                  f"(reader, file) pairs, first: {lits2[bad2[0]][:300]}")

        # ---- property oracle on every generated object of the domain
        for i, res in enumerate(results):
            rec = res["recipe"]
            if not rec["in_domain"] or not res.get("oracle"):
                continue
            v = {"what": "; ".join(res["oracle"][:4]), "input": _slim(rec), "found": True,
                 "to_file": res.get("write"), "from_file": res.get("read"), "model_agrees": i not in bad_cases}
            if any(sus_match(rec, res) for sus_match in SUSPECTED):
                suspected_hits.append(v)
                continue
            ctx.violations.append(v)
        ctx.violations.extend(seq_viol)
        if suspected_hits:
            ctx.notes.append(f"SUSPECTED (reported, not judged): {len(suspected_hits)} input(s), first: "
                             + json.dumps(suspected_hits[0], default=str)[:600])
        if len(ctx.violations) > 2:      # one replay file per distinct symptom is enough
            seen, keep = set(), []
            for v in ctx.violations:
                key = (v["input"].get("kind") or v["input"].get("seq"), v["what"][:60])
                if key not in seen:
                    seen.add(key)
                    keep.append(v)
            ctx.extra["violations_total"] = len(ctx.violations)
            ctx.violations[:] = keep[:6]

        # ---- search when an obligation or the correspondence broke and nothing failed so far
        if (ctx.broken or not ok) and not ctx.violations:
            try:
                import gen_codec
                facts = gen_codec.facts()
            except Exception:  # noqa
                facts = {}
            for kind, key in (("etc", "etc_width"), ("tracklist", "tl_width")):
                w = facts.get(key)
                if isinstance(w, int) and w != 6 and 10 ** w + 1 <= 20001:
                    for v in long_collection_failures(w, kind, workdir):
                        ctx.violations.append({**v, "broken": (pending + ctx.broken)[:3]})
            if not ctx.violations:
                for spec in sequence_specs(rng_seq, ctx.scale(6, 12)):
                    try:
                        sres = run_sequence(spec, workdir)
                    except Exception as e:  # noqa
                        sres = {"oracle": [f"sequence aborted by {type(e).__name__}: {str(e)[:160]}"]}
                    if sres["oracle"]:
                        ctx.violations.append({"what": f"sequence {spec['seq']} ({spec['label']}): " + "; ".join(sres["oracle"][:4]),
                                               "input": spec, "found": True, "broken": (pending + ctx.broken)[:3]})
                        break
            if not ctx.violations:
                extra = [gen_recipe(rng, i) for i in range(ctx.scale(1500, 6000))]
                for rec in extra:
                    res = run_one(rec, workdir)
                    if rec["in_domain"] and "domain_note" not in res and res.get("oracle") \
                            and not any(m(rec, res) for m in SUSPECTED):
                        ctx.violations.append({"what": "; ".join(res["oracle"][:4]), "input": rec, "found": True,
                                               "broken": (pending + ctx.broken)[:3]})
                        break
        if not ok and not ctx.broken:
            ctx.broken.append("proof obligations of Properties/C08.v do not check")
        if fell_back and (ctx.broken or ctx.violations):
            # the golden model does not describe the current code either: report what broke first
            ctx.broken[0:0] = pending

        # ---- known findings (reported only when listed)
        if ok and not fell_back and "F12" in known_ids:
            ctx.known_printed.append(F12_TEXT)     # established for the current key format by C08_pad6_unsorted_refuted
        ctx.notes.append(
            "input dimensions (notes/input_dimensions.md): see the histogram keys class, dim, n_amplitudes, "
            "amplitude_pattern, bits_*, time_style, time_zero_position, time_order, time_type, int_time_size, "
            "times_container, n_frames / n_tracks, empty_frames / empty_tracks, build, provenance, history, "
            "option_info, option_progress, long_collection, cross_read, sequence / seq_* (dimension 8: every file or "
            "dataset a sequence of calls leaves behind is compared with the state-free model in Coq and judged by the "
            "oracle against the last object written), after_failed_to_file (informational: a to_file "
            "that raises in the middle of a time course / track list leaves a readable, shorter file behind). "
            "Oracle only (outside the hand model): time codes of numpy types other than int64/float64 and 0-d arrays "
            "(time_style exotic:*), collections with more than 1001 members; file-level attributes written for "
            "`info` are outside the model's `file` (readers ignore them) and are only required to carry the keys of "
            "`info`.  SUSPECTED list: " + (", ".join(m.__doc__ or m.__name__ for m in SUSPECTED) or "empty"))
    finally:
        shutil.rmtree(workdir, ignore_errors=True)
    return vlib.finish(ctx, "", TRUSTED, ASSUME, RULE)


# inputs that make the UNCHANGED /repo fail the property and are waiting for a decision: predicates
# (recipe, result) -> bool; matching failures are reported in the evidence notes but not judged
SUSPECTED: list = []


def _slim(rec: dict) -> dict:
    """replay input: long collections are regenerated from their size instead of being written out"""
    if rec.get("long"):
        return {"kind": rec["kind"], "long": rec["long"], "oracle_only": bool(rec.get("oracle_only")),
                "regenerate": "long_recipes([n])"}
    return rec


def replay(path: str) -> int:
    _quiet()
    blob = json.load(open(path))
    rec = blob.get("input")
    print(json.dumps({k: blob[k] for k in blob if k != "input"}, indent=1)[:1500])
    if isinstance(rec, dict) and rec.get("seq"):
        workdir = vlib.BUILD / "cases" / "C08" / "replaytmp"
        workdir.mkdir(parents=True, exist_ok=True)
        try:
            try:
                sres = run_sequence(rec, workdir)
            except Exception as e:  # noqa
                sres = {"oracle": [f"sequence aborted by {type(e).__name__}: {str(e)[:160]}"], "notes": []}
        finally:
            shutil.rmtree(workdir, ignore_errors=True)
        print("sequence:", rec["seq"], "--", rec["label"])
        for j, r in enumerate(rec["objs"]):
            print(f"  object {j}:", json.dumps(r)[:400])
        print("  notes :", sres.get("notes"))
        print("  oracle:", sres["oracle"])
        print("property violated on the current tree:", bool(sres["oracle"]))
        return 1 if sres["oracle"] else 0
    if isinstance(rec, dict) and rec.get("regenerate") and isinstance(rec.get("long"), int):
        cands = [r for r in long_recipes([rec["long"]]) if r["kind"] == rec["kind"]]
        rec = next((r for r in cands if bool(r.get("oracle_only")) == bool(rec.get("oracle_only"))), cands[0])
    if not isinstance(rec, dict) or rec.get("kind") not in ("emulsion", "track", "etc", "tracklist") \
            or ("members" in rec and isinstance(rec["members"], int)):
        print("replay file carries no object recipe (see 'what')")
        return 1
    workdir = vlib.BUILD / "cases" / "C08" / "replaytmp"
    workdir.mkdir(parents=True, exist_ok=True)
    try:
        res = run_one(rec, workdir)
    finally:
        shutil.rmtree(workdir, ignore_errors=True)
    print("recipe:", json.dumps(rec)[:1200])
    for k in ("construct_error", "prov_note", "domain_note", "write", "write_msg", "left_behind", "read", "oracle"):
        if k in res:
            print(f"  {k}: {str(res[k])[:1500]}")
    if "obj" in res:
        print("  model input :", cq_obj(rec["kind"], res["obj"])[:600])
    if "back" in res:
        print("  read back   :", cq_obj(rec["kind"], res["back"])[:600])
    failing = bool(res.get("oracle")) or ("construct_error" in res and not (
        track_with_mixed_dims(rec) and res["construct_error"].startswith("ValueError")))
    print("property violated on the current tree:", failing)
    return 1 if failing else 0
