"""C08 -- saving and loading returns an equal object.

(a) proofs: Properties/C08.v over the format facts regenerated from /repo (Gen_codec)
(b) correspondence: real HDF5 files written by `to_file` are dumped canonically (keys in file order,
    attributes, rows as bit patterns) and compared with the model's `enc` INSIDE Coq; the objects
    returned by `from_file` are compared with the model's `dec` of the dumped file
(c) oracle (Python, from the property text) on every generated object
(d) evidence;  (e) known finding F12 (only reported when listed in known_findings.json)
"""
from __future__ import annotations

import json
import logging
import os
import random
import shutil
import struct
import warnings
from pathlib import Path

import numpy as np

import vlib

TRUSTED = [
    "Coq 8.16.1 kernel + vm_compute (no native_compute)",
    "harness/gen_codec.py (Python-ast extraction of key formats, attribute names, markers, sorted() iteration, "
    "time column; fail closed) -- its output is what the theorems are instantiated with",
    "hand-written model coq/Model/Codec.v of Emulsion/EmulsionTimeCourse/DropletTrack/DropletTrackList "
    "to_file/from_file and of the five constructors, tied to /repo by the correspondence run of this check",
    "HDF5 store oracle (h5py 3.16): datasets and attributes are returned bit for bit, group members are listed in "
    "lexicographic order of their names; python int attrs are stored as int64/uint64; both checked on every sample "
    "(the dump of the real file must equal h5_store(enc x) computed in Coq)",
    "numpy behaviours determined by experiment and checked per sample: np.array of records with different dtypes is "
    "an object array (h5py TypeError); record dtypes are equal iff dimension, fields and mode count agree (the layout "
    "check of DropletTrack.data); tuple assignment to a structured row would broadcast a length-1 list (unreachable "
    "behind that check); int -> f8 is correctly rounded",
    "the dump/canonicalisation code of this module (numpy uint64 views of the stored doubles)",
]
ASSUME = [
    "doubles are modelled by their bit patterns: equality is bit identity (NaN payloads preserved, +0 <> -0), which "
    "implies the package's == (np.allclose(rtol=0, atol=0, equal_nan=True))",
    "at most 10^6 frames / tracks per file (premise of C08_dec_enc_etc / _tracklist_partial; beyond it "
    "C08_pad6_unsorted_refuted applies)",
    "objects are those the constructors / append produce (valid_drop, same dimension within a track, radius > -1 "
    "within a time course because EmulsionTimeCourse.append copies with Emulsion.copy())",
    "tracks: integer times within +-2^53 (times_exact: the time column is f8; beyond it C08_track_int_time_refuted "
    "applies); time courses: no NaN radius (C08_etc_nan_radius_refuted)",
    "times are python/numpy ints or 64-bit floats, not NaN",
    "class names are the five registered droplet classes",
]
RULE = ("objects generated from VERIF_SEED: all five classes, d=1..3, 1..15 amplitudes, unset/NaN/-0/inf fields, "
        "empty collections and members, int/float/negative/non-uniform/numpy times, mixed classes and mixed layouts; "
        "each object is written with to_file, the file is dumped and compared with enc inside Coq, read back with "
        "from_file and compared with dec; distinct = distinct canonical objects, non-trivial = at least one droplet")

F12_TEXT = ("more than 10^6 frames/tracks: 6-digit keys sort lexicographically, time_1000000 is read before "
            "time_999999")
CLASS_NAMES = ["SphericalDroplet", "DiffuseDroplet", "PerturbedDroplet2D", "PerturbedDroplet3D",
               "PerturbedDroplet3DAxisSym"]
COQ_CLASS = {"SphericalDroplet": "Spherical", "DiffuseDroplet": "Diffuse", "PerturbedDroplet2D": "P2D",
             "PerturbedDroplet3D": "P3D", "PerturbedDroplet3DAxisSym": "P3DAxi"}
HAS_WIDTH = {n: n != "SphericalDroplet" for n in CLASS_NAMES}
HAS_AMPL = {n: n.startswith("Perturbed") for n in CLASS_NAMES}
CLASS_DIM = {"PerturbedDroplet2D": 2, "PerturbedDroplet3D": 3, "PerturbedDroplet3DAxisSym": 3}


# ---------------------------------------------------------------------------------------------
# bit patterns
# ---------------------------------------------------------------------------------------------
def f2b(x) -> int:
    return struct.unpack("<Q", struct.pack("<d", float(x)))[0]


def b2f(b: int) -> float:
    return struct.unpack("<d", struct.pack("<Q", b))[0]


def arr_bits(a) -> list[int]:
    """exact bit patterns of a float64 scalar / array (no FPU round trip)"""
    a = np.ascontiguousarray(np.atleast_1d(a), dtype="<f8")
    return [int(v) for v in a.view("<u8").ravel()]


QNAN = 0x7FF8000000000000
SPECIAL_NONNEG = [0, 0x8000000000000000, 0x7FF0000000000000, QNAN, 0x7FF8000000000123, 0xFFF8000000000000,
                  0x7FF0000000000001, 1, 0x000FFFFFFFFFFFFF, 0x7FEFFFFFFFFFFFFF]   # not < 0 (NaN, -0.0 included)
SPECIAL_ANY = SPECIAL_NONNEG + [0xFFF0000000000000, 0x8000000000000001, 0xFFEFFFFFFFFFFFFF]
AXIS_OK = [0, 0x8000000000000000, f2b(1e-8), f2b(-1e-8), 1, f2b(1e-9), f2b(-3e-9)]


def gen_bits(rng: random.Random, role: str) -> int:
    u = rng.random()
    if role == "axis":
        return rng.choice(AXIS_OK)
    if role in ("radius", "width"):
        if u < 0.55:
            return f2b(rng.randrange(0, 64 * 50) / 64.0)
        if u < 0.75:
            return f2b(abs(rng.gauss(0, 1)) * 10 ** rng.randrange(-6, 7))
        if u < 0.88:
            b = rng.getrandbits(63)       # sign cleared: any non-negative double, inf or NaN
            return b
        return rng.choice(SPECIAL_NONNEG)
    # position / amplitude: anything
    if u < 0.5:
        return f2b(rng.randrange(-64 * 100, 64 * 100) / 64.0)
    if u < 0.72:
        return f2b(rng.gauss(0, 1) * 10 ** rng.randrange(-6, 7))
    if u < 0.88:
        return rng.getrandbits(64)
    return rng.choice(SPECIAL_ANY)


# ---------------------------------------------------------------------------------------------
# recipes (JSON-able) and how they become objects
# ---------------------------------------------------------------------------------------------
def gen_drop(rng: random.Random, cls: str | None = None, dim: int | None = None, na: int | None = None) -> dict:
    cls = cls or rng.choice(CLASS_NAMES)
    dim = CLASS_DIM.get(cls) or dim or rng.choice([1, 2, 3])
    pos = [gen_bits(rng, "pos") for _ in range(dim)]
    if cls == "PerturbedDroplet3DAxisSym":
        pos[0], pos[1] = gen_bits(rng, "axis"), gen_bits(rng, "axis")
    r = {"cls": cls, "pos": pos, "radius": gen_bits(rng, "radius")}
    if HAS_WIDTH[cls]:
        r["width"] = None if rng.random() < 0.35 else gen_bits(rng, "width")   # None = argument left unset
    if HAS_AMPL[cls]:
        na = na or rng.choice([1, 1, 2, 3, 4, 6, 8, 15, rng.randrange(1, 16)])
        r["ampl"] = [gen_bits(rng, "ampl") for _ in range(na)]
    return r


def build_drop(r: dict):
    from droplets import droplets as dr
    cls = getattr(dr, r["cls"])
    # uint64 views keep the exact bit patterns (NaN payloads)
    pos = np.array(r["pos"], dtype="<u8").view("<f8")
    kw = {}
    if "width" in r:
        kw["interface_width"] = None if r["width"] is None else np.array([r["width"]], dtype="<u8").view("<f8")[0]
    if "ampl" in r:
        kw["amplitudes"] = np.array(r["ampl"], dtype="<u8").view("<f8")
    radius = np.array([r["radius"]], dtype="<u8").view("<f8")[0]
    return cls(pos, radius, **kw)


def gen_time_list(rng: random.Random, n: int, for_track: bool) -> tuple[list[dict], bool]:
    """returns (times, in_domain); a time is {"int": z} | {"float": bits} (+ "np": true for numpy scalars)"""
    style = rng.choice(["range", "range", "half", "nonuniform", "negative", "mixed", "numpy", "dups", "decreasing",
                        "bigint", "special", "ood"])
    in_domain = True
    out: list[dict] = []
    for i in range(n):
        if style == "range":
            t = {"int": i}
        elif style == "half":
            t = {"float": f2b(0.5 * i)}
        elif style == "nonuniform":
            t = {"float": f2b(rng.uniform(-5, 50) * 10 ** rng.randrange(-3, 4))}
        elif style == "negative":
            t = {"int": -rng.randrange(0, 1000)} if rng.random() < 0.5 else {"float": f2b(-rng.random() * 100)}
        elif style == "mixed":
            t = {"int": rng.randrange(-10, 100)} if rng.random() < 0.5 else {"float": f2b(rng.randrange(-640, 6400) / 64)}
        elif style == "numpy":
            t = ({"int": rng.randrange(-10 ** 6, 10 ** 6), "np": True} if rng.random() < 0.5
                 else {"float": f2b(rng.gauss(0, 100)), "np": True})
        elif style == "dups":
            t = {"int": i // 2}
        elif style == "decreasing":
            t = {"float": f2b(10.0 - 1.25 * i)}
        elif style == "bigint":
            t = {"int": rng.choice([2 ** 53, -2 ** 53, 2 ** 53 - 1, 2 ** 52 + 1, 2 ** 31, -2 ** 40 + 7, 10 ** 15 + i])}
        elif style == "special":
            t = {"float": rng.choice([0x8000000000000000, 0x7FF0000000000000, 0xFFF0000000000000, 1,
                                      0x7FEFFFFFFFFFFFFF, 0])}
        else:  # outside the domain of the property: correspondence only
            in_domain = False
            if for_track:
                t = rng.choice([{"int": 2 ** 53 + 1 + 2 * i}, {"float": QNAN}, {"int": 2 ** 63 + 12345}, {"int": 2 ** 64 + 1},
                                {"int": -2 ** 63 - 1025}, {"int": 2 ** 200 + 3}, {"int": 10 ** 400},
                                {"int": (2 ** 53 + 1) * 2 ** 11}, {"float": 0x7FF8000000000123}])
            else:
                t = rng.choice([{"float": QNAN}, {"float": 0xFFF8000000000001}, {"int": i}])
        out.append(t)
    if not for_track and rng.random() < 0.08:
        # int attributes at the edges of what h5py can store (beyond: TypeError on writing)
        k = rng.randrange(n) if n else 0
        if n:
            out[k] = {"int": rng.choice([2 ** 63 - 1, 2 ** 63, 2 ** 64 - 1, 2 ** 64, -2 ** 63, -2 ** 63 - 1, 2 ** 53 + 1, 10 ** 30])}
    return out, in_domain


def build_time(t: dict):
    if "int" in t:
        if t.get("np") and -2 ** 63 <= t["int"] < 2 ** 63:
            return np.int64(t["int"])
        return int(t["int"])
    v = np.array([t["float"]], dtype="<u8").view("<f8")[0]
    return v if t.get("np") else float(v)


def gen_members(rng: random.Random, n: int, for_track: bool) -> tuple[list[dict], str]:
    """n droplet recipes + the flavour: uniform | mixed_class | mixed_layout | bcast"""
    if n == 0:
        return [], "empty"
    u = rng.random()
    cls = rng.choice(CLASS_NAMES)
    d0 = gen_drop(rng, cls)
    dim, na = len(d0["pos"]), len(d0.get("ampl", [])) or None
    if u < 0.70 or n == 1:
        return [d0] + [gen_drop(rng, cls, dim, na) for _ in range(n - 1)], "uniform"
    if u < 0.82:
        # a second class; for tracks prefer the same dimension (otherwise append raises already)
        others = [c for c in CLASS_NAMES if c != cls and (not for_track or (CLASS_DIM.get(c) or dim) == dim)]
        c2 = rng.choice(others or [c for c in CLASS_NAMES if c != cls])
        ms = [d0] + [gen_drop(rng, cls if rng.random() < 0.5 else c2, dim, na) for _ in range(n - 1)]
        k = rng.randrange(1, n)
        ms[k] = gen_drop(rng, c2, dim if c2 not in CLASS_DIM else None, None)
        if rng.random() < 0.3:
            ms[0], ms[k] = ms[k], ms[0]
        return ms, "mixed_class"
    # same class, different layouts
    ms = [d0] + [gen_drop(rng, cls, dim, na) for _ in range(n - 1)]
    k = rng.randrange(1, n)
    if HAS_AMPL[cls]:
        v = rng.random()
        if v < 0.4:
            na0, nak = rng.choice([2, 3, 5, 8]), 1          # one amplitude after several (numpy broadcasts)
        elif v < 0.6:
            na0, nak = 1, rng.choice([2, 3, 7])
        else:
            na0 = rng.randrange(2, 9)
            nak = rng.choice([x for x in range(2, 12) if x != na0])
        ms = [gen_drop(rng, cls, dim, na0) for _ in range(n)]
        ms[k] = gen_drop(rng, cls, dim, nak)
        if rng.random() < 0.25:
            ms[0], ms[k] = ms[k], ms[0]
        flav = "bcast" if (len(ms[0]["ampl"]) != 1 and any(len(m["ampl"]) == 1 for m in ms[1:])) else "mixed_layout"
        return ms, flav
    d2 = rng.choice([x for x in (1, 2, 3) if x != dim])
    ms[k] = gen_drop(rng, cls, d2)
    return ms, "mixed_dim"


def gen_recipe(rng: random.Random, i: int) -> dict:
    kind = ["emulsion", "track", "etc", "tracklist"][i % 4]
    sizes = [0, 1, 1, 2, 2, 3, 4, 5]
    if kind == "emulsion":
        ms, flav = gen_members(rng, rng.choice(sizes), False)
        rec = {"kind": kind, "members": ms, "flavour": flav, "in_domain": True}
        if not ms and rng.random() < 0.5:
            rec["empty_like"] = gen_drop(rng)     # Emulsion.empty(droplet): an empty emulsion that knows its dtype
        return rec
    if kind == "track":
        ms, flav = gen_members(rng, rng.choice(sizes), True)
        ts, dom = gen_time_list(rng, len(ms), True)
        return {"kind": kind, "members": ms, "times": ts, "flavour": flav, "in_domain": dom}
    if kind == "etc":
        n = rng.choice(sizes)
        frames, flavs = [], []
        for _ in range(n):
            ms, flav = gen_members(rng, rng.choice([0, 0, 1, 2, 3]), False) if rng.random() < 0.85 else \
                gen_members(rng, rng.choice([2, 3]), False)
            frames.append(ms)
            flavs.append(flav)
        ts, dom = gen_time_list(rng, n, False)
        flav = "empty" if n == 0 else next((f for f in flavs if f not in ("uniform", "empty")), "uniform")
        return {"kind": kind, "frames": frames, "times": ts, "flavour": flav, "in_domain": dom,
                "default_times": n > 0 and rng.random() < 0.1}
    n = rng.choice([0, 1, 2, 3, 4])
    tracks, flavs, dom = [], [], True
    for _ in range(n):
        ms, flav = gen_members(rng, rng.choice([0, 1, 2, 3]), True)
        ts, d = gen_time_list(rng, len(ms), True)
        dom = dom and d
        tracks.append({"members": ms, "times": ts})
        flavs.append(flav)
    flav = "empty" if n == 0 else next((f for f in flavs if f not in ("uniform", "empty")), "uniform")
    return {"kind": kind, "tracks": tracks, "flavour": flav, "in_domain": dom}


def build(rec: dict):
    from droplets.emulsions import Emulsion, EmulsionTimeCourse
    from droplets.droplet_tracks import DropletTrack, DropletTrackList
    k = rec["kind"]
    if k == "emulsion":
        if not rec["members"] and rec.get("empty_like"):
            return Emulsion.empty(build_drop(rec["empty_like"]))
        return Emulsion([build_drop(m) for m in rec["members"]])
    if k == "track":
        return DropletTrack([build_drop(m) for m in rec["members"]], [build_time(t) for t in rec["times"]])
    if k == "etc":
        ems = [Emulsion([build_drop(m) for m in fr]) for fr in rec["frames"]]
        if rec.get("default_times"):
            return EmulsionTimeCourse(ems)
        if rec.get("append_style"):
            obj = EmulsionTimeCourse()
            for e, t in zip(ems, rec["times"]):
                obj.append(e, build_time(t), copy=not rec.get("nocopy"))
            return obj
        return EmulsionTimeCourse(ems, [build_time(t) for t in rec["times"]])
    return DropletTrackList([DropletTrack([build_drop(m) for m in tr["members"]],
                                          [build_time(t) for t in tr["times"]]) for tr in rec["tracks"]])


# ---------------------------------------------------------------------------------------------
# canonical dumps
# ---------------------------------------------------------------------------------------------
class Undumpable(Exception):
    pass


def dump_drop(d) -> dict:
    name = type(d).__name__
    if name not in COQ_CLASS:
        raise Undumpable(f"droplet class {name}")
    names = d.data.dtype.names
    known = ["position", "radius", "interface_width", "amplitudes"]
    if any(n not in known for n in names):
        raise Undumpable(f"fields {names}")
    out = {"cls": name, "pos": arr_bits(d.data["position"]), "radius": arr_bits(d.data["radius"])[0],
           "width": arr_bits(d.data["interface_width"])[0] if "interface_width" in names else None,
           "ampl": arr_bits(d.data["amplitudes"]) if "amplitudes" in names else []}
    if "amplitudes" in names and not HAS_AMPL[name] or ("interface_width" in names) != HAS_WIDTH[name]:
        raise Undumpable(f"{name} with fields {names}")
    return out


def dump_time(t) -> dict:
    if isinstance(t, (bool, np.bool_)):
        raise Undumpable(f"time {t!r}")
    if isinstance(t, (int, np.integer)):
        return {"int": int(t)}
    if isinstance(t, float) or (isinstance(t, np.floating) and t.dtype == np.float64):
        return {"float": arr_bits(t)[0]}
    raise Undumpable(f"time {t!r} of type {type(t).__name__}")


def dump_obj(obj, kind: str):
    if kind == "emulsion":
        return [dump_drop(d) for d in obj]
    if kind == "track":
        if len(obj.times) != len(obj.droplets):
            raise Undumpable("track with different numbers of times and droplets")
        return [[dump_time(t), dump_drop(d)] for t, d in zip(obj.times, obj.droplets)]
    if kind == "etc":
        if len(obj.times) != len(obj.emulsions):
            raise Undumpable("time course with different numbers of times and emulsions")
        return [[dump_time(t), [dump_drop(d) for d in e]] for t, e in zip(obj.times, obj.emulsions)]
    return [dump_obj(tr, "track") for tr in obj]


def dump_file(path) -> list:
    """[(key, attrs, body)] in the order in which h5py lists the keys"""
    import h5py
    out = []
    with h5py.File(path, "r") as fp:
        if len(fp.attrs):
            raise Undumpable("file-level attributes")
        for key in fp.keys():
            ds = fp[key]
            if not isinstance(ds, h5py.Dataset):
                raise Undumpable(f"{key} is not a dataset")
            attrs = []
            for an, av in ds.attrs.items():
                if isinstance(av, str):
                    attrs.append([an, {"str": av}])
                elif isinstance(av, (np.integer,)) and not isinstance(av, np.bool_):
                    attrs.append([an, {"int": int(av)}])
                elif isinstance(av, np.floating) and av.dtype == np.float64:
                    attrs.append([an, {"float": arr_bits(av)[0]}])
                else:
                    raise Undumpable(f"attribute {an}={av!r} of type {type(av).__name__}")
            if ds.shape == ():
                body = None
            else:
                if ds.ndim != 1 or ds.dtype.names is None:
                    raise Undumpable(f"dataset of shape {ds.shape} dtype {ds.dtype}")
                arr = ds[...]
                rows = []
                for row in arr:
                    fields = []
                    for n in arr.dtype.names:
                        ft = arr.dtype.fields[n][0]
                        if ft.base != np.dtype("<f8") or len(ft.shape) > 1:
                            raise Undumpable(f"field {n} of type {ft}")
                        fields.append([n, arr_bits(row[n]), bool(ft.shape)])
                    rows.append(fields)
                body = rows
            out.append([key, attrs, body])
    return out


# ---------------------------------------------------------------------------------------------
# Coq literals
# ---------------------------------------------------------------------------------------------
def cq_str(s: str) -> str:
    if not s.isascii() or any(ord(c) < 32 for c in s):
        raise Undumpable(f"string {s!r}")
    return '"' + s.replace('"', '""') + '"'


def cq_zs(bs) -> str:
    return "[" + "; ".join(str(int(b)) for b in bs) + "]"


def cq_time(t: dict) -> str:
    if "int" in t:
        return f"(TInt ({int(t['int'])}))"
    return f"(TFloat {int(t['float'])})"


def cq_drop(d: dict) -> str:
    w = "None" if d["width"] is None else f"(Some {int(d['width'])})"
    return f"(D {COQ_CLASS[d['cls']]} {cq_zs(d['pos'])} {int(d['radius'])} {w} {cq_zs(d['ampl'])})"


def cq_list(items, f) -> str:
    return "[" + "; ".join(f(x) for x in items) + "]"


def cq_track(tr) -> str:
    return cq_list(tr, lambda td: f"({cq_time(td[0])}, {cq_drop(td[1])})")


def cq_obj(kind: str, o) -> str:
    if kind == "emulsion":
        return f"(OEm {cq_list(o, cq_drop)})"
    if kind == "track":
        return f"(OTr {cq_track(o)})"
    if kind == "etc":
        return "(OEtc " + cq_list(o, lambda te: f"({cq_time(te[0])}, {cq_list(te[1], cq_drop)})") + ")"
    return f"(OTl {cq_list(o, cq_track)})"


def cq_file(f: list) -> str:
    def attr(a):
        v = a[1]
        if "str" in v:
            return f"({cq_str(a[0])}, AStr {cq_str(v['str'])})"
        return f"({cq_str(a[0])}, ATime {cq_time(v)})"

    def field(x):
        n, bits, is_arr = x
        return f"({cq_str(n)}, " + (f"FA {cq_zs(bits)}" if is_arr else f"FS {int(bits[0])}") + ")"

    def ds(e):
        key, attrs, body = e
        b = "BScalar" if body is None else "(BRows " + cq_list(body, lambda r: cq_list(r, field)) + ")"
        return f"({cq_str(key)}, DS {cq_list(attrs, attr)} {b})"

    return cq_list(f, ds)


def cq_err(kind: str) -> str:
    return {"TypeError": "EType", "ValueError": "EValue"}.get(kind, "EOther")


def count_drops(kind: str, o) -> int:
    if kind in ("emulsion", "track"):
        return len(o)
    if kind == "etc":
        return sum(len(te[1]) for te in o)
    return sum(len(tr) for tr in o)


HEADER = """From Coq Require Import ZArith List Bool String.
From PD Require Import Model.Codec Gen.Gen_codec Proofs.C08.
Import ListNotations.
Local Open Scope string_scope.
Local Open Scope Z_scope.
Inductive obj := OEm (l : emulsion) | OTr (l : track) | OEtc (x : etc) | OTl (x : tracklist).
Definition length {A} := @Datatypes.length A.   (* String.length would shadow it *)
Definition D c p r w a : drop := {| cls := c; dpos := p; radius := r; width := w; ampl := a |}.
Definition DS a b : dataset := {| ds_attrs := a; ds_body := b |}.
Definition obj_eqb (a b : obj) : bool :=
  match a, b with
  | OEm x, OEm y => emulsion_eqb x y
  | OTr x, OTr y => track_eqb x y
  | OEtc x, OEtc y => etc_eqb x y
  | OTl x, OTl y => tracklist_eqb x y
  | _, _ => false
  end.
Definition rmap {A B} (f : A -> B) (r : result A) : result B := match r with Ok a => Ok (f a) | Err e => Err e end.
Definition enc_obj (o : obj) : result file :=
  match o with
  | OEm l => enc_emulsion_file repo_fmt l
  | OTr l => enc_track_file repo_fmt l
  | OEtc x => enc_etc repo_fmt x
  | OTl x => enc_tracklist repo_fmt x
  end.
Definition dec_as (o : obj) (f : file) : result obj :=
  match o with
  | OEm _ => rmap OEm (dec_emulsion_file repo_fmt f)
  | OTr _ => rmap OTr (dec_track_file repo_fmt f)
  | OEtc _ => rmap OEtc (dec_etc repo_fmt f)
  | OTl _ => rmap OTl (dec_tracklist repo_fmt f)
  end.
(* case = (object, what to_file did: the dumped file or the error, what from_file returned) *)
Definition agree (c : obj * result file * result obj) : bool :=
  let '(o, w, r) := c in
  result_eqb file_eqb (enc_obj o) w &&
  match w with Ok f => result_eqb obj_eqb (dec_as o f) r | Err _ => true end.
"""


# ---------------------------------------------------------------------------------------------
# running the implementation on one recipe
# ---------------------------------------------------------------------------------------------
def exc_kind(e: BaseException) -> str:
    if isinstance(e, TypeError):
        return "TypeError"
    if isinstance(e, ValueError):
        return "ValueError"
    return "Other:" + type(e).__name__


def reader_of(kind: str):
    from droplets.emulsions import Emulsion, EmulsionTimeCourse
    from droplets.droplet_tracks import DropletTrack, DropletTrackList
    if kind == "emulsion":
        return Emulsion.from_file
    if kind == "track":
        return DropletTrack.from_file
    if kind == "etc":
        return lambda p: EmulsionTimeCourse.from_file(p, progress=False)
    return lambda p: DropletTrackList.from_file(p, progress=False)


def droplets_of(obj, kind: str):
    if kind == "emulsion":
        return [list(obj)]
    if kind == "track":
        return [list(obj.droplets)]
    if kind == "etc":
        return [list(e) for e in obj.emulsions]
    return [list(tr.droplets) for tr in obj]


def times_of(obj, kind: str):
    if kind == "emulsion":
        return []
    if kind == "track":
        return [list(obj.times)]
    if kind == "etc":
        return [list(obj.times)]
    return [list(tr.times) for tr in obj]


def property_failures(obj, back, kind: str) -> list[str]:
    """The property text as a predicate on (object written, object read back)."""
    fails = []
    try:
        eq = bool(back == obj)
    except Exception as e:  # noqa
        eq = False
        fails.append(f"comparison with == raised {type(e).__name__}")
    if not eq:
        fails.append("read back object is not == to the one written")
    if type(back) is not type(obj):
        fails.append(f"type {type(back).__name__} != {type(obj).__name__}")
        return fails
    ga, gb = droplets_of(obj, kind), droplets_of(back, kind)
    if [len(g) for g in ga] != [len(g) for g in gb]:
        fails.append(f"member counts differ: {[len(g) for g in ga]} written, {[len(g) for g in gb]} read")
    else:
        for a_, b_ in zip(ga, gb):
            for x, y in zip(a_, b_):
                if type(x).__name__ != type(y).__name__:
                    fails.append(f"droplet class {type(x).__name__} read back as {type(y).__name__}")
                elif x.data.dtype != y.data.dtype:
                    fails.append(f"droplet layout {x.data.dtype} read back as {y.data.dtype}")
                elif arr_bits(x._data_array) != arr_bits(y._data_array):
                    fails.append("droplet parameters are not bit-identical")
    ta, tb = times_of(obj, kind), times_of(back, kind)
    if [len(t) for t in ta] != [len(t) for t in tb]:
        fails.append("numbers of times differ")
    else:
        for a_, b_ in zip(ta, tb):
            for x, y in zip(a_, b_):
                try:
                    same = bool(x == y)
                except Exception:  # noqa
                    same = False
                if not same:
                    fails.append(f"time {x!r} read back as {y!r}")
    return sorted(set(fails))


def run_one(rec: dict, workdir: Path) -> dict:
    """Build, write, dump, read back.  Returns everything the correspondence and the oracle need."""
    out: dict = {"recipe": rec}
    kind = rec["kind"]
    try:
        obj = build(rec)
    except Exception as e:  # noqa
        out["construct_error"] = exc_kind(e) + ": " + str(e)[:160]
        return out
    try:
        out["obj"] = dump_obj(obj, kind)
    except Undumpable as e:
        out["undumpable"] = f"object: {e}"
        return out
    path = workdir / "case.h5"
    if path.exists():
        path.unlink()
    try:
        obj.to_file(str(path))
        out["write"] = "ok"
    except Exception as e:  # noqa
        out["write"] = exc_kind(e)
        out["write_msg"] = str(e)[:160]
        return out
    try:
        out["file"] = dump_file(path)
    except Undumpable as e:
        out["undumpable"] = f"file: {e}"
    try:
        back = reader_of(kind)(str(path))
    except Exception as e:  # noqa
        out["read"] = exc_kind(e)
        out["read_msg"] = str(e)[:160]
        out["oracle"] = [f"file was written without error but from_file raises {type(e).__name__}: {str(e)[:120]}"]
        return out
    out["read"] = "ok"
    try:
        out["back"] = dump_obj(back, kind)
    except Undumpable as e:
        out["undumpable"] = f"object read back: {e}"
    out["oracle"] = property_failures(obj, back, kind)
    if rec.get("cross") and "undumpable" not in out:
        out["cross"] = cross_reads(path, [k for k in KINDS if k != kind])
    return out


KINDS = ["emulsion", "track", "etc", "tracklist"]


def cross_reads(path, kinds) -> list:
    """what the readers of the OTHER collection types make of this file (ties `dec` on files it did not write)"""
    res = []
    for k in kinds:
        try:
            o = reader_of(k)(str(path))
            res.append([k, "ok", dump_obj(o, k)])
        except Undumpable:
            continue
        except Exception as e:  # noqa
            res.append([k, exc_kind(e), None])
    return res


def crafted_cases(workdir: Path) -> list:
    """hand-made files: class names / markers / layouts that to_file never produces"""
    import h5py
    from droplets.droplets import SphericalDroplet, DiffuseDroplet
    from droplets.emulsions import Emulsion
    from droplets.droplet_tracks import DropletTrack
    sph = Emulsion([SphericalDroplet([1.0, 2.0], 3.0)]).data
    dif = Emulsion([DiffuseDroplet([1.0, 2.0], 3.0, 0.5), DiffuseDroplet([0.0, 1.0], 2.0)]).data
    trk = DropletTrack([SphericalDroplet([1.0], 3.0), SphericalDroplet([2.0], 1.0)], [0.5, 2]).data
    specs = [
        (None, "SphericalDroplet"), (sph, "Nope"), (sph, None), (dif, "SphericalDroplet"), (sph, "DiffuseDroplet"),
        (sph, "PerturbedDroplet2D"), (dif, "PerturbedDroplet3D"), (trk, "SphericalDroplet"), (trk, "DiffuseDroplet"),
        (sph, "None"), (trk, "None"), (dif, "DiffuseDroplet"),
    ]
    # rows that no constructor would accept (or only just): the checks of `construct` in the model
    def rows(dim, width, amps, *recs):
        dt = [("position", "<f8", (dim,)), ("radius", "<f8")]
        dt += [("interface_width", "<f8")] if width else []
        dt += [("amplitudes", "<f8", (amps,))] if amps else []
        return np.array(list(recs), dtype=dt)
    nxt = float(np.nextafter(1e-8, 1.0))
    nnan = b2f(0xFFF8000000000000)
    specs += [
        (rows(1, False, 0, ([1.0], -1.0)), "SphericalDroplet"),
        (rows(1, False, 0, ([1.0], 2.0), ([1.0], -np.inf)), "SphericalDroplet"),
        (rows(1, False, 0, ([1.0], -0.0), ([np.nan], nnan)), "SphericalDroplet"),
        (rows(2, True, 0, ([1.0, 2.0], 1.0, -0.5)), "DiffuseDroplet"),
        (rows(2, True, 0, ([1.0, 2.0], np.nan, -0.0), ([1.0, 2.0], 1.0, nnan)), "DiffuseDroplet"),
        (rows(3, True, 2, ([1e-8, -1e-8, 5.0], 1.0, 0.1, [0.1, 0.2])), "PerturbedDroplet3DAxisSym"),
        (rows(3, True, 2, ([nxt, 0.0, 5.0], 1.0, 0.1, [0.1, 0.2])), "PerturbedDroplet3DAxisSym"),
        (rows(3, True, 2, ([0.0, -1e-7, 5.0], 1.0, 0.1, [0.1, 0.2])), "PerturbedDroplet3DAxisSym"),
        (rows(3, True, 2, ([0.0, np.nan, 5.0], 1.0, 0.1, [0.1, 0.2])), "PerturbedDroplet3DAxisSym"),
        (rows(3, True, 2, ([1.0, 2.0, 5.0], 1.0, 0.1, [0.1, 0.2])), "PerturbedDroplet3D"),
        (rows(3, True, 1, ([1.0, 2.0, 5.0], 1.0, 0.1, [0.1])), "PerturbedDroplet2D"),
        (rows(2, True, 1, ([1.0, 2.0], 1.0, 0.1, [0.1])), "PerturbedDroplet3D"),
        (rows(2, True, 1, ([1.0, 2.0], 1.0, 0.1, [0.1])), "PerturbedDroplet2D"),
        (rows(2, True, 1, ([1.0, 2.0], 1.0, 0.1, [0.1])), "DiffuseDroplet"),
    ]
    out = []
    path = workdir / "crafted.h5"
    for data, cname in specs:
        if path.exists():
            path.unlink()
        with h5py.File(path, "w") as fp:
            ds = fp.create_dataset("x", shape=()) if data is None else fp.create_dataset("x", data=data)
            if cname is not None:
                ds.attrs["droplet_class"] = cname
        f = dump_file(path)
        for k, status, o in cross_reads(path, KINDS):
            out.append((k, f, status, o))
    path.unlink()
    return out


HEADER2 = HEADER + """
Definition dec_by (k : Z) (f : file) : result obj :=
  if k =? 0 then rmap OEm (dec_emulsion_file repo_fmt f)
  else if k =? 1 then rmap OTr (dec_track_file repo_fmt f)
  else if k =? 2 then rmap OEtc (dec_etc repo_fmt f)
  else rmap OTl (dec_tracklist repo_fmt f).
(* case = (reader, dumped file, what that reader returned) *)
Definition agree2 (c : Z * file * result obj) : bool :=
  let '(k, f, r) := c in result_eqb obj_eqb (dec_by k f) r.
"""


def track_with_mixed_dims(rec: dict) -> bool:
    tracks = [rec["members"]] if rec["kind"] == "track" else \
        [t["members"] for t in rec["tracks"]] if rec["kind"] == "tracklist" else []
    return any(len({len(m["pos"]) for m in ms}) > 1 for ms in tracks)


def long_collection_failures(width: int, kind: str, workdir: Path) -> list[dict]:
    """10^width + 1 frames / tracks (only called when something is broken and the width is small)."""
    from droplets.emulsions import Emulsion, EmulsionTimeCourse
    from droplets.droplet_tracks import DropletTrack, DropletTrackList
    from droplets.droplets import SphericalDroplet
    n = 10 ** width + 1
    path = workdir / "long.h5"
    if path.exists():
        path.unlink()
    if kind == "etc":
        obj = EmulsionTimeCourse([Emulsion() for _ in range(n)], times=list(range(n)))
        obj.to_file(str(path))
        back = EmulsionTimeCourse.from_file(str(path), progress=False)
    else:
        obj = DropletTrackList([DropletTrack([SphericalDroplet([0.0], 1.0)], [i]) for i in range(n)])
        obj.to_file(str(path))
        back = DropletTrackList.from_file(str(path), progress=False)
    path.unlink()
    f = property_failures(obj, back, kind)
    if f:
        return [{"what": f"{kind} with {n} members does not read back equal: " + "; ".join(f[:3]),
                 "input": {"kind": kind, "members": n, "times": "0..n-1", "content": "empty frames" if kind == "etc"
                           else "one SphericalDroplet([0.0], 1.0) per track"}, "found": True}]
    return []


# ---------------------------------------------------------------------------------------------
# check / replay
# ---------------------------------------------------------------------------------------------
def _quiet():
    logging.disable(logging.CRITICAL)
    warnings.simplefilter("ignore")


def corpus() -> list[dict]:
    """fixed cases that run before the generated stream (past findings and the examples of the proofs)"""
    one = f2b(1.0)
    p2 = lambda amps: {"cls": "PerturbedDroplet2D", "pos": [f2b(1.0), f2b(2.0)], "radius": f2b(3.0),  # noqa: E731
                       "width": f2b(0.5), "ampl": [f2b(a) for a in amps]}
    p3 = {"cls": "PerturbedDroplet3D", "pos": [0, 0, one], "radius": one, "width": None, "ampl": [f2b(.1)] * 3}
    ax = {"cls": "PerturbedDroplet3DAxisSym", "pos": [0, 0, one], "radius": one, "width": None, "ampl": [f2b(.1)] * 3}
    sp = {"cls": "SphericalDroplet", "pos": [one], "radius": one}
    return [
        # F9 (fixed): P3D + AxisSym in one track
        {"kind": "track", "members": [p3, ax], "times": [{"int": 0}, {"int": 1}], "flavour": "mixed_class", "in_domain": True},
        # F26 (fixed by f3c9dfd): one amplitude after two -- to_file must raise TypeError now
        {"kind": "track", "members": [p2([.1, .3]), p2([.2])], "times": [{"int": 0}, {"int": 1}], "flavour": "bcast",
         "in_domain": True},
        {"kind": "track", "members": [p2([.2]), p2([.1, .3])], "times": [{"int": 0}, {"int": 1}], "flavour": "mixed_layout",
         "in_domain": True},
        # integer time beyond 2^53 (outside the domain: correspondence only)
        {"kind": "track", "members": [sp], "times": [{"int": 2 ** 53 + 1}], "flavour": "uniform", "in_domain": False},
        # the non-vacuity example of Properties/C08.v
        {"kind": "etc", "frames": [[{"cls": "SphericalDroplet", "pos": [one, f2b(2.0)], "radius": f2b(3.0)},
                                    {"cls": "SphericalDroplet", "pos": [f2b(2.0), one], "radius": f2b(.5)}], [],
                                   [{"cls": "PerturbedDroplet3DAxisSym", "pos": [0, 0, one], "radius": f2b(2.0),
                                     "width": None, "ampl": [f2b(.1), f2b(.2), f2b(.3)]}],
                                   [{"cls": "DiffuseDroplet", "pos": [one], "radius": one, "width": f2b(.5)}]],
         "times": [{"int": 0}, {"float": f2b(-2.5)}, {"int": 7}, {"float": f2b(.5)}], "flavour": "uniform",
         "in_domain": True},
        {"kind": "etc", "frames": [[sp], [sp, sp]], "times": [{"int": 3}, {"int": 1}], "flavour": "uniform",
         "in_domain": True, "append_style": True},
        # a NaN radius kept in a time course by append(copy=False) (outside the domain: correspondence only)
        {"kind": "etc", "frames": [[{"cls": "SphericalDroplet", "pos": [one, f2b(2.0)], "radius": QNAN},
                                    {"cls": "SphericalDroplet", "pos": [one, f2b(2.0)], "radius": f2b(3.0)}]],
         "times": [{"int": 0}], "flavour": "uniform", "in_domain": False, "append_style": True, "nocopy": True},
        {"kind": "emulsion", "members": [], "flavour": "empty", "in_domain": True},
        {"kind": "tracklist", "tracks": [{"members": [], "times": []}, {"members": [sp], "times": [{"float": f2b(.25)}]}],
         "flavour": "uniform", "in_domain": True},
    ]


DEPS = ["Proofs/C08.vo"]


def prove_with_fallback(ctx: vlib.Ctx):
    """Prove over the facts generated from the current source; if the translator fails closed or a proof over
    the fresh text fails, prove over the golden facts instead (DESIGN.md 2.2: the tie is then the correspondence
    run alone).  Returns (ok, fell_back, pending) with pending = what broke on the fresh text."""
    import gen_codec
    ob0, nb0 = ctx.obligations, len(ctx.broken)
    if vlib.prove(ctx, DEPS, gens=["Gen_codec"]):
        return True, False, []
    pending = ctx.broken[nb0:]
    if any("forbidden construct" in b or "allow-list" in b for b in pending):
        return False, False, []
    del ctx.broken[nb0:]
    ctx.obligations = ob0
    with vlib.BuildLock():
        (vlib.COQ_BUILD / "Gen").mkdir(parents=True, exist_ok=True)
        (vlib.COQ_BUILD / "Gen" / "Gen_codec.v").write_text(gen_codec.golden())
    if not vlib.prove(ctx, DEPS, gens=[]):
        ctx.broken[nb0:nb0] = pending
        return False, False, []
    return True, True, pending


def check(ctx: vlib.Ctx) -> int:
    _quiet()
    rng = random.Random(ctx.seed)
    ok, fell_back, pending = prove_with_fallback(ctx)
    if fell_back:
        ctx.notes.append("theorems checked over the golden format facts because the text generated from the current "
                         "source did not go through: " + "; ".join(pending)[:600])
        ctx.tie.append("correspondence (translator fell back to the golden facts): real HDF5 files vs enc/dec "
                       "evaluated in Coq")
    else:
        ctx.tie.append("translator (Gen_codec regenerated from /repo: key formats, attribute names, markers, "
                       "sorted(), time column) + correspondence (real HDF5 files vs enc/dec evaluated in Coq)")
    known = vlib.load_known()
    known_ids = {e.get("id") for e in known if e.get("id") == "F12"}

    workdir = ctx.casedir / "h5tmp"
    if workdir.exists():
        shutil.rmtree(workdir)
    workdir.mkdir(parents=True, exist_ok=True)
    try:
        n_cases = ctx.scale(480, 6000)
        recipes = corpus() + [gen_recipe(rng, i) for i in range(n_cases)]
        for j, r in enumerate(recipes):
            r["cross"] = j < ctx.scale(160, 1200)       # also read these files with the other three readers
        results = [run_one(r, workdir) for r in recipes]

        # ---- correspondence literals
        lits, lit_index = [], []
        for i, res in enumerate(results):
            rec = res["recipe"]
            ctx.count("kind", rec["kind"])
            ctx.count("flavour", rec["flavour"])
            ctx.count("in_domain", rec["in_domain"])
            if "construct_error" in res:
                ctx.count("outcome", "constructor raises " + res["construct_error"].split(":")[0])
                ctx.case(["construct", rec], nontrivial=False)
                # only mixed dimensions inside a track may fail to build (DropletTrack.append checks them)
                if not (track_with_mixed_dims(rec) and res["construct_error"].startswith("ValueError")):
                    ctx.violations.append({"what": "an object the property quantifies over cannot be built: "
                                           + res["construct_error"], "input": rec, "found": True})
                continue
            if "undumpable" in res:
                ctx.broken.append(f"case {i}: cannot be expressed in the model ({res['undumpable']})")
                ctx.count("outcome", "undumpable")
                continue
            obj = res["obj"]
            nd = count_drops(rec["kind"], obj)
            ctx.case([rec["kind"], obj], nontrivial=nd > 0)
            ctx.count("droplets", min(nd, 8))
            if res["write"] != "ok":
                ctx.count("outcome", "to_file raises " + res["write"].split(":")[0])
                w = f"(@Err file {cq_err(res['write'])})"
                r = "(@Err obj EOther)"
            else:
                w = f"(Ok {cq_file(res['file'])})"
                if res["read"] == "ok":
                    ctx.count("outcome", "written and read" + ("" if not res["oracle"] else " (differs)"))
                    r = f"(Ok {cq_obj(rec['kind'], res['back'])})"
                else:
                    ctx.count("outcome", "from_file raises " + res["read"].split(":")[0])
                    r = f"(@Err obj {cq_err(res['read'])})"
            lits.append(f"({cq_obj(rec['kind'], obj)}, {w}, {r})")
            lit_index.append(i)
            if rec["flavour"] not in ("uniform", "empty") or nd >= 3:
                ctx.sample({"recipe_kind": rec["kind"], "flavour": rec["flavour"], "to_file": res["write"],
                            "from_file": res.get("read"), "object": obj if nd <= 2 else f"{nd} droplets"}, limit=8)
        bad_cases: list[int] = []
        if ok and lits:
            bad = vlib.run_cases(ctx, "codec", HEADER, lits, "agree", shard=250)
            bad_cases = [lit_index[b] for b in bad]
            if bad:
                ex = results[bad_cases[0]]
                ctx.broken.append(f"correspondence codec: model and implementation differ on {len(bad)} case(s), e.g. "
                                  f"{ex['recipe']['kind']}/{ex['recipe']['flavour']} to_file={ex.get('write')} "
                                  f"from_file={ex.get('read')}")
                ctx.extra["disagreeing_recipes"] = [results[b]["recipe"] for b in bad_cases[:3]]

        # ---- readers applied to files they did not write, and to hand-made files
        if ok:
            lits2 = []
            for res in results:
                for k, status, o in res.get("cross", []):
                    r = f"(Ok {cq_obj(k, o)})" if status == "ok" else f"(@Err obj {cq_err(status)})"
                    lits2.append(f"({KINDS.index(k)}, {cq_file(res['file'])}, {r})")
                    ctx.count("cross_read", f"{k} reader on {res['recipe']['kind']} file: "
                              + ("ok" if status == "ok" else status.split(":")[0]))
            for k, f, status, o in crafted_cases(workdir):
                r = f"(Ok {cq_obj(k, o)})" if status == "ok" else f"(@Err obj {cq_err(status)})"
                lits2.append(f"({KINDS.index(k)}, {cq_file(f)}, {r})")
                ctx.count("cross_read", f"{k} reader on crafted file: " + ("ok" if status == "ok" else status.split(":")[0]))
            ctx.evaluations += len(lits2)
            bad2 = vlib.run_cases(ctx, "readers", HEADER2, lits2, "agree2", shard=250)
            if bad2:
                ctx.broken.append(f"correspondence readers: model dec and from_file differ on {len(bad2)} of {len(lits2)} "
                                  f"(reader, file) pairs, first: {lits2[bad2[0]][:300]}")

        # ---- property oracle on every generated object of the domain
        for i, res in enumerate(results):
            rec = res["recipe"]
            if not rec["in_domain"] or not res.get("oracle"):
                continue
            ctx.violations.append({"what": "; ".join(res["oracle"][:4]), "input": rec, "found": True,
                                   "to_file": res.get("write"), "from_file": res.get("read"),
                                   "model_agrees": i not in bad_cases})
        if len(ctx.violations) > 2:      # one replay file per distinct symptom is enough
            seen, keep = set(), []
            for v in ctx.violations:
                key = (v["input"].get("kind"), v["what"][:60])
                if key not in seen:
                    seen.add(key)
                    keep.append(v)
            ctx.extra["violations_total"] = len(ctx.violations)
            ctx.violations[:] = keep[:6]

        # ---- search when an obligation or the correspondence broke and nothing failed so far
        if (ctx.broken or not ok) and not ctx.violations:
            try:
                import gen_codec
                facts = gen_codec.facts()
            except Exception:  # noqa
                facts = {}
            for kind, key in (("etc", "etc_width"), ("tracklist", "tl_width")):
                w = facts.get(key)
                if isinstance(w, int) and w != 6 and 10 ** w + 1 <= 20001:
                    for v in long_collection_failures(w, kind, workdir):
                        ctx.violations.append({**v, "broken": (pending + ctx.broken)[:3]})
            if not ctx.violations:
                extra = [gen_recipe(rng, i) for i in range(ctx.scale(1500, 6000))]
                for rec in extra:
                    res = run_one(rec, workdir)
                    if rec["in_domain"] and res.get("oracle"):
                        ctx.violations.append({"what": "; ".join(res["oracle"][:4]), "input": rec, "found": True,
                                               "broken": (pending + ctx.broken)[:3]})
                        break
        if not ok and not ctx.broken:
            ctx.broken.append("proof obligations of Properties/C08.v do not check")
        if fell_back and (ctx.broken or ctx.violations):
            # the golden model does not describe the current code either: report what broke first
            ctx.broken[0:0] = pending

        # ---- known findings (reported only when listed)
        if ok and not fell_back and "F12" in known_ids:
            ctx.known_printed.append(F12_TEXT)     # established for the current key format by C08_pad6_unsorted_refuted
    finally:
        shutil.rmtree(workdir, ignore_errors=True)
    return vlib.finish(ctx, "", TRUSTED, ASSUME, RULE)


def replay(path: str) -> int:
    _quiet()
    blob = json.load(open(path))
    rec = blob.get("input")
    print(json.dumps({k: blob[k] for k in blob if k != "input"}, indent=1)[:1500])
    if not isinstance(rec, dict) or rec.get("kind") not in ("emulsion", "track", "etc", "tracklist") \
            or ("members" in rec and isinstance(rec["members"], int)):
        print("replay file carries no object recipe (see 'what')")
        return 1
    workdir = vlib.BUILD / "cases" / "C08" / "replaytmp"
    workdir.mkdir(parents=True, exist_ok=True)
    try:
        res = run_one(rec, workdir)
    finally:
        shutil.rmtree(workdir, ignore_errors=True)
    print("recipe:", json.dumps(rec)[:1200])
    for k in ("construct_error", "write", "write_msg", "read", "read_msg", "oracle"):
        if k in res:
            print(f"  {k}: {res[k]}")
    if "obj" in res:
        print("  model input :", cq_obj(rec["kind"], res["obj"])[:600])
    if "back" in res:
        print("  read back   :", cq_obj(rec["kind"], res["back"])[:600])
    failing = bool(res.get("oracle")) or ("construct_error" in res)
    print("property violated on the current tree:", failing)
    return 1 if failing else 0
