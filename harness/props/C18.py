"""C18 -- detection depends on the image only through the documented threshold."""
from __future__ import annotations

import json
import math
import random

import numpy as np

import vlib

TRUSTED = [
    "Coq 8.16.1 kernel + vm_compute",
    "harness/gen_analysis.py (fail-closed translator of the threshold dispatch, mask comparison, size filter of locate_droplets)",
    "correspondence harness: the mask handed to locate_droplets_in_mask is recorded by wrapping that function as seen from droplets.image_analysis",
    "numpy min/max/mean/histogram on coarse-dyadic data (exact, compared per sample with the Q model)",
]
ASSUME = [
    "fields are finite; intensities are coarse dyadic rationals so that no cell sits on a rounding knife-edge (as the property states)",
    "Otsu: the float argmax may resolve exact ties differently from exact arithmetic; the implementation's threshold is accepted when it is a bin centre whose exact between-class variance is within 1e-9 of the maximum",
]
RULE = ("fields: rendered emulsions + dyadic noise on Cartesian grids d=1..3 (3..10 cells per axis, every periodicity mask; unit box at the "
        "origin, shifted, entirely negative, anisotropic spacing), polar / spherical grids (inner radius 0 or > 0), cylinders (incl. narrow, "
        "shifted, dz != dr); values multiples of 2^-10, every third field shifted so that 0 is an image value inside the range; image data "
        "float64 / float32 / int64 (16 grey levels) / narrow integer types whose extreme values add up beyond the range of the type "
        "(uint8 10..250, int8 60..127 or -128..-60, int16 5000..32000 or -32768..-5000) / bool -- for integer and bool images the result "
        "of every rule must also equal that of the same values as float64 (defect F36); rules extrema/auto/mean/otsu + three numeric thresholds per field (an image value or a "
        "dyadic number; exactly zero as int 0 / 0.0 / -0.0 / np.float64 / np.float32 / 0-d array; the image minimum, maximum, a value between "
        "two adjacent image values, an image value as numpy scalar); minimal radii: a radius present, its float neighbours, 0, 0.5, -1, "
        "-inf, +inf; affine maps (exactly representable on the image, checked): a=2^k with small dyadic b, b = -a*threshold (mapped threshold "
        "exactly 0), low contrast (a = 2^0 .. 2^-10 with offset up to 2^20 a), tiny scale (a = 2^-30 .. 2^-10) -- the mapped image must give "
        "the same droplets and satisfy the property on its own, for every rule; multi-level images (3-4 grey levels, skewed populations) "
        "always get a low-contrast / tiny-scale map; 'otsu' is judged exactly (rationals) in Python as well as inside Coq; "
        "non-trivial = mask neither empty nor full; distinct by (field, rule, minimal radius)")


def make_grid(gs: dict):
    from pde import CartesianGrid, PolarSymGrid, SphericalSymGrid, CylindricalSymGrid
    fam = gs["family"]
    if fam == "cart":
        return CartesianGrid([tuple(b) for b in gs["bounds"]], list(gs["shape"]), periodic=list(gs["periodic"]))
    if fam == "polar":
        return PolarSymGrid(tuple(gs["radius"]), gs["shape"])
    if fam == "spherical":
        return SphericalSymGrid(tuple(gs["radius"]), gs["shape"])
    return CylindricalSymGrid(gs["radius"], tuple(gs["bounds_z"]), list(gs["shape"]), periodic_z=gs["periodic_z"])


def gen_grid_spec(rng: random.Random) -> dict:
    """JSON-able grid recipe; geometry: unit cells at the origin, shifted, entirely negative, anisotropic spacing"""
    fam = rng.choice(["cart", "cart", "cart", "polar", "spherical", "cyl"])
    geo = rng.choice(["origin", "origin", "shifted", "negative", "anisotropic"])
    if fam == "cart":
        dim = rng.choice([1, 2, 2, 3])
        shape = [rng.randrange(3, 11 if dim < 3 else 7) for _ in range(dim)]
        per = [rng.random() < 0.5 for _ in range(dim)]
        hs = [rng.choice([0.5, 1.0, 2.0]) if geo == "anisotropic" else 1.0 for _ in range(dim)]
        if geo in ("origin", "anisotropic"):
            los = [0.0] * dim
        elif geo == "shifted":
            los = [rng.choice([-2.5, 3.0, 100.0]) for _ in range(dim)]
        else:
            los = [-(n * h) - rng.choice([0.0, 5.0]) for n, h in zip(shape, hs)]
        return {"family": "cart", "geometry": geo, "bounds": [[lo, lo + n * h] for lo, n, h in zip(los, shape, hs)],
                "shape": shape, "periodic": per}
    if fam in ("polar", "spherical"):
        n = rng.randrange(3, 12)
        r0 = 0.0 if geo in ("origin", "negative") else rng.choice([0.5, 1.0])
        h = rng.choice([0.5, 2.0]) if geo == "anisotropic" else 1.0
        return {"family": fam, "geometry": "inner radius > 0" if r0 > 0 else ("origin" if h == 1.0 else "spacing != 1"),
                "radius": [r0, r0 + n * h], "shape": n}
    nr, nz = rng.randrange(2, 6), rng.randrange(3, 9)
    if geo == "shifted":   # narrow and finely sliced
        nr, nz = rng.choice([1, 2]), rng.randrange(6, 13)
    hz = rng.choice([0.5, 2.0]) if geo == "anisotropic" else 1.0
    z0 = {"origin": 0.0, "anisotropic": 0.0, "shifted": 3.0, "negative": -float(nz) - 2.0}[geo]
    return {"family": "cyl", "geometry": {"shifted": "narrow, shifted", "anisotropic": "dz != dr"}.get(geo, geo), "radius": float(nr),
            "bounds_z": [z0, z0 + nz * hz], "shape": [nr, nz], "periodic_z": rng.random() < 0.5}


IMAGES = ["float64", "float64", "float64", "float32", "int64", "uint8", "int8", "int16", "bool"]
NP_TYPES = {"float64": np.float64, "float32": np.float32, "int64": np.int64, "uint8": np.uint8, "int8": np.int8, "int16": np.int16,
            "bool": bool}
# narrow integer images: grey-level ranges [lo, hi] with lo + hi outside the range of the type (the sum formed in the image
# dtype wraps around: defect F36)
NARROW = {"uint8": [(10, 250)], "int8": [(60, 127), (-128, -60)], "int16": [(5000, 32000), (-32768, -5000)]}


def image_values(rng, data, image):
    """coarse dyadic float64 data -> the values of the image (float64 array, every value exactly representable in the image
    type): float types as they are, int64 16 grey levels per unit, narrow integers spread over a range from NARROW (a constant
    field takes the upper end), bool: cells above the mean"""
    if image in ("float64", "float32"):     # multiples of 2^-10 below 2^13 are exact in float32
        return data
    if image == "int64":
        return np.round(data * 16)
    if image == "bool":
        return (data > data.mean()).astype(np.float64) if data.min() != data.max() else np.full(data.shape, float(rng.random() < 0.5))
    lo, hi = rng.choice(NARROW[image])
    span = float(data.max() - data.min())
    if span == 0:
        return np.full(data.shape, float(hi))
    return np.round(lo + (data - data.min()) / span * (hi - lo))


def as_image(grid, values, image):
    """image values (float64 array) -> the ScalarField of the given image type"""
    from pde import ScalarField
    if image == "float64":
        return ScalarField(grid, values)
    dt = NP_TYPES[image]
    cast = values.astype(dt)
    if not np.array_equal(cast.astype(np.float64), values):
        raise RuntimeError(f"image values are not representable as {image}")
    return ScalarField(grid, cast, dtype=dt)


def make_field(rng: random.Random, kind=None):
    from droplets import DiffuseDroplet, Emulsion
    gs = gen_grid_spec(rng)
    grid = make_grid(gs)
    fam = gs["family"]
    shape = list(grid.shape)
    kind = kind or rng.choice(["drops", "drops", "noise", "mixed", "const", "levels"])
    data = np.zeros(shape)
    if kind in ("drops", "mixed"):
        if fam == "cart":
            hmin = min((b[1] - b[0]) / n for b, n in zip(gs["bounds"], shape))
            em = Emulsion([DiffuseDroplet([rng.uniform(b[0], b[1]) for b in gs["bounds"]], rng.uniform(0.6, 2.5) * hmin,
                                          rng.choice([0.0, 0.5, 1.0]) * hmin)
                           for _ in range(rng.randrange(1, 4))])
        elif fam == "cyl":
            z0, z1 = gs["bounds_z"]
            em = Emulsion([DiffuseDroplet([0, 0, rng.uniform(z0, z1)], rng.uniform(0.6, 2.5), rng.choice([0.0, 0.5, 1.0]))])
        else:
            r0, r1 = gs["radius"]
            em = Emulsion([DiffuseDroplet([0.0] * grid.dim, rng.uniform(r0 + 0.6, r1 - 0.5), rng.choice([0.0, 0.5, 1.0]))])
        data = em.get_phasefield(grid).data
    if kind in ("noise", "mixed"):
        nrng = np.random.default_rng(rng.randrange(1 << 30))
        data = data + nrng.uniform(-0.3, 0.3 if kind == "mixed" else 1.0, size=shape)
    if kind == "const":
        data = data + rng.randrange(-4, 5) / 4.0
    if kind == "levels":   # few grey levels with skewed populations: Otsu and the extrema midpoint / the mean split differently
        levels = sorted(rng.sample(range(0, 1025), rng.choice([3, 3, 4])))
        levels[0], levels[-1] = 0, 1024
        p = np.array([0.61, 0.33, 0.06, 0.05][:len(levels)])
        nrng = np.random.default_rng(rng.randrange(1 << 30))
        data = np.array(levels, dtype=float)[nrng.choice(len(levels), size=shape, p=p / p.sum())] / 1024.0
    data = np.round(data * 1024) / 1024.0  # coarse dyadic
    image = rng.choice(IMAGES)
    values = image_values(rng, data, image)
    shift = "none"
    if image in ("float64", "float32", "int64") and rng.random() < 0.34:
        # 0 becomes an image value inside the range (the extrema midpoint is then not 0 in general)
        vals = np.unique(values)
        values = values - float(vals[rng.randrange(len(vals))])
        shift = "an image value moved to 0"
    gs["image"], gs["zero_shift"] = image, shift
    return as_image(grid, values, image), kind + ":" + fam, gs


class MaskRecorder:
    def __enter__(self):
        import droplets.image_analysis as ia
        self.ia, self.orig, self.log = ia, ia.locate_droplets_in_mask, []

        def wrapped(mask):
            out = self.orig(mask)
            self.log.append((np.array(mask.data, copy=True), [(list(map(float, d.position)), float(d.radius)) for d in out]))
            return out
        ia.locate_droplets_in_mask = wrapped
        return self

    def __exit__(self, *a):
        self.ia.locate_droplets_in_mask = self.orig


def ref_threshold(data, rule):
    """The documented threshold, computed independently of locate_droplets."""
    if not isinstance(rule, str):
        return float(rule)
    if rule in ("extrema", "auto"):
        return (float(data.min()) + float(data.max())) / 2
    if rule == "mean":
        return float(np.mean(data, dtype=np.float64))
    if rule == "otsu":
        flat = np.asarray(data, dtype=np.float64).ravel()
        mn, mx = float(flat.min()), float(flat.max())
        if mn == mx:
            mn, mx = mn - 0.5, mx + 0.5
        edges = np.linspace(mn, mx, 257)
        cnt, _ = np.histogram(flat, bins=256, range=(mn, mx))
        cen = (edges[1:] + edges[:-1]) / 2
        best, bv = 0, -1.0
        if flat.min() == flat.max():
            return float(cen[0])
        for k in range(255):
            w1, w2 = cnt[:k + 1].sum(), cnt[k + 1:].sum()
            if w1 == 0 or w2 == 0:
                continue
            m1, m2 = (cnt[:k + 1] * cen[:k + 1]).sum() / w1, (cnt[k + 1:] * cen[k + 1:]).sum() / w2
            v = w1 * w2 * (m1 - m2) ** 2
            if v > bv * (1 + 1e-12):
                best, bv = k, v
        return float(cen[best])
    return float(rule)


def emul_key(em):
    return sorted((tuple(np.round(d.position, 12)), round(d.radius, 12), type(d).__name__) for d in em)


def otsu_acceptable(data, t) -> bool:
    """The property text for 'otsu' evaluated exactly (rationals), mirroring Model/Threshold.v otsu_accepts: t is (up to 1e-12
    relative) a centre of the 256-bin histogram over [min, max] (a constant image: [v - 1/2, v + 1/2], first centre) whose exact
    between-class variance is within 1e-9 relative of the maximum over the 255 splits."""
    from fractions import Fraction as Fr
    if not math.isfinite(t):
        return False
    t = Fr(float(t))
    vals = [Fr(float(v)) for v in np.asarray(data).ravel()]
    mn, mx = min(vals), max(vals)
    const = mn == mx
    lo, hi = (mn - Fr(1, 2), mx + Fr(1, 2)) if const else (mn, mx)
    w = (hi - lo) / 256
    centre = lambda k: lo + (k + Fr(1, 2)) * w   # noqa: E731
    if const:
        return abs(t - centre(0)) <= Fr(1, 10 ** 12) * (abs(t) + 1)
    cnt = [0] * 256
    for v in vals:
        cnt[min(int((v - lo) / w), 255)] += 1
    n, tot = len(vals), sum(c * centre(k) for k, c in enumerate(cnt))
    var, w1, s1 = [], 0, Fr(0)
    for k in range(255):
        w1 += cnt[k]
        s1 += cnt[k] * centre(k)
        w2 = n - w1
        if w1 == 0 or w2 == 0:
            var.append(Fr(0))     # x / 0 = 0 in the model
        else:
            d = s1 / w1 - (tot - s1) / w2
            var.append(w1 * w2 * d * d)
    best = max(var)
    return any(abs(t - centre(k)) <= Fr(1, 10 ** 12) * (abs(t) + (hi - lo)) and (1 - Fr(1, 10 ** 9)) * best <= var[k]
               for k in range(255))


def oracle_one(field, rule, mn_r):
    """Property text over the implementation; returns a failure description or None."""
    from pde import ScalarField
    from droplets.image_analysis import locate_droplets, locate_droplets_in_mask
    em = locate_droplets(field, threshold=rule, minimal_radius=mn_r)
    tau = ref_threshold(field.data, rule)
    if isinstance(rule, str) and rule == "otsu":
        from droplets.image_analysis import threshold_otsu
        t_impl = threshold_otsu(field.data)
        # accept ties: any threshold giving the same class split is equivalent; compare masks below with t_impl
        flat = np.sort(np.unique(field.data))
        if not otsu_acceptable(field.data, t_impl):
            return (f"threshold_otsu returned {t_impl!r}, which is not a centre of the 256-bin histogram maximising the between-class "
                    f"variance (the maximiser is {tau!r})")
        tau = t_impl    # ties between bins are legitimate: the accepted threshold of the implementation defines the binary image
    ref = locate_droplets_in_mask(ScalarField(field.grid, field.data > tau, dtype=bool))
    cand = [d for d in ref]
    want = sorted((tuple(np.round(d.position, 12)), round(d.radius, 12)) for d in cand if d.radius > mn_r)
    got = sorted((tuple(np.round(d.position, 12)), round(d.radius, 12)) for d in em)
    if got != want:
        return f"droplets differ from those of the binary image exceeding threshold {tau}: got {got}, want {want}"
    for d in em:
        if not d.radius > mn_r:
            return f"returned droplet with radius {d.radius} <= minimal radius {mn_r}"
    return None


def oracle_float64(field, rule, mn_r):
    """integer / bool images: the result is that of the same values as float64 (every integer here is exact in float64)"""
    from pde import ScalarField
    from droplets.image_analysis import locate_droplets
    e1 = emul_key(locate_droplets(field, threshold=rule, minimal_radius=mn_r))
    e2 = emul_key(locate_droplets(ScalarField(field.grid, field.data.astype(np.float64)), threshold=rule, minimal_radius=mn_r))
    if e1 != e2:
        return f"{field.data.dtype} image: result {e1} differs from that of the same values as float64 {e2}"
    return None


def oracle_affine(field, rule, mn_r, a, b):
    from pde import ScalarField
    from droplets.image_analysis import locate_droplets
    f2 = ScalarField(field.grid, affine_data(field, a, b))
    r2 = rule if isinstance(rule, str) else a * float(rule) + b
    e1 = emul_key(locate_droplets(field, threshold=rule, minimal_radius=mn_r))
    e2 = emul_key(locate_droplets(f2, threshold=r2, minimal_radius=mn_r))
    if e1 != e2:
        return f"result changes under the affine map {a}*f+{b}: {e1} vs {e2}"
    return oracle_one(f2, r2, mn_r)     # the mapped image on its own: droplets of its binary image at its documented threshold


def affine_data(field, a, b):
    return a * np.asarray(field.data, dtype=np.float64) + b


def affine_exact(field, rule, a, b) -> bool:
    """the map is exactly representable on this image (and on the numeric threshold): no cell sits on a rounding knife-edge"""
    x = np.asarray(field.data, dtype=np.float64)
    ok = bool(np.all((affine_data(field, a, b) - b) / a == x))
    if not isinstance(rule, str):
        ok = ok and (a * float(rule) + b - b) / a == float(rule)
    return ok


def gen_affine(rng, named, value, low_contrast_only=False):
    """-> (a, b, kind); a a power of two, b a dyadic number"""
    kinds = ["low contrast: offset up to 2^20 x scale", "tiny scale 2^-30 .. 2^-10"]
    if not low_contrast_only:
        kinds += ["ordinary (a = 2^-3 .. 2^3, small dyadic b)"] * 2 + ([] if named else ["b = -a * threshold (mapped threshold exactly 0)"] * 2)
    kind = rng.choice(kinds)
    if kind.startswith("ordinary"):
        return 2.0 ** rng.randrange(-3, 4), rng.randrange(-16, 17) / 4.0, kind
    if kind.startswith("b = -a"):
        a = 2.0 ** rng.randrange(-3, 4)
        return a, -a * float(value), kind
    if kind.startswith("low"):
        a = 2.0 ** -rng.randrange(0, 11)
        return a, a * 2.0 ** rng.choice([10, 14, 17, 20]) * rng.choice([1, 1, 3, -1]), kind
    a = 2.0 ** -rng.randrange(10, 31)
    return a, a * rng.choice([0, 0, 1, -3, 1024]), kind


RULES = ["extrema", "auto", "mean", "otsu"]
ZEROS = {"int 0": lambda: 0, "float 0.0": lambda: 0.0, "float -0.0": lambda: -0.0, "np.float64(0)": lambda: np.float64(0),
         "np.float32(0)": lambda: np.float32(0), "0-d array 0.0": lambda: np.array(0.0)}


def numeric_rule(tag: str, value: float):
    """(type tag, exact value) -> the object handed to locate_droplets as threshold"""
    if tag in ZEROS:
        return ZEROS[tag]()
    if tag == "np.float64":
        return np.float64(value)
    if tag == "int":
        return int(value)
    return float(value)


def numeric_rules(rng, flat, image):
    """three numeric thresholds (tag, value, kind) for one field"""
    vals = sorted(set(flat))
    out = []
    if rng.random() < 0.5:
        out.append(("float", rng.choice(flat), "an image value"))
    else:
        out.append(("float", rng.randrange(-8, 24) / 16.0, "dyadic number"))
    out.append((rng.choice(sorted(ZEROS)), 0.0, "exactly zero"))
    k = rng.randrange(5)
    if k == 0:
        out.append(("float", vals[0], "image minimum"))
    elif k == 1:
        out.append(("float", vals[-1], "image maximum"))
    elif k == 2 and len(vals) > 1:
        i = rng.randrange(len(vals) - 1)
        out.append(("float", (vals[i] + vals[i + 1]) / 2, "between two adjacent image values"))
    elif k == 3 and image in ("int64", "uint8", "int8", "int16"):
        out.append(("int", rng.choice(flat), "an image value (Python int)"))
    else:
        out.append(("np.float64", rng.choice(flat), "an image value (numpy scalar)"))
    return out


def minimal_radius_choice(rng, radii):
    """-> (value, kind)"""
    opts = [(0.0, "0"), (0.5, "0.5"), (-1.0, "negative"), (-math.inf, "-inf"), (math.inf, "+inf")]
    if radii:
        r = rng.choice(radii)
        opts += [(r, "a radius present")] * 4 + [(float(np.nextafter(r, -np.inf)), "just below a radius present"),
                                                  (float(np.nextafter(r, np.inf)), "just above a radius present")]
    return rng.choice(opts)


def narrow_integer_corpus(ctx, fails):
    """fixed narrow-integer / bool images (the replay of defect F36 and its relatives): every rule must give the result of the same
    values as float64 and the droplets of the binary image exceeding the documented threshold"""
    from pde import CartesianGrid
    gs = {"family": "cart", "geometry": "origin", "bounds": [[0.0, 6.0]], "shape": [6], "periodic": [False], "zero_shift": "none"}
    grid = make_grid(gs)
    for image, lo, hi in (("uint8", 10, 250), ("int8", 100, 120), ("int8", -120, -100), ("uint8", 10, 100), ("int16", 100, 30000),
                          ("int16", 20000, 30000), ("bool", 0, 1), ("bool", 1, 1), ("uint8", 200, 200)):
        values = np.array([lo, hi, hi, lo, lo, lo], dtype=np.float64)
        field = as_image(grid, values, image)
        for rule in RULES + [float(lo), float(hi), (lo + hi) / 2]:
            named = isinstance(rule, str)
            ctx.case(["narrow-integer corpus", image, lo, hi, str(rule)], nontrivial=lo != hi)
            ctx.count("stream", "narrow-integer corpus")
            inp = {"data": [float(v) for v in values], "shape": [6], "grid_spec": {**gs, "image": image},
                   "rule": rule if named else repr(float(rule)), "rule_type": "rule" if named else "float", "minimal_radius": 0.0}
            try:
                f = oracle_float64(field, rule, 0.0) or oracle_one(field, rule, 0.0)
            except Exception as e:  # noqa
                f = f"locate_droplets raised {type(e).__name__}: {str(e)[:160]}"
            if f:
                fails.append({"what": f, "input": inp})


def check(ctx: vlib.Ctx) -> int:
    rng = random.Random(ctx.seed)
    ok, fresh = vlib.prove_with_fallback(ctx, ["Proofs/C18.vo", "Proofs/Otsu.vo", "Model/OverlapCases.vo"], gens=["Gen_analysis"])
    ctx.tie.append("correspondence of masks / thresholds / size filter inside Coq against the "
                   + ("regenerated" if fresh else "golden") + " Gen_analysis")
    from droplets.image_analysis import locate_droplets, threshold_otsu
    nfields = ctx.scale(120, 1200)
    mask_cases, otsu_cases, rs_cases, meta, fails = [], [], [], [], []
    mask_inputs, otsu_inputs = [], []   # the input of every case evaluated inside Coq: a disagreement there is reported with it
    rule_ctor = {"extrema": "ThrExtrema", "auto": "ThrAuto", "mean": "ThrMean", "otsu": "ThrOtsu"}
    for i in range(nfields):
        field, kind, gs = make_field(rng)
        flat = [float(v) for v in field.data.ravel()]
        rules = [(r, None, None, "rule") for r in RULES]
        rules += [(numeric_rule(tag, v), tag, v, what) for tag, v, what in numeric_rules(rng, flat, gs["image"])]
        for rule, tag, value, what in rules:
            named = isinstance(rule, str)
            rname = rule if named else f"{tag}:{value!r}"
            base_input = {"data": flat, "shape": list(field.grid.shape), "grid_spec": gs, "rule": rule if named else repr(float(value)),
                          "rule_type": "rule" if named else tag}
            try:
                with MaskRecorder() as rec:
                    em_all = locate_droplets(field, threshold=rule, minimal_radius=-np.inf)
                mask, cands = rec.log[0]
                radii = [r for _, r in cands]
                mn_r, mn_kind = minimal_radius_choice(rng, radii)
                em = locate_droplets(field, threshold=rule, minimal_radius=mn_r)
            except Exception as e:  # noqa -- a result of the wrong kind is a failure of the property on this input
                ctx.case([flat, rname, "raised", list(field.grid.shape)], nontrivial=True)
                ctx.count("outcome", "raises " + type(e).__name__)
                fails.append({"what": f"locate_droplets raised {type(e).__name__}: {str(e)[:160]}", "input": {**base_input, "minimal_radius": 0.0}})
                continue
            base_input["minimal_radius"] = mn_r if math.isfinite(mn_r) else repr(mn_r)
            nontriv = bool(mask.any() and not mask.all())
            ctx.case([flat, rname, mn_r if math.isfinite(mn_r) else repr(mn_r), list(field.grid.shape)], nontrivial=nontriv)
            ctx.count("rule", rule if named else "numeric")
            ctx.count("numeric_threshold", "-" if named else what)
            if not named and what == "exactly zero":
                ctx.count("zero_threshold_type", tag)
            ctx.count("field_kind", kind)
            ctx.count("grid_geometry", gs["family"] + ": " + gs["geometry"])
            ctx.count("image", gs["image"])
            ctx.count("stream", "random fields")
            if gs["image"] in NARROW or gs["image"] == "bool":
                lo_v, hi_v = min(flat), max(flat)
                if gs["image"] == "bool":
                    ctx.count("integer_extremes", "bool " + ("mixed" if lo_v != hi_v else ("all True" if hi_v else "all False")))
                else:
                    info = np.iinfo(NP_TYPES[gs["image"]])
                    ctx.count("integer_extremes", gs["image"] + (": min + max outside the range of the type"
                                                                 if not info.min <= lo_v + hi_v <= info.max else ": min + max representable"))
            ctx.count("zero_shift", gs["zero_shift"])
            ctx.count("minimal_radius", mn_kind)
            ctx.count("dim", field.grid.dim)
            ctx.count("mask", "empty" if not mask.any() else ("full" if mask.all() else "mixed"))
            if not named:
                lo, hi = min(flat), max(flat)
                ctx.count("numeric_threshold_position", "below the range" if value < lo else "above the range" if value > hi else
                          ("on the extrema midpoint" if value == (lo + hi) / 2 else "inside the range, off the extrema midpoint"))
            data_lit = vlib.listlit(flat[1:], vlib.qlit)
            mlit = vlib.listlit([bool(v) for v in mask.ravel()], vlib.blit)
            if named and rule == "otsu":
                t_impl = float(threshold_otsu(field.data))
                if math.isfinite(t_impl):
                    otsu_cases.append(f"({vlib.qlit(flat[0])}, {data_lit}, {vlib.qlit(t_impl)}, {mlit})")
                    otsu_inputs.append(dict(base_input))
                else:
                    fails.append({"what": f"threshold_otsu returned {t_impl!r}", "input": dict(base_input)})
            else:
                ctor = rule_ctor[rule] if named else f"(ThrNum {vlib.qlit(float(value))})"
                mask_cases.append(f"({ctor}, {vlib.qlit(flat[0])}, {data_lit}, {mlit})")
                meta.append((flat, rname, list(field.grid.shape)))
                mask_inputs.append(dict(base_input))
            # size filter: survivors among the candidates (identified by index through radius order)
            out_r = sorted(round(d.radius, 15) for d in em)
            keep = [k for k, r in enumerate(radii) if r > mn_r]
            if sorted(round(radii[k], 15) for k in keep) != out_r:
                fails.append({"what": "size filter: survivors are not the candidates above the minimal radius", "input": dict(base_input)})
            if math.isfinite(mn_r) and all(math.isfinite(r) for r in radii):   # +-inf is not a rational: Python oracle only
                rs_cases.append("{| rs_mn := %s; rs_rad := %s; rs_out := %s |}" % (
                    vlib.qlit(mn_r), vlib.listlit(radii, vlib.qlit), vlib.listlit(keep, lambda k: f"{k}%nat")))
            else:
                ctx.count("size_filter_cases_outside_Q", "Python oracle only")
            f = oracle_one(field, rule, mn_r)
            if f:
                fails.append({"what": f, "input": dict(base_input)})
            if gs["image"] not in ("float64", "float32"):
                f = oracle_float64(field, rule, mn_r)
                ctx.count("float64_equality_checks", gs["image"])
                if f:
                    fails.append({"what": f, "input": dict(base_input)})
            maps = []
            if i % 3 == 0:
                maps.append(gen_affine(rng, named, value))
            if i % 3 == 1 or kind.startswith("levels"):   # low-contrast / tiny-scale maps: every rule, multi-level images always
                maps.append(gen_affine(rng, named, value, low_contrast_only=True))
            for a, b, akind in maps:
                if not affine_exact(field, rule, a, b):
                    ctx.count("affine_checks", "skipped: map not exactly representable on this image")
                    continue
                try:
                    f = oracle_affine(field, rule, mn_r, a, b)
                except Exception as e:  # noqa
                    f = f"locate_droplets raised {type(e).__name__} on the image mapped by {a}*f+{b}: {str(e)[:120]}"
                ctx.count("affine_checks", akind)
                if f:
                    fails.append({"what": f, "input": {**base_input, "a": a, "b": b}})
    narrow_integer_corpus(ctx, fails)
    ctx.sample({"rule": str(meta[-1][1]), "shape": meta[-1][2], "field": meta[-1][0][:12]})
    header = ("From Coq Require Import QArith List Bool.\nImport ListNotations.\n"
              "From PD Require Import Model.Threshold Model.Pipeline Model.Overlap Model.OverlapCases Gen.Gen_analysis.\n"
              "Local Open Scope Q_scope.\n"
              "Fixpoint beq_list (a b : list bool) : bool := match a, b with [] , [] => true | x :: a', y :: b' => Bool.eqb x y && beq_list a' b' | _, _ => false end.\n"
              "Definition agree_mask (c : thr_rule * Q * list Q * list bool) : bool :=\n"
              "  let '(r, x, l, m) := c in beq_list (mask_eval r x l) m.\n"
              "Definition agree_otsu (c : Q * list Q * Q * list bool) : bool :=\n"
              "  let '(x, l, t, m) := c in otsu_accepts x l t && beq_list (map (fun v => mask_cell v t) (x :: l)) m.\n")
    if ok:
        bad = vlib.run_cases(ctx, "mask", header, mask_cases, "agree_mask", shard=150)
        for k in bad[:3]:
            ctx.broken.append(f"correspondence mask: model and implementation differ for rule {meta[k][1]} on field {meta[k][0][:8]}... shape {meta[k][2]}")
            fails.append({"what": f"the mask handed to locate_droplets_in_mask is not the set of cells exceeding the documented threshold "
                                  f"(rule {meta[k][1]}; evaluated inside Coq)", "input": mask_inputs[k]})
        bad = vlib.run_cases(ctx, "otsu", header, otsu_cases, "agree_otsu", shard=8)
        if bad:
            ctx.broken.append(f"correspondence otsu: {len(bad)} field(s) where threshold_otsu is not an (almost) maximising bin centre or the mask differs; first {bad[0]}")
            for k in bad[:3]:
                fails.append({"what": "threshold_otsu is not an (almost) maximising centre of the 256-bin histogram or the mask is not the set "
                                      "of cells exceeding it (evaluated inside Coq)", "input": otsu_inputs[k]})
        bad = vlib.run_cases(ctx, "filter", header, rs_cases, "rs_agree", shard=400)
        if bad:
            ctx.broken.append(f"correspondence size filter: {len(bad)} disagreeing case(s), first {bad[0]}")
    # up to three violations, of different kinds first (kind = the wording up to the first number / colon)
    def kind_of(f):
        import re
        return re.split(r"[0-9:\[(]", f["what"], maxsplit=1)[0][:60]
    by_kind = {}
    for f in fails:
        by_kind.setdefault(kind_of(f), []).append(f)
    chosen = [fs[0] for fs in by_kind.values()][:3]
    chosen += [f for f in fails if not any(f is c for c in chosen)][:3 - len(chosen)]
    for f in chosen:
        ctx.violations.append({**f, "found": True, "broken": ctx.broken[:3]})
    ctx.extra["failing_inputs_total"] = len(fails)
    ctx.extra["failing_inputs_by_kind"] = {k: len(v) for k, v in by_kind.items()}
    return vlib.finish(ctx, "", TRUSTED, ASSUME, RULE)


def _replay_field(inp):
    from pde import CartesianGrid, ScalarField
    shape = inp["shape"]
    data = np.array(inp["data"]).reshape(shape)
    if "grid_spec" in inp:
        gs = inp["grid_spec"]
        return as_image(make_grid(gs), np.asarray(data, dtype=np.float64), gs.get("image", "float64"))
    if "grid" in inp and not inp["grid"].startswith("CartesianGrid"):
        import pde
        grid = eval(inp["grid"], {k: getattr(pde, k) for k in ("PolarSymGrid", "SphericalSymGrid", "CylindricalSymGrid")})
    else:
        grid = CartesianGrid([(0.0, float(n)) for n in shape], shape, periodic=inp.get("periodic", False))
    return ScalarField(grid, data)


def replay(path: str) -> int:
    obj = json.load(open(path))
    inp = obj.get("input", {})
    print(json.dumps(obj, indent=1)[:1500])
    if "data" in inp:
        field = _replay_field(inp)
        rule = inp["rule"]
        if inp.get("rule_type", "rule" if rule in RULES else "float") != "rule":
            rule = numeric_rule(inp.get("rule_type", "float"), float(rule))
        mn_r = float(inp["minimal_radius"])
        try:
            f = oracle_one(field, rule, mn_r)
            if not f and inp.get("grid_spec", {}).get("image", "float64") not in ("float64", "float32"):
                f = oracle_float64(field, rule, mn_r)
            if not f and "a" in inp:
                f = oracle_affine(field, rule, mn_r, inp["a"], inp["b"])
        except Exception as e:  # noqa
            f = f"locate_droplets raised {type(e).__name__}: {e}"
        print("property oracle on the current tree:", f or "holds")
        return 1 if f else 0
    return 0
