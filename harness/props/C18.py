"""C18 -- detection depends on the image only through the documented threshold."""
from __future__ import annotations

import json
import math
import random

import numpy as np

import vlib

TRUSTED = [
    "Coq 8.16.1 kernel + vm_compute",
    "harness/gen_analysis.py (fail-closed translator of the threshold dispatch, mask comparison, size filter of locate_droplets)",
    "correspondence harness: the mask handed to locate_droplets_in_mask is recorded by wrapping that function as seen from droplets.image_analysis",
    "numpy min/max/mean/histogram on coarse-dyadic data (exact, compared per sample with the Q model)",
]
ASSUME = [
    "fields are finite; intensities are coarse dyadic rationals so that no cell sits on a rounding knife-edge (as the property states)",
    "Otsu: the float argmax may resolve exact ties differently from exact arithmetic; the implementation's threshold is accepted when it is a bin centre whose exact between-class variance is within 1e-9 of the maximum",
]
RULE = ("fields: rendered emulsions + dyadic noise on Cartesian grids d=1..3 (3..10 cells per axis, periodic or not), values multiples of 2^-10; "
        "rules extrema/auto/mean/otsu/numeric, minimal radii from the radii present; affine maps a=2^k, b dyadic; "
        "non-trivial = mask neither empty nor full; distinct by (field, rule, minimal radius)")


def make_field(rng: random.Random, kind=None):
    from pde import CartesianGrid, ScalarField, PolarSymGrid, SphericalSymGrid, CylindricalSymGrid
    from droplets import DiffuseDroplet, Emulsion
    fam = rng.choice(["cart", "cart", "cart", "polar", "spherical", "cyl"])
    if fam == "cart":
        dim = rng.choice([1, 2, 2, 3])
        shape = [rng.randrange(3, 11 if dim < 3 else 7) for _ in range(dim)]
        per = [rng.random() < 0.5 for _ in range(dim)]
        grid = CartesianGrid([(0.0, float(n)) for n in shape], shape, periodic=per)
    elif fam == "polar":
        n = rng.randrange(3, 12)
        grid = PolarSymGrid(float(n), n)
    elif fam == "spherical":
        n = rng.randrange(3, 12)
        grid = SphericalSymGrid(float(n), n)
    else:
        nr, nz = rng.randrange(2, 6), rng.randrange(3, 9)
        grid = CylindricalSymGrid(float(nr), (0.0, float(nz)), (nr, nz), periodic_z=rng.random() < 0.5)
    shape = list(grid.shape)
    kind = kind or rng.choice(["drops", "drops", "noise", "mixed", "const"])
    data = np.zeros(shape)
    if kind in ("drops", "mixed"):
        if fam == "cart":
            em = Emulsion([DiffuseDroplet([rng.uniform(0, n) for n in shape], rng.uniform(0.6, 2.5), rng.choice([0.0, 0.5, 1.0]))
                           for _ in range(rng.randrange(1, 4))])
        elif fam == "cyl":
            em = Emulsion([DiffuseDroplet([0, 0, rng.uniform(0, shape[1])], rng.uniform(0.6, 2.5), rng.choice([0.0, 0.5, 1.0]))])
        else:
            em = Emulsion([DiffuseDroplet([0.0] * grid.dim, rng.uniform(0.6, shape[0] - 0.5), rng.choice([0.0, 0.5, 1.0]))])
        data = em.get_phasefield(grid).data
    if kind in ("noise", "mixed"):
        nrng = np.random.default_rng(rng.randrange(1 << 30))
        data = data + nrng.uniform(-0.3, 0.3 if kind == "mixed" else 1.0, size=shape)
    if kind == "const":
        data = data + rng.randrange(-4, 5) / 4.0
    data = np.round(data * 1024) / 1024.0  # coarse dyadic
    return ScalarField(grid, data), kind + ":" + fam


class MaskRecorder:
    def __enter__(self):
        import droplets.image_analysis as ia
        self.ia, self.orig, self.log = ia, ia.locate_droplets_in_mask, []

        def wrapped(mask):
            out = self.orig(mask)
            self.log.append((np.array(mask.data, copy=True), [(list(map(float, d.position)), float(d.radius)) for d in out]))
            return out
        ia.locate_droplets_in_mask = wrapped
        return self

    def __exit__(self, *a):
        self.ia.locate_droplets_in_mask = self.orig


def ref_threshold(data, rule):
    """The documented threshold, computed independently of locate_droplets."""
    if rule in ("extrema", "auto"):
        return (float(data.min()) + float(data.max())) / 2
    if rule == "mean":
        return float(data.mean())
    if rule == "otsu":
        flat = data.ravel()
        mn, mx = float(flat.min()), float(flat.max())
        if mn == mx:
            mn, mx = mn - 0.5, mx + 0.5
        edges = np.linspace(mn, mx, 257)
        cnt, _ = np.histogram(flat, bins=256, range=(mn, mx))
        cen = (edges[1:] + edges[:-1]) / 2
        best, bv = 0, -1.0
        if flat.min() == flat.max():
            return float(cen[0])
        for k in range(255):
            w1, w2 = cnt[:k + 1].sum(), cnt[k + 1:].sum()
            if w1 == 0 or w2 == 0:
                continue
            m1, m2 = (cnt[:k + 1] * cen[:k + 1]).sum() / w1, (cnt[k + 1:] * cen[k + 1:]).sum() / w2
            v = w1 * w2 * (m1 - m2) ** 2
            if v > bv * (1 + 1e-12):
                best, bv = k, v
        return float(cen[best])
    return float(rule)


def emul_key(em):
    return sorted((tuple(np.round(d.position, 12)), round(d.radius, 12), type(d).__name__) for d in em)


def oracle_one(field, rule, mn_r):
    """Property text over the implementation; returns a failure description or None."""
    from pde import ScalarField
    from droplets.image_analysis import locate_droplets, locate_droplets_in_mask
    em = locate_droplets(field, threshold=rule, minimal_radius=mn_r)
    tau = ref_threshold(field.data, rule)
    if rule == "otsu":
        from droplets.image_analysis import threshold_otsu
        t_impl = threshold_otsu(field.data)
        # accept ties: any threshold giving the same class split is equivalent; compare masks below with t_impl
        flat = np.sort(np.unique(field.data))
        if not math.isclose(t_impl, tau, rel_tol=1e-9, abs_tol=1e-9):
            # tie between bins is legitimate only if both give the maximal variance (checked in Coq)
            tau = t_impl
    ref = locate_droplets_in_mask(ScalarField(field.grid, field.data > tau, dtype=bool))
    cand = [d for d in ref]
    want = sorted((tuple(np.round(d.position, 12)), round(d.radius, 12)) for d in cand if d.radius > mn_r)
    got = sorted((tuple(np.round(d.position, 12)), round(d.radius, 12)) for d in em)
    if got != want:
        return f"droplets differ from those of the binary image exceeding threshold {tau}: got {got}, want {want}"
    for d in em:
        if not d.radius > mn_r:
            return f"returned droplet with radius {d.radius} <= minimal radius {mn_r}"
    return None


def oracle_affine(field, rule, mn_r, a, b):
    from pde import ScalarField
    from droplets.image_analysis import locate_droplets
    f2 = ScalarField(field.grid, a * field.data + b)
    r2 = rule if isinstance(rule, str) else a * rule + b
    e1 = emul_key(locate_droplets(field, threshold=rule, minimal_radius=mn_r))
    e2 = emul_key(locate_droplets(f2, threshold=r2, minimal_radius=mn_r))
    if e1 != e2:
        return f"result changes under the affine map {a}*f+{b}: {e1} vs {e2}"
    return None


RULES = ["extrema", "auto", "mean", "otsu"]


def check(ctx: vlib.Ctx) -> int:
    rng = random.Random(ctx.seed)
    ok, fresh = vlib.prove_with_fallback(ctx, ["Proofs/C18.vo", "Proofs/Otsu.vo", "Model/OverlapCases.vo"], gens=["Gen_analysis"])
    ctx.tie.append("correspondence of masks / thresholds / size filter inside Coq against the "
                   + ("regenerated" if fresh else "golden") + " Gen_analysis")
    from droplets.image_analysis import locate_droplets, threshold_otsu
    nfields = ctx.scale(120, 1200)
    mask_cases, otsu_cases, rs_cases, meta, fails = [], [], [], [], []
    rule_ctor = {"extrema": "ThrExtrema", "auto": "ThrAuto", "mean": "ThrMean", "otsu": "ThrOtsu"}
    for i in range(nfields):
        field, kind = make_field(rng)
        flat = [float(v) for v in field.data.ravel()]
        rules = list(RULES) + [rng.choice(flat) if rng.random() < 0.5 else rng.randrange(-8, 24) / 16.0]
        for rule in rules:
            with MaskRecorder() as rec:
                em_all = locate_droplets(field, threshold=rule, minimal_radius=-np.inf)
            mask, cands = rec.log[0]
            radii = [r for _, r in cands]
            mn_r = rng.choice(radii + [0.0, 0.5]) if radii else 0.0
            em = locate_droplets(field, threshold=rule, minimal_radius=mn_r)
            nontriv = bool(mask.any() and not mask.all())
            ctx.case([flat, str(rule), mn_r, list(field.grid.shape)], nontrivial=nontriv)
            ctx.count("rule", rule if isinstance(rule, str) else "numeric")
            ctx.count("field_kind", kind)
            ctx.count("dim", field.grid.dim)
            ctx.count("mask", "empty" if not mask.any() else ("full" if mask.all() else "mixed"))
            data_lit = vlib.listlit(flat[1:], vlib.qlit)
            mlit = vlib.listlit([bool(v) for v in mask.ravel()], vlib.blit)
            if rule == "otsu":
                t_impl = float(threshold_otsu(field.data))
                otsu_cases.append(f"({vlib.qlit(flat[0])}, {data_lit}, {vlib.qlit(t_impl)}, {mlit})")
            else:
                ctor = rule_ctor[rule] if isinstance(rule, str) else f"(ThrNum {vlib.qlit(rule)})"
                mask_cases.append(f"({ctor}, {vlib.qlit(flat[0])}, {data_lit}, {mlit})")
                meta.append((flat, rule, list(field.grid.shape)))
            # size filter: survivors among the candidates (identified by index through radius order)
            out_r = sorted(round(d.radius, 15) for d in em)
            keep = [k for k, r in enumerate(radii) if r > mn_r]
            if sorted(round(radii[k], 15) for k in keep) != out_r:
                fails.append({"what": "size filter: survivors are not the candidates above the minimal radius",
                              "input": {"data": flat, "shape": list(field.grid.shape), "rule": str(rule), "minimal_radius": mn_r}})
            rs_cases.append("{| rs_mn := %s; rs_rad := %s; rs_out := %s |}" % (
                vlib.qlit(mn_r), vlib.listlit(radii, vlib.qlit), vlib.listlit(keep, lambda k: f"{k}%nat")))
            f = oracle_one(field, rule, mn_r)
            if f:
                fails.append({"what": f, "input": {"data": flat, "shape": list(field.grid.shape), "grid": repr(field.grid),
                                                   "periodic": list(map(bool, field.grid.periodic)), "rule": str(rule), "minimal_radius": mn_r}})
            if i % 3 == 0:
                a, b = 2.0 ** rng.randrange(-3, 4), rng.randrange(-16, 17) / 4.0
                f = oracle_affine(field, rule, mn_r, a, b)
                ctx.count("affine_checks", "done")
                if f:
                    fails.append({"what": f, "input": {"data": flat, "shape": list(field.grid.shape),
                                                       "periodic": list(map(bool, field.grid.periodic)), "rule": str(rule),
                                                       "minimal_radius": mn_r, "a": a, "b": b}})
    ctx.sample({"rule": str(meta[-1][1]), "shape": meta[-1][2], "field": meta[-1][0][:12]})
    header = ("From Coq Require Import QArith List Bool.\nImport ListNotations.\n"
              "From PD Require Import Model.Threshold Model.Pipeline Model.Overlap Model.OverlapCases Gen.Gen_analysis.\n"
              "Local Open Scope Q_scope.\n"
              "Fixpoint beq_list (a b : list bool) : bool := match a, b with [] , [] => true | x :: a', y :: b' => Bool.eqb x y && beq_list a' b' | _, _ => false end.\n"
              "Definition agree_mask (c : thr_rule * Q * list Q * list bool) : bool :=\n"
              "  let '(r, x, l, m) := c in beq_list (mask_eval r x l) m.\n"
              "Definition agree_otsu (c : Q * list Q * Q * list bool) : bool :=\n"
              "  let '(x, l, t, m) := c in otsu_accepts x l t && beq_list (map (fun v => mask_cell v t) (x :: l)) m.\n")
    if ok:
        bad = vlib.run_cases(ctx, "mask", header, mask_cases, "agree_mask", shard=150)
        for k in bad[:3]:
            ctx.broken.append(f"correspondence mask: model and implementation differ for rule {meta[k][1]} on field {meta[k][0][:8]}... shape {meta[k][2]}")
        bad = vlib.run_cases(ctx, "otsu", header, otsu_cases, "agree_otsu", shard=8)
        if bad:
            ctx.broken.append(f"correspondence otsu: {len(bad)} field(s) where threshold_otsu is not an (almost) maximising bin centre or the mask differs; first {bad[0]}")
        bad = vlib.run_cases(ctx, "filter", header, rs_cases, "rs_agree", shard=400)
        if bad:
            ctx.broken.append(f"correspondence size filter: {len(bad)} disagreeing case(s), first {bad[0]}")
    for f in fails[:3]:
        ctx.violations.append({**f, "found": True, "broken": ctx.broken[:3]})
    return vlib.finish(ctx, "", TRUSTED, ASSUME, RULE)


def replay(path: str) -> int:
    from pde import CartesianGrid, ScalarField
    obj = json.load(open(path))
    inp = obj.get("input", {})
    print(json.dumps(obj, indent=1)[:1500])
    if "data" in inp:
        shape = inp["shape"]
        if "grid" in inp and not inp["grid"].startswith("CartesianGrid"):
            import pde
            grid = eval(inp["grid"], {k: getattr(pde, k) for k in ("PolarSymGrid", "SphericalSymGrid", "CylindricalSymGrid")})
        else:
            grid = CartesianGrid([(0.0, float(n)) for n in shape], shape, periodic=inp.get("periodic", False))
        field = ScalarField(grid, np.array(inp["data"]).reshape(shape))
        rule = inp["rule"]
        rule = rule if rule in RULES else float(rule)
        f = oracle_one(field, rule, inp["minimal_radius"])
        if not f and "a" in inp:
            f = oracle_affine(field, rule, inp["minimal_radius"], inp["a"], inp["b"])
        print("property oracle on the current tree:", f or "holds")
        return 1 if f else 0
    return 0
