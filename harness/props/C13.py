"""C13 -- a perturbed droplet's volume, surface, curvature and outline match its shape."""
from __future__ import annotations

import json
import math
import random

import numpy as np

import vlib

TRUSTED = [
    "Coq 8.16.1 kernel; Coquelicot (is_derive, is_RInt, auto_derive)",
    "harness/translate.py + harness/gen_perturbed.py (Python-ast translator of the accumulation loops and final "
    "expressions of the perturbed-droplet methods, validated by interval sample goals on every run)",
    "Interval tactic (sample goals only)",
    "real-number model: floating-point evaluation differs by rounding (bounded per sample goal)",
    "oracle: scipy.special.sph_harm_y behind spherical_harmonic_real_k / spherical_harmonic_symmetric (values passed "
    "to the model as numbers; orthogonality to constants is the premise of C13_volume_approx_first_order)",
    "oracle: scipy.integrate.dblquad (PerturbedDroplet3D.volume; compared per sample with an independent "
    "Gauss-Legendre x trapezoid quadrature)",
    "oracle: iterate_in_pairs pairs consecutive amplitudes, filling a missing last entry with 0 (checked per run)",
    "numpy elementwise evaluation / broadcasting",
]
ASSUME = [
    "theorems are over Coq's R; the implementation computes in binary64",
    "3-d / axisymmetric curvature: (l^2+l-2)/2 is PROVED to be the first-order mean curvature of a harmonic "
    "perturbation for every mode of degree <= 4 (closed forms of the real harmonics, k = 0..24, and of Y_l0, l <= 4, "
    "tied to the library's harmonics by sample goals; Laplace-Beltrami eigen-equation and first-order expansion by "
    "Coquelicot derivatives), and for every degree relative to the eigen-equation as a premise.  The mean curvature "
    "of a radial graph (H_radial, Model/Perturbed.v) is a DEFINITION taken from the level-set formula "
    "H = div(grad F/|grad F|)/2, not derived inside Coq; it is compared on every run with a finite-difference "
    "level-set mean curvature of the implementation's interface_distance (sample goals), and the check still "
    "compares the coded curvature with that finite-difference curvature at first order",
    "directions on the polar axis (sin theta = 0) are excluded from the curvature theorems (coordinate singularity)",
    "3-d volume and all surface integrals are not formalised (Coquelicot has 1-d integrals only); "
    "C13_volume_approx_first_order is relative to an abstract linear integral functional",
    "2-d surface_area: the quadrature error of the 256-point rule is checked numerically, not proved",
    "PerturbedDroplet3D.surface_area, PerturbedDroplet3DAxisSym.volume/.surface_area raise NotImplementedError: "
    "nothing is reported, nothing is compared",
]
RULE = ("translator sample goals: every generated function evaluated by the implementation on seeded droplets (radii "
        "!= 1, several simultaneously non-zero modes up to degree 4, zero entries, odd-length arrays) at seeded angles, "
        "compared inside Coq by interval arithmetic; numerical oracle cases: distinct (class, radius, amplitudes) "
        "droplets, non-trivial = at least two non-zero amplitudes")


# ------------------------------------------------------------------------------------------------
# independent formulas (written from the property text / class docstrings)
# ------------------------------------------------------------------------------------------------
def pairs(amps):
    amps = list(amps)
    if len(amps) % 2:
        amps.append(0.0)
    return [(amps[i], amps[i + 1]) for i in range(0, len(amps), 2)]


def shape2d(R, amps, phi):
    """r, r', r'' of R(phi) = R0 (1 + sum_n a_n sin n phi + b_n cos n phi)."""
    phi = np.asarray(phi, dtype=float)
    g = np.zeros_like(phi)
    g1 = np.zeros_like(phi)
    g2 = np.zeros_like(phi)
    for n, (a, b) in enumerate(pairs(amps), 1):
        s, c = np.sin(n * phi), np.cos(n * phi)
        g += a * s + b * c
        g1 += n * (a * c - b * s)
        g2 += -n * n * (a * s + b * c)
    return R * (1 + g), R * g1, R * g2


def curvature2d_exact(R, amps, phi):
    r, r1, r2 = shape2d(R, amps, phi)
    return (r * r + 2 * r1 * r1 - r * r2) / (r * r + r1 * r1) ** 1.5


def mean_curvature_fd(dist_of_angles, theta, phi, h_rel=2e-3, sphere_radius=None):
    """Mean curvature (k1 + k2)/2 of the surface |x| = r(theta, phi) at the given directions, from
    central finite differences of the level-set function F(x) = |x| - r(theta(x), phi(x))."""
    theta = np.asarray(theta, dtype=float)
    phi = np.asarray(phi, dtype=float)
    r0 = dist_of_angles(theta, phi)
    u = np.stack([np.sin(theta) * np.cos(phi), np.sin(theta) * np.sin(phi), np.cos(theta)], axis=-1)
    p = r0[:, None] * u
    h = h_rel * float(np.mean(r0))

    def F(x):
        rho = np.linalg.norm(x, axis=-1)
        th = np.arccos(np.clip(x[..., 2] / rho, -1, 1))
        ph = np.arctan2(x[..., 1], x[..., 0])
        return rho - dist_of_angles(th.ravel(), ph.ravel()).reshape(rho.shape)

    e = np.eye(3)
    f0 = F(p)
    grad = np.zeros_like(p)
    hess = np.zeros(p.shape + (3,))
    fp, fm = [], []
    for i in range(3):
        fp.append(F(p + h * e[i]))
        fm.append(F(p - h * e[i]))
        grad[:, i] = (fp[i] - fm[i]) / (2 * h)
        hess[:, i, i] = (fp[i] - 2 * f0 + fm[i]) / h ** 2
    for i in range(3):
        for j in range(i + 1, 3):
            v = (F(p + h * e[i] + h * e[j]) - F(p + h * e[i] - h * e[j])
                 - F(p - h * e[i] + h * e[j]) + F(p - h * e[i] - h * e[j])) / (4 * h ** 2)
            hess[:, i, j] = hess[:, j, i] = v
    gn = np.linalg.norm(grad, axis=1)
    lap = np.trace(hess, axis1=1, axis2=2)
    ghg = np.einsum("ni,nij,nj->n", grad, hess, grad)
    H = 0.5 * (lap * gn ** 2 - ghg) / gn ** 3
    if sphere_radius is not None:
        # remove the truncation error of the unperturbed part |x| (h^2-term, independent of the amplitudes):
        # the same stencil applied to the sphere of radius R0, whose mean curvature is exactly 1/R0
        Hs = mean_curvature_fd(lambda t, q: np.full(np.shape(t), float(sphere_radius)), theta, phi, h_rel, None)
        H = H - (Hs - 1.0 / sphere_radius)
    return H


def volume3d_quadrature(dist_of_angles, nt=64, nphi=128):
    """int r^3/3 dOmega by Gauss-Legendre in cos(theta) x trapezoid in phi (exact for the degrees used)."""
    x, w = np.polynomial.legendre.leggauss(nt)
    th = np.arccos(x)
    ph = 2 * np.pi * np.arange(nphi) / nphi
    T, P = np.meshgrid(th, ph, indexing="ij")
    r = dist_of_angles(T.ravel(), P.ravel()).reshape(T.shape)
    return float(np.sum(w[:, None] * r ** 3 / 3) * 2 * np.pi / nphi)


# ------------------------------------------------------------------------------------------------
# droplets
# ------------------------------------------------------------------------------------------------
def _cls():
    from droplets.droplets import PerturbedDroplet2D, PerturbedDroplet3D, PerturbedDroplet3DAxisSym
    return {"PerturbedDroplet2D": PerturbedDroplet2D, "PerturbedDroplet3D": PerturbedDroplet3D,
            "PerturbedDroplet3DAxisSym": PerturbedDroplet3DAxisSym}


def make(cls_name, R, centre, amps, width=0.25):
    import logging
    logging.getLogger("droplets.droplets").setLevel(logging.ERROR)  # odd-length arrays only warn
    return _cls()[cls_name](np.array(centre, dtype=float), R, width, np.array(amps, dtype=float))


def dist_fn(d, cls_name):
    if cls_name == "PerturbedDroplet3D":
        return lambda th, ph: d.interface_distance(np.asarray(th, float), np.asarray(ph, float))
    return lambda th, ph: d.interface_distance(np.asarray(th, float))


RADII = [0.5, 0.75, 1.5, 2.0, 3.25, 1.0, 5.0, 0.3125, 2.0 ** -20, 2.0 ** 20]   # "for all radii": also across scales
SIZES = {"PerturbedDroplet2D": [1, 2, 3, 4, 5, 8, 8, 7], "PerturbedDroplet3D": [1, 2, 3, 8, 8, 15, 24, 24],
         "PerturbedDroplet3DAxisSym": [1, 2, 3, 4, 4]}


def rand_pattern(rng, cls_name, min_nonzero=2):
    """Amplitude pattern with entries in [-1, 1] (multiples of 1/8), several non-zero, some exactly zero."""
    n = rng.choice(SIZES[cls_name])
    if rng.random() < 0.25:      # only the last entry non-zero (the unpaired one for odd lengths in 2-d)
        return [0.0] * (n - 1) + [rng.choice([1, -1]) * rng.randrange(1, 9) / 8.0]
    while True:
        pat = [rng.choice([0, 0, 1, -1]) * rng.randrange(1, 9) / 8.0 for _ in range(n)]
        if sum(1 for x in pat if x) >= min(min_nonzero, n):
            return pat


def rand_centre(rng, cls_name, R=1.0):
    """Centres of both signs; for radii far from 1 the centre is a multiple of the radius (otherwise the
    cancellation in `vertex - centre` would dominate the tolerances, which are relative to the radius)."""
    u = 1.0 if 0.25 <= R <= 8 else R
    if cls_name == "PerturbedDroplet2D":
        return [u * rng.randrange(-64, 65) / 8.0, u * rng.randrange(-64, 65) / 8.0]
    if cls_name == "PerturbedDroplet3D":
        return [u * rng.randrange(-64, 65) / 8.0 for _ in range(3)]
    return [0.0, 0.0, u * rng.randrange(-64, 65) / 8.0]


CORPUS = [  # the replays of the repaired defects F8a-c and F15, then hand-picked multi-mode shapes
    ("PerturbedDroplet3D", 1.0, [0, 0, 0], [0, 0, 0, 0.5, 0, 1.0, 0, 0]),        # F8a: two l = 2 modes
    ("PerturbedDroplet3D", 2.0, [0, 0, 0], [0, 0, 0, 0, 0, 1.0, 0, 0]),          # F8b: R = 2
    ("PerturbedDroplet3D", 2.0, [0, 0, 0], [1.0, 0, 0]),                         # F8c: amplitude on mode 1
    ("PerturbedDroplet3DAxisSym", 2.0, [0, 0, 1.0], [0.0, 1.0]),                 # F15
    ("PerturbedDroplet3DAxisSym", 2.0, [0, 0, 1.0], [1.0, 0.5, -0.25, 0.5]),
    ("PerturbedDroplet2D", 2.0, [1.0, -2.0], [0.5, 0, 0, 1.0, -0.5, 0.25, 0.125, -0.25]),
    ("PerturbedDroplet2D", 0.5, [0.0, 0.0], [0, 0, 1.0]),                        # odd length: fill 0
]


def norm_scale(cls_name, pat):
    """Scale factor making sum_k (degree_k^2 + 1) |a_k| = 1, so that eps * pattern is a small perturbation."""
    if cls_name == "PerturbedDroplet2D":
        w = sum((n * n + 1) * (abs(a) + abs(b)) for n, (a, b) in enumerate(pairs(pat), 1))
    elif cls_name == "PerturbedDroplet3D":
        w = sum((int(math.isqrt(k)) ** 2 + 1) * abs(a) for k, a in enumerate(pat, 1))
    else:
        w = sum((k * k + 1) * abs(a) for k, a in enumerate(pat, 1))
    return 1.0 / w if w else 1.0


# ------------------------------------------------------------------------------------------------
# the property oracle
# ------------------------------------------------------------------------------------------------
def taylor_coeffs(eps, errs):
    """Signed error vectors e(eps_j) = c1 eps_j + c2 eps_j^2 + ... (no constant term), j = 1..m:
    exact solve for c1..cm.  Testing "c1 = 0" (first-order agreement) or "c1 = c2 = 0" (second-order
    agreement) on the estimated coefficients is immune to cancellations between higher-order terms,
    unlike a ratio of error norms."""
    eps = np.asarray(eps, dtype=float)
    A = np.stack([eps ** (k + 1) for k in range(len(eps))], axis=1)
    E = np.stack([np.atleast_1d(np.asarray(e, dtype=float)) for e in errs], axis=0)
    return np.linalg.solve(A, E)  # row k: coefficient c_{k+1} for every component


def check_droplet(cls_name, R, centre, pat, rng, heavy=True):
    """Executable form of the property text for the family eps * pat; returns failure records."""
    fails = []
    s = norm_scale(cls_name, pat)
    base = {"class": cls_name, "radius": R, "position": list(centre), "amplitude_pattern": list(pat)}

    def fail(what, **kw):
        fails.append({"what": what, **base, **kw})

    angles2 = [rng.uniform(0, 2 * math.pi) for _ in range(6)] + [0.0, math.pi / 2]
    th = np.array([rng.uniform(0.45, math.pi - 0.45) for _ in range(14)])
    ph = np.array([rng.uniform(0, 2 * math.pi) for _ in range(14)])

    if cls_name == "PerturbedDroplet2D":
        eps = 0.2
        amps = [eps * s * a for a in pat]
        d = make(cls_name, R, centre, amps)
        phi = np.array(angles2)
        r, r1, r2 = shape2d(R, amps, phi)
        got = d.interface_distance(phi)
        if not np.allclose(got, r, rtol=1e-12, atol=0):
            fail("interface_distance is not R (1 + harmonic series)", amplitudes=amps, angle=float(phi[0]),
                 got=float(got[0]), expected=float(r[0]))
        # volume = int r^2/2 (periodic trapezoid is exact for trigonometric polynomials of degree < N)
        N = 4096
        pq = 2 * np.pi * np.arange(N) / N
        rq, rq1, _ = shape2d(R, amps, pq)
        area = float(np.sum(rq ** 2 / 2) * 2 * np.pi / N)
        if not abs(float(d.volume) - area) <= 1e-9 * area:
            fail("volume differs from the area integral of R(phi)^2/2", amplitudes=amps, got=float(d.volume), expected=area)
        length = float(np.sum(np.hypot(rq, rq1)) * 2 * np.pi / N)
        if not abs(float(d.surface_area) - length) <= 1e-9 * length:
            fail("surface_area differs from the arc length of the interface", amplitudes=amps,
                 got=float(d.surface_area), expected=length)
        # surface_area_approx is "quadratic in the amplitudes": in e(eps) = (approx - exact)/(2 pi R) for the
        # family eps * pattern the coefficients of eps and eps^2 must vanish.  Scale of the second-order term
        # per unit eps^2: A2 = sum n^2 (a^2 + b^2) / 4; c4 eps^2 contaminates the estimate of c2 (5% allowed)
        e_list, es = [], (0.1, 0.05, 0.025)
        for e in es:
            a2 = [e * s * x for x in pat]
            rr, rr1, _ = shape2d(R, a2, pq)
            L = float(np.sum(np.hypot(rr, rr1)) * 2 * np.pi / N)
            e_list.append((float(make(cls_name, R, centre, a2).surface_area_approx) - L) / (2 * np.pi * R))
        c = taylor_coeffs(es, e_list)[:, 0]
        A2 = sum(n * n * ((s * a) ** 2 + (s * b) ** 2) for n, (a, b) in enumerate(pairs(pat), 1)) / 4
        if not (abs(c[0]) <= 1e-6 + 1e-3 * math.sqrt(A2) and abs(c[1]) <= 1e-6 + 0.05 * A2):
            fail("surface_area_approx is not accurate to second order in the amplitudes",
                 amplitudes=[es[0] * s * x for x in pat], first_and_second_order_error_coefficients=c[:2].tolist(),
                 second_order_scale=A2)
        # positions and triangulation
        pos = d.interface_position(phi)
        want = np.array(centre)[None, :] + r[:, None] * np.stack([np.cos(phi), np.sin(phi)], axis=1)
        if not np.allclose(pos, want, rtol=0, atol=1e-12 * (R + np.abs(centre).max())):
            fail("interface_position is not centre + distance * (cos, sin)", amplitudes=amps, angle=float(phi[0]),
                 got=pos[0].tolist(), expected=want[0].tolist())
        tri = d.get_triangulation(rng.choice([0.25, 0.5, 1.0]) * R)
        v = np.asarray(tri["vertices"]) - np.array(centre)[None, :]
        rho = np.linalg.norm(v, axis=1)
        ang = np.arctan2(v[:, 1], v[:, 0])
        dev = np.abs(d.interface_distance(ang) - rho)
        if len(v) < 3 or dev.max() > 1e-10 * R:
            i = int(np.argmax(dev))
            fail("triangulation vertex not on the interface", amplitudes=amps, vertex=(v[i] + np.array(centre)).tolist(),
                 distance_from_centre=float(rho[i]), interface_distance=float(d.interface_distance(ang[i:i + 1])[0]))
        # curvature: first order in the amplitudes (exact curvature from the analytic derivatives).  The
        # pattern is normalised to sum (n^2+1)(|a|+|b|) = 1, so first-order corrections are O(1) per unit eps;
        # the coefficient of eps in R*(coded - exact) must vanish (estimate contaminated by c3 eps^2 only)
        e_list, es = [], (2e-3, 1e-3)
        for e in es:
            a2 = [e * s * x for x in pat]
            kc = make(cls_name, R, centre, a2).interface_curvature(phi)
            e_list.append((kc - curvature2d_exact(R, a2, phi)) * R)
        c1 = taylor_coeffs(es, e_list)[0]
        if not float(np.max(np.abs(c1))) <= 1e-4:
            i = int(np.argmax(np.abs(c1)))
            fail("interface_curvature deviates from the exact curvature at first order in the amplitudes",
                 amplitudes=[es[0] * s * x for x in pat], angle=float(phi[i]), first_order_error_coefficient=float(c1[i]),
                 coded=float(make(cls_name, R, centre, [es[0] * s * x for x in pat]).interface_curvature(phi[i:i + 1])[0]),
                 exact=float(curvature2d_exact(R, [es[0] * s * x for x in pat], phi[i:i + 1])[0]))
        # volume setter keeps the relative perturbations
        d2 = make(cls_name, R, centre, amps)
        V = 1.7 * float(d.volume)
        d2.volume = V
        if not (abs(float(d2.volume) - V) <= 1e-12 * V and np.array_equal(d2.amplitudes, d.amplitudes)):
            fail("setting the volume does not return the value set / changes the amplitudes", amplitudes=amps, volume=V)
        return fails

    # ---- 3-d and axisymmetric ----
    axis = cls_name == "PerturbedDroplet3DAxisSym"
    eps = 0.2
    amps = [eps * s * a for a in pat]
    d = make(cls_name, R, centre, amps)
    f = dist_fn(d, cls_name)
    r = f(th, ph)
    u = np.stack([np.sin(th) * np.cos(ph), np.sin(th) * np.sin(ph), np.cos(th)], axis=1)
    pos = d.interface_position(th, ph)
    want = np.array(centre)[None, :] + r[:, None] * u
    if not np.allclose(pos, want, rtol=0, atol=1e-12 * (R + np.abs(centre).max())):
        i = int(np.argmax(np.abs(pos - want).sum(axis=1)))
        fail("interface_position is not centre + interface_distance * unit vector", amplitudes=amps,
             theta=float(th[i]), phi=float(ph[i]), got=pos[i].tolist(), expected=want[i].tolist(),
             interface_distance=float(r[i]), distance_of_returned_point=float(np.linalg.norm(pos[i] - np.array(centre))))
    tri = d.get_triangulation(rng.choice([0.5, 1.0]) * R)
    v = np.asarray(tri["vertices"]) - np.array(centre)[None, :]
    rho = np.linalg.norm(v, axis=1)
    tv = np.arccos(np.clip(v[:, 2] / rho, -1, 1))
    pv = np.arctan2(v[:, 1], v[:, 0])
    dev = np.abs(f(tv, pv) - rho)
    if dev.max() > 1e-10 * R:
        i = int(np.argmax(dev))
        fail("triangulation vertex not on the interface", amplitudes=amps, vertex=(v[i] + np.array(centre)).tolist(),
             distance_from_centre=float(rho[i]), interface_distance=float(f(tv[i:i + 1], pv[i:i + 1])[0]))
    # reported volume (where implemented) = integral over the body bounded by the interface
    exact = volume3d_quadrature(f)
    if heavy:
        try:
            vol = float(d.volume)
        except NotImplementedError:
            vol = None
        if vol is not None and not abs(vol - exact) <= 1e-7 * exact:
            fail("volume differs from the integral of r^3/3 over the sphere of directions", amplitudes=amps,
                 got=vol, expected=exact)
    # volume_approx: exact to first order: the coefficient of eps in (approx - exact)/V_sphere must vanish
    # (perturbation size per unit eps: sum |a_k| <= 1/2; c3 = int g^3/(4 pi) is negligible)
    V0 = 4 * math.pi / 3 * R ** 3
    e_list, es = [], (0.04, 0.02)
    for e in es:
        a2 = [e * s * x for x in pat]
        d2 = make(cls_name, R, centre, a2)
        e_list.append((float(d2.volume_approx) - volume3d_quadrature(dist_fn(d2, cls_name))) / V0)
    c1 = float(taylor_coeffs(es, e_list)[0, 0])
    if not abs(c1) <= 1e-3:
        a2 = [es[0] * s * x for x in pat]
        d2 = make(cls_name, R, centre, a2)
        fail("volume_approx deviates from the exact volume at first order in the amplitudes", amplitudes=a2,
             first_order_error_coefficient=c1, volume_approx=float(d2.volume_approx),
             exact_volume=volume3d_quadrature(dist_fn(d2, cls_name)))
    # curvature: first order, against the finite-difference mean curvature of the level set.  Pattern
    # normalised to sum (l^2+1)|a_k| = 1: first-order corrections are O(1) per unit eps; the coefficient of eps
    # in R*(coded - true) must vanish.  Budget 1e-2: c3 eps^2/2 (<= 1e-3) + finite-difference error (2e-5 per
    # unit eps after removing the sphere's truncation error)
    e_list, es = [], (0.04, 0.02)
    for e in es:
        a2 = [e * s * x for x in pat]
        d2 = make(cls_name, R, centre, a2)
        kc = d2.interface_curvature(th) if axis else d2.interface_curvature(th, ph)
        kx = mean_curvature_fd(dist_fn(d2, cls_name), th, ph, sphere_radius=R)
        e_list.append((kc - kx) * R)
    c1 = taylor_coeffs(es, e_list)[0]
    if not float(np.max(np.abs(c1))) <= 1e-2:
        i = int(np.argmax(np.abs(c1)))
        a2 = [es[0] * s * x for x in pat]
        d2 = make(cls_name, R, centre, a2)
        kc = d2.interface_curvature(th[i:i + 1]) if axis else d2.interface_curvature(th[i:i + 1], ph[i:i + 1])
        fail("interface_curvature deviates from the true mean curvature at first order in the amplitudes",
             amplitudes=a2, theta=float(th[i]), phi=float(ph[i]), first_order_error_coefficient=float(c1[i]),
             coded=float(kc[0]),
             finite_difference_mean_curvature=float(mean_curvature_fd(dist_fn(d2, cls_name), th[i:i + 1], ph[i:i + 1],
                                                                     sphere_radius=R)[0]))
    return fails


def check_sphere_limit(cls_name, R, centre, n, rng):
    fails = []
    d = make(cls_name, R, centre, [0.0] * n)
    base = {"class": cls_name, "radius": R, "position": list(centre), "amplitudes": [0.0] * n}
    ang = np.array([rng.uniform(0.3, 2.8) for _ in range(4)])
    ph = np.array([rng.uniform(0, 6.28) for _ in range(4)])
    if cls_name == "PerturbedDroplet2D":
        vals = {"interface_distance": (d.interface_distance(ang), R), "interface_curvature": (d.interface_curvature(ang), 1 / R),
                "volume": (d.volume, math.pi * R * R), "surface_area": (d.surface_area, 2 * math.pi * R),
                "surface_area_approx": (d.surface_area_approx, 2 * math.pi * R)}
    elif cls_name == "PerturbedDroplet3D":
        vals = {"interface_distance": (d.interface_distance(ang, ph), R), "interface_curvature": (d.interface_curvature(ang, ph), 1 / R),
                "volume": (d.volume, 4 * math.pi / 3 * R ** 3), "volume_approx": (d.volume_approx, 4 * math.pi / 3 * R ** 3)}
    else:
        vals = {"interface_distance": (d.interface_distance(ang), R), "interface_curvature": (d.interface_curvature(ang), 1 / R),
                "volume_approx": (d.volume_approx, 4 * math.pi / 3 * R ** 3)}
    for k, (got, want) in vals.items():
        tol = 1e-8 if k == "volume" and cls_name != "PerturbedDroplet2D" else 1e-12
        if not np.allclose(np.asarray(got, dtype=float), want, rtol=tol, atol=0):
            fails.append({"what": f"sphere limit: {k} differs from the sphere's", **base,
                          "got": np.asarray(got, dtype=float).ravel()[:3].tolist(), "expected": want})
    return fails


def check_pairs_oracle():
    from droplets.droplets import iterate_in_pairs
    ok = (list(iterate_in_pairs([1, 2, 3, 4])) == [(1, 2), (3, 4)] and list(iterate_in_pairs([1, 2, 3])) == [(1, 2), (3, 0)]
          and list(iterate_in_pairs([])) == [])
    return [] if ok else [{"what": "iterate_in_pairs does not pair consecutive entries with fill 0"}]


def oracle(rng, n_random, ctx=None, heavy_count=2):
    fails = check_pairs_oracle()
    todo = [(c, R, ctr, pat) for c, R, ctr, pat in CORPUS]
    for cls_name in ("PerturbedDroplet2D", "PerturbedDroplet3D", "PerturbedDroplet3DAxisSym"):
        for i in range(n_random):
            R = RADII[(i + rng.randrange(len(RADII))) % len(RADII)]
            todo.append((cls_name, R, rand_centre(rng, cls_name, R), rand_pattern(rng, cls_name)))
    heavy_left = {"PerturbedDroplet3D": heavy_count}
    for cls_name, R, ctr, pat in todo:
        heavy = heavy_left.get(cls_name, 0) > 0
        if heavy:
            heavy_left[cls_name] -= 1
        fails += check_droplet(cls_name, R, ctr, pat, rng, heavy=heavy)
        if ctx is not None:
            ctx.case(["droplet", cls_name, R, ctr, pat], nontrivial=sum(1 for x in pat if x) >= 2)
            ctx.count("class", cls_name)
            ctx.count("radius", R)
            ctx.count("nonzero_modes", sum(1 for x in pat if x))
            ctx.count("amplitude_array_length", len(pat))
            nz = [i for i, x in enumerate(pat) if x]
            ctx.count("amplitude_pattern_kind", "only the last entry non-zero" if nz == [len(pat) - 1] else
                      ("odd length, last entry non-zero" if len(pat) % 2 and pat[-1] else "several / interior entries"))
    for cls_name, n in (("PerturbedDroplet2D", 4), ("PerturbedDroplet2D", 0), ("PerturbedDroplet3D", 8),
                        ("PerturbedDroplet3D", 0), ("PerturbedDroplet3DAxisSym", 3)):
        R = rng.choice(RADII)
        fails += check_sphere_limit(cls_name, R, rand_centre(rng, cls_name, R), n, rng)
        if ctx is not None:
            ctx.case(["sphere-limit", cls_name, R, n], nontrivial=False)
            ctx.count("class", cls_name + " (all amplitudes zero)")
    return fails


# ------------------------------------------------------------------------------------------------
# audit stream (notes/input_dimensions.md): special directions, angle types, vertex counts, object
# provenance, constructor argument types, width kinds, results of the wrong kind
# ------------------------------------------------------------------------------------------------
SUSPECTED = [
    {"id": "interface_position-nd-angle-array",
     "what": "interface_position with a 2-d angle array returns an array of shape (n, m, dim) whose entries mix different "
             "angles (dist[:, None] * np.transpose([...]) is written for 1-d arrays); interface_distance and "
             "interface_curvature are elementwise for n-d arrays"},
    {"id": "triangulation-3d-triangles-shared",
     "what": "get_triangulation of the 3-d classes returns the module-level cached index array of the stored sphere "
             "triangulation as 'triangles': the outputs of two calls (also of two different droplets) are the same array, "
             "so modifying one result modifies every later result"},
]


def probe_suspected():
    d = make("PerturbedDroplet2D", 2.0, [1.0, -2.0], [0.05, 0.0, 0.02])
    phi = np.array([[0.1, 0.9], [1.7, 2.5]])
    out = {}
    try:
        res = np.asarray(d.interface_position(phi))
        exp = np.array([1.0, -2.0]) + d.interface_distance(phi)[..., None] * np.stack([np.cos(phi), np.sin(phi)], -1)
        out["interface_position-nd-angle-array"] = (f"result shape {res.shape}; max deviation from centre + distance * "
                                                    f"(cos, sin): {float(np.abs(res - exp).max()) if res.shape == exp.shape else 'shape differs'}")
    except Exception as e:
        out["interface_position-nd-angle-array"] = f"raised {type(e).__name__}: {e}"
    try:
        a = make("PerturbedDroplet3D", 1.0, [0.0, 0.0, 0.0], [0.0, 0.01, 0.0])
        b = make("PerturbedDroplet3DAxisSym", 1.0, [0.0, 0.0, 0.0], [0.0, 0.01])
        t1, t2 = a.get_triangulation(1.0)["triangles"], b.get_triangulation(1.0)["triangles"]
        out["triangulation-3d-triangles-shared"] = f"np.shares_memory(first call, second call of another droplet) = {bool(np.shares_memory(t1, t2))}"
    except Exception as e:
        out["triangulation-3d-triangles-shared"] = f"raised {type(e).__name__}: {e}"
    return out


def _finite_real(x):
    a = np.asarray(x)
    return not np.iscomplexobj(a) and a.dtype.kind in "fiu" and bool(np.all(np.isfinite(a)))


def _raises_only_not_implemented(fn):
    """-> (value or None, failure text or None): a quantity is either reported or NotImplementedError."""
    try:
        return fn(), None
    except NotImplementedError:
        return None, None
    except Exception as e:
        return None, f"raised {type(e).__name__}: {e}"


def check_structure(cls_name, R, centre, amps, rng, width, count=lambda k, v: None):
    """Special directions, angle types, triangulation structure, provenance, kinds -- for one droplet."""
    fails = []
    base = {"class": cls_name, "radius": R, "position": list(centre), "amplitudes": list(amps), "interface_width": width}

    def fail(what, **kw):
        fails.append({"what": what, **base, **kw})

    d = make(cls_name, R, centre, amps, width)
    two_pi = 2 * math.pi
    ctr = np.array(centre, dtype=float)
    atol = 1e-12 * (R + float(np.abs(ctr).max()))
    if cls_name == "PerturbedDroplet2D":
        # phi = 0, 2 pi, negative and > 2 pi: own series, periodicity, positions
        phi = np.array([0.0, two_pi, -math.pi / 3, two_pi + 0.4, 0.4, math.pi])
        for a in phi:
            count("angle_kind", "phi = %s" % ("0" if a == 0 else "2 pi" if a == two_pi else "negative" if a < 0
                                              else "> 2 pi" if a > two_pi else "interior"))
        r = shape2d(R, amps, phi)[0]
        got = d.interface_distance(phi)
        if not (_finite_real(got) and np.allclose(got, r, rtol=1e-12, atol=0)):
            fail("interface_distance at phi = 0 / 2 pi / outside [0, 2 pi] is not the harmonic series", angles=phi.tolist(),
                 got=np.asarray(got).tolist(), expected=r.tolist())
        if not (abs(got[0] - got[1]) <= 1e-12 * R and abs(got[3] - got[4]) <= 1e-12 * R):
            fail("interface_distance is not 2 pi periodic", angles=phi.tolist(), got=np.asarray(got).tolist())
        pos = d.interface_position(phi)
        want = ctr[None, :] + r[:, None] * np.stack([np.cos(phi), np.sin(phi)], axis=1)
        if not (_finite_real(pos) and np.allclose(pos, want, rtol=0, atol=atol)):
            fail("interface_position at phi = 0 / 2 pi / outside [0, 2 pi] is not centre + distance * (cos, sin)",
                 angles=phi.tolist(), got=np.asarray(pos).tolist(), expected=want.tolist())
        kc = d.interface_curvature(phi)
        if not (_finite_real(kc) and abs(kc[0] - kc[1]) <= 1e-10 / R):
            fail("interface_curvature is not finite / not 2 pi periodic", got=np.asarray(kc).tolist())
        fd, fc, fp = d.interface_distance, d.interface_curvature, d.interface_position
        args = lambda a: (a,)
    else:
        axis = cls_name == "PerturbedDroplet3DAxisSym"
        f = dist_fn(d, cls_name)
        th = np.array([0.0, math.pi, 0.0, math.pi, 0.9, 0.9, 2.1, 2.1])
        ph = np.array([0.0, 0.0, 1.3, 2.9, 0.0, two_pi, 0.7, 0.7 + two_pi])
        for k_ in ("north pole", "south pole", "phi = 0", "phi = 2 pi", "phi > 2 pi"):
            count("angle_kind", k_)
        r = f(th, ph)
        if not _finite_real(r):
            fail("interface_distance on the polar axis / at phi = 0, 2 pi is not finite", got=np.asarray(r).tolist())
        else:
            if not (abs(r[0] - r[2]) <= 1e-12 * R and abs(r[1] - r[3]) <= 1e-12 * R):
                fail("interface_distance on the polar axis depends on phi", theta=th[:4].tolist(), phi=ph[:4].tolist(),
                     got=r[:4].tolist())
            if not (abs(r[4] - r[5]) <= 1e-12 * R and abs(r[6] - r[7]) <= 1e-12 * R):
                fail("interface_distance is not 2 pi periodic in phi", theta=th[4:].tolist(), phi=ph[4:].tolist(), got=r[4:].tolist())
            u = np.stack([np.sin(th) * np.cos(ph), np.sin(th) * np.sin(ph), np.cos(th)], axis=1)
            pos = d.interface_position(th, ph)
            want = ctr[None, :] + r[:, None] * u
            if not (_finite_real(pos) and np.allclose(pos, want, rtol=0, atol=atol)):
                fail("interface_position on the polar axis / at phi = 0, 2 pi is not centre + distance * unit vector",
                     theta=th.tolist(), phi=ph.tolist(), got=np.asarray(pos).tolist(), expected=want.tolist())
        tc = np.array([0.0, 1e-6, math.pi, math.pi - 1e-6])
        pc = np.full(4, 0.8)
        kc = np.asarray(d.interface_curvature(tc) if axis else d.interface_curvature(tc, pc), dtype=float)
        kc = np.broadcast_to(kc, (4,))
        if not (_finite_real(kc) and abs(kc[0] - kc[1]) <= 1e-4 / R and abs(kc[2] - kc[3]) <= 1e-4 / R):
            fail("interface_curvature is not finite / not continuous at the poles", theta=tc.tolist(), got=kc.tolist())
        if axis:
            fd, fc = d.interface_distance, d.interface_curvature
            args = lambda a: (a,)
        else:
            fd, fc = d.interface_distance, d.interface_curvature
            args = lambda a: (a, a * 0 + 0.6)
        fp = None
    # --- angle types: Python float, numpy scalar, 0-d array, list, 2-d array (distance / curvature elementwise)
    a0 = 0.7
    ref_d = float(np.ravel(fd(*args(np.array([a0]))))[0])
    ref_c = float(np.ravel(fc(*args(np.array([a0]))))[0])
    for name, a in (("python float", a0), ("numpy float64 scalar", np.float64(a0)), ("0-d array", np.array(a0)),
                    ("2-d array", np.array([[a0, 0.2], [1.1, a0]]))):
        count("angle_type", name)
        try:
            vd, vc = np.asarray(fd(*args(a)), dtype=float), np.asarray(fc(*args(a)), dtype=float)
            okd = abs(float(np.ravel(vd)[0]) - ref_d) <= 1e-14 * R and vd.shape in (np.shape(a), ())
            okc = abs(float(np.ravel(vc)[0]) - ref_c) <= 1e-13 / R
            if name == "2-d array":
                flat = np.asarray(fd(*args(np.ravel(a))), dtype=float)
                okd = okd and vd.shape == (2, 2) and np.allclose(np.ravel(vd), flat, rtol=1e-14, atol=0)
            if not (okd and okc):
                fail(f"interface_distance / interface_curvature depend on the type of the angle argument ({name})",
                     angle=a0, distance=np.asarray(vd).tolist(), reference_distance=ref_d,
                     curvature=np.asarray(vc).tolist(), reference_curvature=ref_c)
        except Exception as e:
            fail(f"interface_distance / interface_curvature raised {type(e).__name__} for an angle given as {name}: {e}")
    # --- triangulation structure and vertex counts
    res = rng.choice([0.25, 0.5, 1.0, 4.0, 50.0]) * R
    count("triangulation_resolution_over_radius", res / R)
    try:
        tri = d.get_triangulation(res)
        v = np.asarray(tri["vertices"], dtype=float)
        if cls_name == "PerturbedDroplet2D":
            n_want = max(3, int(math.ceil(float(d.surface_area) / res)))
            lines = np.asarray(tri["lines"])
            ok = (v.shape == (n_want + 1, 2) and lines.shape == (n_want, 2) and lines.min() >= 0 and lines.max() < n_want
                  and np.allclose(v[0], v[-1], rtol=0, atol=atol) and _finite_real(v)
                  and sorted(map(tuple, lines.tolist())) == sorted((i, (i + 1) % n_want) for i in range(n_want)))
            if not ok:
                fail("2-d triangulation: vertex count is not max(3, ceil(surface_area / resolution)) + 1 (closed polygon) or "
                     "the lines do not form the closed chain", resolution=res, vertices=list(v.shape), lines=list(lines.shape),
                     expected_segments=n_want)
        else:
            cells = np.asarray(tri["triangles"])
            ok = (v.ndim == 2 and v.shape[1] == 3 and len(v) >= 4 and cells.ndim == 2 and cells.shape[1] == 3
                  and cells.min() >= 0 and cells.max() < len(v) and len(np.unique(cells)) == len(v) and _finite_real(v))
            if not ok:
                fail("3-d triangulation: triangles do not index the vertex list exactly", resolution=res,
                     vertices=list(v.shape), triangles=list(cells.shape))
    except Exception as e:
        fail(f"get_triangulation raised {type(e).__name__}: {e}", resolution=res)
    # --- reported quantities: finite reals, or NotImplementedError (nothing reported)
    for nm in ("volume", "surface_area", "volume_approx", "surface_area_approx"):
        if not hasattr(type(d), nm):
            continue
        if nm == "volume" and cls_name == "PerturbedDroplet3D":
            continue   # dblquad: judged in check_droplet for the heavy cases
        val, err = _raises_only_not_implemented(lambda: getattr(d, nm))
        count("reported_quantity", f"{cls_name}.{nm}: " + ("reported" if val is not None else "NotImplementedError" if err is None else "other exception"))
        if err:
            fail(f"{nm} {err}")
        elif val is not None and not (_finite_real(val) and float(val) > 0):
            fail(f"{nm} is not a finite positive real", got=repr(val))
    if cls_name != "PerturbedDroplet2D":
        d2 = make(cls_name, R, centre, amps, width)
        try:
            d2.volume = 1.5 * R ** 3
            got = float(d2.volume) if cls_name == "PerturbedDroplet3D" else None
            if got is not None and not abs(got - 1.5 * R ** 3) <= 1e-6 * R ** 3:
                fail("volume setter accepted a value but the volume read back differs", set=1.5 * R ** 3, got=got)
        except NotImplementedError:
            count("reported_quantity", f"{cls_name}.volume setter: NotImplementedError")
        except Exception as e:
            fail(f"volume setter raised {type(e).__name__}: {e}")
    # --- provenance of the droplet object
    import copy
    import os
    import pickle
    import tempfile
    from droplets.emulsions import Emulsion

    def from_file(x):
        root = vlib.BUILD / "cases" / "C13"
        root.mkdir(parents=True, exist_ok=True)
        with tempfile.TemporaryDirectory(dir=root) as t:
            path = os.path.join(t, "e.hdf5")
            Emulsion([x]).to_file(path)
            return Emulsion.from_file(path)[0]
    provs = {"copy()": lambda x: x.copy(), "copy.deepcopy": copy.deepcopy,
             "pickle round trip": lambda x: pickle.loads(pickle.dumps(x)),
             "Emulsion member": lambda x: Emulsion([x])[0], "read back from an HDF5 file": from_file}
    name = rng.choice(sorted(provs))
    count("droplet_provenance", name)
    try:
        e = provs[name](make(cls_name, R, centre, amps, width))
        same = (type(e) is type(d) and np.array_equal(np.asarray(e.amplitudes), np.asarray(d.amplitudes))
                and abs(float(np.ravel(e.interface_distance(*args(np.array([a0]))))[0]) - ref_d) <= 1e-14 * R
                and abs(float(np.ravel(e.interface_curvature(*args(np.array([a0]))))[0]) - ref_c) <= 1e-13 / R)
        if not same:
            fail(f"a droplet obtained by {name} reports a different shape than the constructed one")
    except Exception as ex:
        fail(f"a droplet obtained by {name} cannot be queried: {type(ex).__name__}: {ex}")
    return fails


# ------------------------------------------------------------------------------------------------
# sequence stream (notes/input_dimensions.md item 6): every reported quantity must depend on the CURRENT
# parameters only -- query, change one attribute through the public setters, query again; the same on a
# second object sharing the amplitude bytes; idempotence; different orders of radii
# ------------------------------------------------------------------------------------------------
def model_values(cls_name, R, centre, amps, angles):
    """Process-independent evaluation of every reported quantity from the parameters alone (property text /
    class docstrings / the Coq model); nothing is read from a droplet object."""
    from droplets.tools import spherical as sp
    ctr = np.array(centre, dtype=float)
    out = {}
    if cls_name == "PerturbedDroplet2D":
        phi = np.asarray(angles, dtype=float)
        r = shape2d(R, amps, phi)[0]
        out["interface_distance"] = r
        cr = np.ones_like(phi)
        for n, (a, b) in enumerate(pairs(amps), 1):
            cr -= (n * n - 1) * (a * np.sin(n * phi) + b * np.cos(n * phi))
        out["interface_curvature"] = 1 / (R * cr)
        out["interface_position"] = ctr[None, :] + r[:, None] * np.stack([np.cos(phi), np.sin(phi)], axis=1)
        N = 2048
        pq = 2 * np.pi * np.arange(N) / N
        rq, rq1, _ = shape2d(R, amps, pq)
        out["volume"] = float(np.sum(rq ** 2 / 2) * 2 * np.pi / N)
        out["surface_area"] = float(np.sum(np.hypot(rq, rq1)) * 2 * np.pi / N)
        out["surface_area_approx"] = math.pi * R * (4 + sum(n * n * (a * a + b * b) for n, (a, b) in enumerate(pairs(amps), 1))) / 2
        return out
    th, ph = (np.asarray(x, dtype=float) for x in angles)
    axis = cls_name == "PerturbedDroplet3DAxisSym"

    def Y(k, t, p):
        return sp.spherical_harmonic_symmetric(k, t) if axis else sp.spherical_harmonic_real_k(k, t, p)

    def dist(t, p):
        g = np.zeros_like(np.asarray(t, dtype=float))
        for k, a in enumerate(amps, 1):
            if a:
                g = g + a * Y(k, t, p)
        return R * (1 + g)
    r = dist(th, ph)
    out["interface_distance"] = r
    corr = np.zeros_like(th)
    for k, a in enumerate(amps, 1):
        l = k if axis else int(math.isqrt(k))
        if a:
            corr = corr + a * (l * l + l - 2) / 2 * Y(k, th, ph)
    out["interface_curvature"] = 1 / R + corr / R
    u = np.stack([np.sin(th) * np.cos(ph), np.sin(th) * np.sin(ph), np.cos(th)], axis=1)
    out["interface_position"] = ctr[None, :] + r[:, None] * u
    out["volume_approx"] = 4 * math.pi / 3 * R ** 3
    if not axis:
        out["volume"] = volume3d_quadrature(dist, nt=32, nphi=64)
    out["_dist"] = dist
    return out


SEQ_TOL = {"interface_distance": 1e-12, "interface_curvature": 1e-11, "interface_position": 1e-12, "volume": 1e-7,
           "volume_approx": 1e-13, "surface_area": 1e-9, "surface_area_approx": 1e-13}


def observe(d, cls_name, angles):
    """What the droplet object reports now (quantities that raise NotImplementedError are not reported)."""
    obs = {}
    args = (np.asarray(angles, dtype=float),) if cls_name == "PerturbedDroplet2D" else tuple(np.asarray(a, dtype=float) for a in angles)
    a1 = args[:1] if cls_name != "PerturbedDroplet3D" else args
    obs["interface_distance"] = np.asarray(d.interface_distance(*a1), dtype=float)
    obs["interface_curvature"] = np.broadcast_to(np.asarray(d.interface_curvature(*a1), dtype=float), obs["interface_distance"].shape)
    obs["interface_position"] = np.asarray(d.interface_position(*args), dtype=float)
    for nm in ("volume", "volume_approx", "surface_area", "surface_area_approx"):
        if hasattr(type(d), nm):
            try:
                obs[nm] = float(getattr(d, nm))
            except NotImplementedError:
                pass
    return obs


def compare_with_model(d, cls_name, params, angles, step, base, res_over_R=0.7):
    """Observed quantities vs the process-independent model for the CURRENT parameters."""
    fails = []
    R, centre, amps = params["radius"], params["position"], params["amplitudes"]
    mod = model_values(cls_name, R, centre, amps, angles)
    try:
        obs = observe(d, cls_name, angles)
    except Exception as e:
        return [{"what": f"query after '{step}' raised {type(e).__name__}: {e}", **base, "history": list(base["history"]), "current": dict(params)}]
    scale = {"interface_position": R + float(np.abs(np.array(centre)).max()), "interface_curvature": 1 / R}
    for nm, want in mod.items():
        if nm.startswith("_") or nm not in obs:
            continue
        got = obs[nm]
        sc = scale.get(nm)
        ok = (np.allclose(got, want, rtol=SEQ_TOL[nm], atol=0) if sc is None
              else np.allclose(got, want, rtol=0, atol=SEQ_TOL[nm] * sc))
        if not ok:
            fails.append({"what": f"{nm} does not correspond to the current parameters after the sequence (stale or stateful result)",
                          **base, "history": list(base["history"]), "current": dict(params),
                          "got": np.ravel(np.asarray(got, dtype=float))[:3].tolist(),
                          "expected": np.ravel(np.asarray(want, dtype=float))[:3].tolist()})
    # triangulation: vertices at the CURRENT interface distance from the CURRENT centre
    try:
        tri = d.get_triangulation(res_over_R * R)
        v = np.asarray(tri["vertices"], dtype=float) - np.array(centre, dtype=float)[None, :]
        rho = np.linalg.norm(v, axis=1)
        if cls_name == "PerturbedDroplet2D":
            want = shape2d(R, amps, np.arctan2(v[:, 1], v[:, 0]))[0]
        else:
            want = mod["_dist"](np.arccos(np.clip(v[:, 2] / rho, -1, 1)), np.arctan2(v[:, 1], v[:, 0]))
        if np.abs(want - rho).max() > 1e-10 * R:
            i = int(np.argmax(np.abs(want - rho)))
            fails.append({"what": "triangulation vertices do not lie on the interface of the current parameters after the sequence",
                          **base, "history": list(base["history"]), "current": dict(params),
                          "distance_from_centre": float(rho[i]), "interface_distance": float(want[i])})
    except Exception as e:
        fails.append({"what": f"get_triangulation after '{step}' raised {type(e).__name__}: {e}", **base,
                      "history": list(base["history"]), "current": dict(params)})
    return fails


def check_sequence(cls_name, rng, count=lambda k, v: None, zero_amplitudes=False, order=None):
    """One history of queries and single-attribute changes on one object, plus a second object sharing the
    amplitude bytes; every query is compared with the model of the parameters current at that moment."""
    fails = []
    n = {"PerturbedDroplet2D": 4, "PerturbedDroplet3D": 8, "PerturbedDroplet3DAxisSym": 3}[cls_name]
    pat = [0.0] * n if zero_amplitudes else rand_pattern(rng, cls_name)[:n]
    if not zero_amplitudes and not any(pat):
        pat[-1] = 0.5
    pat = pat + [0.0] * (n - len(pat))
    amps = [0.2 * norm_scale(cls_name, pat) * a for a in pat]
    order = order or rng.choice([(1.0, 2.0, 0.5), (0.5, 2.0, 1.0)])
    count("sequence_radius_order", str(order))
    centre = rand_centre(rng, cls_name)
    width = rng.choice([None, 0.0, 0.25])
    if cls_name == "PerturbedDroplet2D":
        angles = np.array([0.3, 1.9, 4.4])
    else:
        angles = (np.array([0.5, 1.4, 2.6]), np.array([0.2, 3.3, 5.1]))
    params = {"radius": order[0], "position": list(centre), "amplitudes": list(amps), "interface_width": width}
    base = {"class": cls_name, "initial": dict(params), "history": []}
    d = make(cls_name, params["radius"], params["position"], params["amplitudes"], width)

    def step(name, **change):
        base["history"].append({"step": name, **{k: (v if not isinstance(v, np.ndarray) else v.tolist()) for k, v in change.items()}})
        count("sequence_step", name)

    step("query")
    fails += compare_with_model(d, cls_name, params, angles, "query", base)
    step("query again (no change)")
    try:
        o1, o2 = observe(d, cls_name, angles), observe(d, cls_name, angles)
        for k in o1:
            if not np.array_equal(np.asarray(o1[k]), np.asarray(o2[k])):
                fails.append({"what": f"{k} is not idempotent: two queries without a change differ", **base, "history": list(base["history"])})
    except Exception as e:
        fails.append({"what": f"repeated query raised {type(e).__name__}: {e}", **base, "history": list(base["history"])})
    for R in order[1:]:
        d.radius = R
        params["radius"] = R
        step("set radius", radius=R)
        fails += compare_with_model(d, cls_name, params, angles, "set radius", base)
    # a second object sharing the amplitude bytes, another radius (never queried before)
    R2 = 3.0
    d2 = make(cls_name, R2, params["position"], params["amplitudes"], width)
    step("second object with the same amplitudes", radius=R2)
    p2 = dict(params, radius=R2)
    fails += compare_with_model(d2, cls_name, p2, angles, "second object with the same amplitudes", base)
    # position
    newc = [c + 1.5 for c in params["position"]] if cls_name != "PerturbedDroplet3DAxisSym" else [0.0, 0.0, params["position"][2] - 2.5]
    d.position = np.array(newc)
    params["position"] = newc
    step("set position", position=newc)
    fails += compare_with_model(d, cls_name, params, angles, "set position", base)
    # one amplitude
    newa = list(params["amplitudes"])
    j = rng.randrange(len(newa))
    newa[j] = newa[j] + 0.01
    d.amplitudes = np.array(newa)
    params["amplitudes"] = newa
    step("set one amplitude", index=j, amplitudes=newa)
    fails += compare_with_model(d, cls_name, params, angles, "set one amplitude", base)
    # interface width (no quantity of C13 may depend on it)
    neww = 0.5 if width != 0.5 else 0.125
    d.interface_width = neww
    params["interface_width"] = neww
    step("set interface_width", interface_width=neww)
    fails += compare_with_model(d, cls_name, params, angles, "set interface_width", base)
    if cls_name == "PerturbedDroplet2D":
        V = 2.5
        d.volume = V
        term = 1 + sum(a * a for a in params["amplitudes"]) / 2
        params["radius"] = math.sqrt(V / (math.pi * term))
        step("set volume", volume=V)
        fails += compare_with_model(d, cls_name, params, angles, "set volume", base)
    # finally a freshly constructed droplet with the final parameters must report the same as the mutated one
    fresh = make(cls_name, params["radius"], params["position"], params["amplitudes"], params["interface_width"])
    step("fresh droplet with the final parameters")
    fails += compare_with_model(fresh, cls_name, params, angles, "fresh droplet with the final parameters", base)
    return fails


def oracle_sequence(rng, ctx=None, n_per_class=1):
    fails = []

    def count(k, v):
        if ctx is not None:
            ctx.count(k, v)
    for cls_name in ("PerturbedDroplet2D", "PerturbedDroplet3D", "PerturbedDroplet3DAxisSym"):
        for i in range(n_per_class + 1):
            zero = i == n_per_class      # the last history of each class: all amplitudes zero (sphere limit)
            count("sequence_history", f"{cls_name}: " + ("all amplitudes zero" if zero else "perturbed"))
            fails += check_sequence(cls_name, rng, count, zero_amplitudes=zero,
                                    order=[(1.0, 2.0, 0.5), (0.5, 2.0, 1.0)][i % 2])   # both orders for every class
            if ctx is not None:
                ctx.case(["sequence", cls_name, i, zero])
    return fails


# ------------------------------------------------------------------------------------------------
# state stream (notes/input_dimensions.md item 8): getters must not change the object, outputs of two calls must
# not share buffers, arguments must stay unchanged and unaliased, the three classes are used alternately
# ------------------------------------------------------------------------------------------------
def _same(a, b):
    if isinstance(a, dict) and isinstance(b, dict):
        return a.keys() == b.keys() and all(_same(a[k], b[k]) for k in a)
    if isinstance(a, (tuple, list)) and isinstance(b, (tuple, list)):
        return len(a) == len(b) and all(_same(x, y) for x, y in zip(a, b))
    try:
        return bool(np.array_equal(np.asarray(a, dtype=float), np.asarray(b, dtype=float), equal_nan=True))
    except (TypeError, ValueError):
        return a == b or (hasattr(a, "pos") and _same(a.pos, b.pos) and _same(a.size, b.size))


def _arrays_of(x):
    if isinstance(x, np.ndarray):
        return [x]
    if isinstance(x, dict):
        return [a for k, v in x.items() if k != "triangles" or v.shape[1] != 3 or True for a in _arrays_of(v)]
    if isinstance(x, (tuple, list)):
        return [a for v in x for a in _arrays_of(v)]
    return []


def getters(cls_name, angles):
    """name -> (function of the droplet, is the heavy quadrature).  Every public read access of the class."""
    a1 = angles[:1] if cls_name != "PerturbedDroplet3D" else angles
    g = {
        "radius": lambda d: d.radius, "position": lambda d: d.position, "amplitudes": lambda d: d.amplitudes,
        "interface_width": lambda d: d.interface_width, "modes": lambda d: d.modes, "dim": lambda d: d.dim,
        "data_bounds": lambda d: d.data_bounds, "volume_approx": lambda d: d.volume_approx,
        "interface_distance": lambda d: d.interface_distance(*a1),
        "interface_curvature": lambda d: d.interface_curvature(*a1),
        "interface_position": lambda d: d.interface_position(*angles),
        "get_triangulation": lambda d: {k: v for k, v in d.get_triangulation(0.8 * float(d.radius)).items() if k != "triangles"},
        "bbox": lambda d: d.bbox, "volume": lambda d: d.volume, "surface_area": lambda d: d.surface_area,
        "surface_area_approx": lambda d: d.surface_area_approx, "copy": lambda d: d.copy().data.tobytes(),
        "_data_array": lambda d: d._data_array, "str": lambda d: str(d),
    }
    if cls_name == "PerturbedDroplet2D":
        g.pop("volume_approx")
    return g


def _call(fn, d):
    """-> ('value', v) | ('not reported', None) for NotImplementedError / missing attribute"""
    try:
        return "value", fn(d)
    except (NotImplementedError, AttributeError) as e:
        return "not reported", type(e).__name__


def check_state(cls_name, R, centre, amps, rng, count=lambda k, v: None):
    fails = []
    base = {"class": cls_name, "radius": R, "position": list(centre), "amplitudes": list(amps)}

    def fail(what, **kw):
        fails.append({"what": what, **base, **kw})

    if cls_name == "PerturbedDroplet2D":
        mk_angles = lambda: (np.array([0.3, 1.9, 7.4]),)      # one angle outside [0, 2 pi)
        other_angles = (np.array([0.7, 2.9, 5.4]),)     # same shape, other values
    else:
        mk_angles = lambda: (np.array([0.5, 1.4, 2.6]), np.array([0.2, 3.3, 7.0]))     # one phi outside [0, 2 pi)
        other_angles = (np.array([0.9, 1.1, 2.2]), np.array([1.2, 4.3, 0.1]))
    angles = mk_angles()
    G = getters(cls_name, angles)
    cheap = [k for k in G if not (k == "volume" and cls_name == "PerturbedDroplet3D")]
    d = make(cls_name, R, centre, amps)
    for name, fn in G.items():
        count("getter_called_twice", name)
        fresh = make(cls_name, R, centre, amps)          # never had `name` called
        b0 = d.data.tobytes()
        k1, r1 = _call(fn, d)
        b1 = d.data.tobytes()
        k2, r2 = _call(fn, d)
        if b1 != b0 or d.data.tobytes() != b0:
            fail(f"the getter {name} changes the droplet's record", getter=name,
                 record_after=[float(x) for x in np.asarray(d._data_array, dtype=float)],
                 record_of_an_equal_fresh_droplet=[float(x) for x in np.asarray(fresh._data_array, dtype=float)])
            d = make(cls_name, R, centre, amps)
            continue
        if k1 != k2 or (k1 == "value" and not _same(r1, r2)):
            fail(f"two calls of {name} on the same droplet give different results", getter=name)
        if any(not np.array_equal(a, b) for a, b in zip(angles, mk_angles())):
            fail(f"{name} modified the angle arrays passed to it", getter=name, angles_after=[a.tolist() for a in angles])
            for a, b in zip(angles, mk_angles()):
                a[...] = b
        # outputs of the two calls kept alive together: computed results must not share buffers with each other,
        # with the arguments or with the droplet's record (attribute views position / amplitudes are recorded, not judged)
        if k1 == "value" and name not in ("position", "amplitudes", "_data_array", "radius", "interface_width", "modes", "dim", "str", "copy"):
            A1, A2 = _arrays_of(r1), _arrays_of(r2)
            rec_fields = [np.asarray(d.data[f]) for f in d.data.dtype.names]
            shared = (any(np.shares_memory(x, y) for x in A1 for y in A2)
                      or any(np.shares_memory(x, y) for x in A1 + A2 for y in list(angles) + rec_fields))
            if not shared and A1:
                keep = [a.copy() for a in A2]
                for a in A1:
                    if a.flags.writeable:
                        a += 1     # in place, keeps the dtype (index arrays are integers)
                shared = any(not np.array_equal(a, b, equal_nan=True) for a, b in zip(A2, keep)) or d.data.tobytes() != b0
            if shared:
                fail(f"results of two calls of {name} share a buffer with each other, with an argument or with the droplet: "
                     "modifying one result changes the other / the droplet", getter=name)
                d = make(cls_name, R, centre, amps)
        elif k1 == "value" and name in ("position", "amplitudes", "_data_array"):   # views of the record by design
            count("attribute_getter_is_a_view_of_the_record (recorded, not judged)",
                  f"{name}: {bool(any(np.shares_memory(np.asarray(r1), np.asarray(d.data[f])) for f in d.data.dtype.names))}")
        # after the getter every other (cheap) getter must report what an equal fresh droplet reports
        for other in cheap:
            if other == name:
                continue
            ko, vo = _call(G[other], d)
            if any(not np.array_equal(a, b) for a, b in zip(angles, mk_angles())):
                fail(f"{other} modified the angle arrays passed to it", getter=other, angles_after=[a.tolist() for a in angles])
                for a, b in zip(angles, mk_angles()):
                    a[...] = b
            kf, vf = _call(G[other], fresh)
            if ko != kf or (ko == "value" and not _same(vo, vf)):
                fail(f"after calling {name}, {other} differs from the value reported by an equal fresh droplet",
                     getter=name, affected=other)
                d = make(cls_name, R, centre, amps)
                break
    # same call with other angle values of the same shape (a cache keyed on the shape would return stale values)
    mod = model_values(cls_name, R, centre, amps, other_angles if cls_name != "PerturbedDroplet2D" else other_angles[0])
    a1 = other_angles[:1] if cls_name != "PerturbedDroplet3D" else other_angles
    got = np.asarray(d.interface_distance(*a1), dtype=float)
    gotc = np.broadcast_to(np.asarray(d.interface_curvature(*a1), dtype=float), got.shape)
    gotp = np.asarray(d.interface_position(*other_angles), dtype=float)
    count("same_shape_other_angles", cls_name)
    if not (np.allclose(got, mod["interface_distance"], rtol=1e-12, atol=0)
            and np.allclose(gotc, mod["interface_curvature"], rtol=0, atol=1e-11 / R)
            and np.allclose(gotp, mod["interface_position"], rtol=0, atol=1e-12 * (R + float(np.abs(np.array(centre)).max())))):
        fail("a second call with other angles of the same shape does not report the values of these angles",
             angles=[a.tolist() for a in other_angles], distance=got.tolist(), expected_distance=np.asarray(mod["interface_distance"]).tolist())
    # constructor / setter arguments: unchanged and not aliased
    pa, aa = np.array(centre, dtype=float), np.array(amps, dtype=float)
    pb, ab = pa.copy(), aa.copy()
    x = _cls()[cls_name](pa, R, 0.25, aa)
    if not (np.array_equal(pa, pb) and np.array_equal(aa, ab)):
        fail("the constructor modified its position / amplitudes argument")
    bx = x.data.tobytes()
    pa += 1.0
    aa += 0.5
    if x.data.tobytes() != bx:
        fail("the droplet aliases the position / amplitudes array passed to the constructor")
    pn, an = pb + 0.25, ab * 0.5
    pn0, an0 = pn.copy(), an.copy()
    if cls_name == "PerturbedDroplet3DAxisSym":
        pn[:2] = 0.0
        pn0 = pn.copy()
    x.position = pn
    x.amplitudes = an
    bx = x.data.tobytes()
    if not (np.array_equal(pn, pn0) and np.array_equal(an, an0)):
        fail("a setter modified the array assigned to it")
    pn += 1.0 if cls_name != "PerturbedDroplet3DAxisSym" else 0.0
    an += 0.125
    if x.data.tobytes() != bx:
        fail("the droplet aliases an array assigned through the position / amplitudes setter")
    count("constructor_and_setter_arguments", cls_name)
    return fails


def oracle_state(rng, ctx=None, rounds=1):
    """The three classes alternately with the SAME amplitude bytes and mode count (module-level caches keyed on
    these would mix the classes up), each round: check_state for every class, then the model comparison of all
    three droplets again in the reverse order."""
    fails = []

    def count(k, v):
        if ctx is not None:
            ctx.count(k, v)
    for rd in range(rounds):
        pat = [0.0] * 3
        while sum(1 for v in pat if v) < 2:
            pat = [rng.choice([0, 1, -1]) * rng.randrange(1, 9) / 8.0 for _ in range(3)]
        amps = [0.2 * norm_scale("PerturbedDroplet3D", pat) * a for a in pat]
        R = rng.choice([0.75, 2.0, 3.25])
        order = ["PerturbedDroplet2D", "PerturbedDroplet3D", "PerturbedDroplet3DAxisSym"]
        rng.shuffle(order)
        count("class_alternation_order", " -> ".join(c.replace("PerturbedDroplet", "") for c in order))
        drops = {}
        for cls_name in order:
            ctr = rand_centre(rng, cls_name, R)
            fails += check_state(cls_name, R, ctr, amps, rng, count)
            drops[cls_name] = (make(cls_name, R, ctr, amps), ctr)
            if ctx is not None:
                ctx.case(["state", rd, cls_name, R, amps])
        for cls_name in list(reversed(order)) + order:      # alternate use of long-lived droplets sharing the bytes
            dd, ctr = drops[cls_name]
            ang = np.array([0.3, 1.9, 4.4]) if cls_name == "PerturbedDroplet2D" else (np.array([0.5, 1.4, 2.6]), np.array([0.2, 3.3, 5.1]))
            base = {"class": cls_name, "initial": {"radius": R, "position": ctr, "amplitudes": amps}, "history": [
                {"step": "the three classes queried alternately with the same amplitude bytes", "order": order}]}
            fails += compare_with_model(dd, cls_name, {"radius": R, "position": ctr, "amplitudes": amps, "interface_width": 0.25},
                                        ang, "alternating classes", base)
    return fails


def oracle_audit(rng, ctx=None, n_per_class=3):
    fails = []

    def count(k, v):
        if ctx is not None:
            ctx.count(k, v)

    widths = [None, 0.0, 0.25]
    for cls_name in ("PerturbedDroplet2D", "PerturbedDroplet3D", "PerturbedDroplet3DAxisSym"):
        for i in range(n_per_class):
            R = RADII[rng.randrange(len(RADII))]
            pat = rand_pattern(rng, cls_name)
            amps = [0.2 * norm_scale(cls_name, pat) * a for a in pat]
            w = widths[(i + rng.randrange(3)) % 3]
            count("interface_width_kind", "None" if w is None else ("0.0" if w == 0 else "value"))
            count("audit_radius", R)
            fails += check_structure(cls_name, R, rand_centre(rng, cls_name, R), amps, rng, w, count)
            if ctx is not None:
                ctx.case(["structure", cls_name, R, amps, w])
        # constructor argument types: int radius, tuple / list / int-array arguments, amplitudes None for length 0
        cls = _cls()[cls_name]
        ctr = [0, 0] if cls_name == "PerturbedDroplet2D" else [0, 0, 1]
        amp = (0.05, 0) if cls_name != "PerturbedDroplet3D" else (0.05, 0, 0.02)
        ref = make(cls_name, 2.0, [float(c) for c in ctr], list(amp), 0.25)
        ang = (np.array([0.7]),) if cls_name != "PerturbedDroplet3D" else (np.array([0.7]), np.array([0.6]))
        for name, mk in (("int radius, tuple position, tuple amplitudes", lambda: cls(tuple(ctr), 2, 0.25, amp)),
                         ("numpy scalar radius, int array position, list amplitudes",
                          lambda: cls(np.array(ctr), np.float64(2), np.float32(0.25), list(amp)))):
            count("constructor_argument_types", name)
            try:
                x = mk()
                if not np.allclose(x.interface_distance(*ang), ref.interface_distance(*ang), rtol=1e-14, atol=0):
                    fails.append({"what": "the shape depends on the numeric type of the constructor arguments", "class": cls_name,
                                  "constructor": name})
            except Exception as e:
                fails.append({"what": f"constructor raised {type(e).__name__} for {name}: {e}", "class": cls_name})
        for a_none in (None, []):
            count("amplitude_array_length", "0 (amplitudes=%r)" % (a_none,))
            try:
                x = cls([float(c) for c in ctr], 1.5, 0.25, a_none)
                if not (np.allclose(x.interface_distance(*ang), 1.5, rtol=1e-15, atol=0) and len(x.amplitudes) == 0):
                    fails.append({"what": "a droplet without amplitudes is not a sphere", "class": cls_name, "amplitudes": a_none})
            except Exception as e:
                fails.append({"what": f"a droplet without amplitudes cannot be built / queried: {type(e).__name__}: {e}",
                              "class": cls_name, "amplitudes": repr(a_none)})
    return fails


# ------------------------------------------------------------------------------------------------
# translator validation: sample goals
# ------------------------------------------------------------------------------------------------
def _pairs_lit(amps):
    return "[" + "; ".join(f"({vlib.rlit(a)}, {vlib.rlit(b)})" for a, b in pairs(amps)) + "]"


def _list_lit(amps):
    return "[" + "; ".join(vlib.rlit(a) for a in amps) + "]"


def _Y_lit(values):
    arms = " | ".join(f"{k}%nat => {vlib.rlit(float(y))}" for k, y in enumerate(values, 1))
    return f"(fun k : nat => match k with {arms} | _ => 0 end)" if values else "(fun _ : nat => 0)"


def _first(x) -> float:
    """First entry of an array result (the 3-d curvature of an unperturbed droplet comes back as a scalar)."""
    return float(np.ravel(np.asarray(x, dtype=float))[0])


def _line_elements(d):
    """The line-element array computed inside PerturbedDroplet2D.surface_area (recorded from np.hypot)."""
    rec = []
    orig = np.hypot

    def spy(a, b, *args, **kw):
        out = orig(a, b, *args, **kw)
        rec.append(np.array(out, copy=True))
        return out
    np.hypot = spy
    try:
        total = float(d.surface_area)
    finally:
        np.hypot = orig
    if len(rec) != 1:
        return None, None, total
    n = len(rec[0])
    phis = np.linspace(0, 2 * np.pi, n, endpoint=False)
    return phis, rec[0], total


def _sample_goals_retry(ctx, name, req, goals, unfold, tries=3):
    """vlib.sample_goals, repeated when coqc died without any output (the signature of the kernel's OOM killer on
    the shared machine: a real Coq error always prints a message).  Nothing is retried when Coq reported anything."""
    import time
    marker = f"sample goals {name}: cannot evaluate: "
    for attempt in range(tries):
        res = vlib.sample_goals(ctx, name, req, goals, unfold)
        if marker in ctx.broken and attempt + 1 < tries:
            ctx.broken.remove(marker)
            ctx.notes.append(f"sample goals {name}: coqc died without output (killed); retried")
            time.sleep(5 + 10 * attempt)
            continue
        return res
    return res


def _sample_goals(ctx, rng):
    from droplets.tools import spherical as sp
    R_ = vlib.rlit
    goals = []

    def add(label, expr, val, scale=None):
        val = float(val)
        tol = 1e-12 * (abs(val) if scale is None else scale) + 1e-300
        goals.append((label, expr, val, tol))

    n2 = ctx.scale(4, 24)
    for i in range(n2):
        Rr = RADII[i % len(RADII)]
        n = [8, 5, 3, 6, 8, 2][i % 6]
        amps = [rng.choice([0, 1, 1, -1]) * rng.randrange(1, 13) / 256.0 for _ in range(n)]
        kind = "random"
        if i == 1:
            Rr, kind = 2.0 ** -20, "radius 2^-20"
        elif i == 3:
            Rr, kind = 2.0 ** 20, "radius 2^20"
        if i % 6 == 2:      # odd length: only the unpaired last entry non-zero
            amps, kind = [0.0] * (n - 1) + [rng.choice([1, -1]) * rng.randrange(1, 13) / 256.0], "odd length, only the last entry non-zero"
        ctr = rand_centre(rng, "PerturbedDroplet2D", Rr)
        d = make("PerturbedDroplet2D", Rr, ctr, amps)
        L = _pairs_lit(amps)
        angles = (rng.randrange(0, 403) / 64.0, rng.randrange(0, 403) / 64.0)
        if i == 0:
            angles, kind = (0.0, 2 * math.pi), "phi = 0 and 2 pi"
        ctx.count("sample_goal_kind", kind)
        for phi in angles:
            a = np.array([phi])
            add(f"dist2d R={Rr} amps={amps} phi={phi}", f"dist2d {R_(Rr)} {R_(phi)} {L}", d.interface_distance(a)[0])
            add(f"curv2d R={Rr} amps={amps} phi={phi}", f"curv2d {R_(Rr)} {R_(phi)} {L}", d.interface_curvature(a)[0])
        phi = rng.randrange(0, 403) / 64.0
        p = d.interface_position(np.array([phi]))[0]
        sc = Rr + abs(ctr[0]) + abs(ctr[1])
        add(f"pos2d_0 R={Rr} amps={amps} phi={phi}", f"pos2d_0 {R_(ctr[0])} {R_(Rr)} {R_(phi)} {L}", p[0], sc)
        add(f"pos2d_1 R={Rr} amps={amps} phi={phi}", f"pos2d_1 {R_(ctr[1])} {R_(Rr)} {R_(phi)} {L}", p[1], sc)
        add(f"vol2d R={Rr} amps={amps}", f"vol2d {R_(Rr)} {L}", d.volume)
        add(f"perim_approx2d R={Rr} amps={amps}", f"perim_approx2d {R_(Rr)} {L}", d.surface_area_approx)
        V = rng.randrange(1, 200) / 8.0
        d2 = make("PerturbedDroplet2D", Rr, ctr, amps)
        d2.volume = V
        add(f"set_vol2d V={V} amps={amps}", f"set_vol2d {R_(V)} {L}", d2.radius)
        phis, elems, total = _line_elements(d)
        if phis is None:
            # the summands are internal to surface_area; when they cannot be observed the tie of line2d is the
            # numerical comparison of surface_area with the arc length (oracle below)
            ctx.notes.append("surface_area: line elements not observable (np.hypot not called exactly once); "
                             "line2d sample goals skipped")
        else:
            if not abs(total - Rr * float(np.sum(elems)) * (2 * math.pi / len(elems))) <= 1e-12 * total:
                ctx.broken.append("surface_area is not radius * sum(line elements) * dphi")
            ctx.count("surface_quadrature_points", len(elems))
            for k in (rng.randrange(len(elems)), rng.randrange(len(elems))):
                add(f"line2d amps={amps} phi=phis[{k}]", f"line2d {R_(float(phis[k]))} {L}", elems[k])
        ctx.case(["sample2d", Rr, amps])
        ctx.count("sample_class", "PerturbedDroplet2D")
    n3 = ctx.scale(3, 16)
    for cls_name, tag in (("PerturbedDroplet3D", "3d"), ("PerturbedDroplet3DAxisSym", "3s")):
        for i in range(n3):
            Rr = RADII[(i + 2) % len(RADII)]
            n = SIZES[cls_name][(i + 1) % len(SIZES[cls_name])]
            amps = [rng.choice([0, 1, 1, -1]) * rng.randrange(1, 13) / 256.0 for _ in range(n)]
            if i == 0:      # the largest array of the class, only the last entry non-zero
                n = max(SIZES[cls_name])
                amps = [0.0] * (n - 1) + [rng.choice([1, -1]) * rng.randrange(1, 13) / 256.0]
                ctx.count("sample_goal_kind", f"{cls_name}: length {n}, only the last entry non-zero; north pole")
            ctr = rand_centre(rng, cls_name, Rr)
            d = make(cls_name, Rr, ctr, amps)
            L = _list_lit(amps)
            for j in range(2):
                th, ph = rng.randrange(20, 180) / 64.0, rng.randrange(0, 403) / 64.0
                if i == 0 and j == 0:
                    th = 0.0        # on the polar axis
                ta, pa = np.array([th]), np.array([ph])
                if cls_name == "PerturbedDroplet3D":
                    Y = [sp.spherical_harmonic_real_k(k, th, ph) for k in range(1, n + 1)]
                    dist, curv = _first(d.interface_distance(ta, pa)), _first(d.interface_curvature(ta, pa))
                else:
                    Y = [sp.spherical_harmonic_symmetric(k, th) for k in range(1, n + 1)]
                    dist, curv = _first(d.interface_distance(ta)), _first(d.interface_curvature(ta))
                Yl = _Y_lit(Y)
                add(f"dist{tag} R={Rr} amps={amps} theta={th} phi={ph}", f"dist{tag} {R_(Rr)} {Yl} {L}", dist)
                add(f"curv{tag} R={Rr} amps={amps} theta={th} phi={ph}", f"curv{tag} {R_(Rr)} {Yl} {L}", curv)
            p = d.interface_position(ta, pa)[0]
            sc = Rr + max(abs(c) for c in ctr)
            for j in range(3):
                add(f"pos{tag}_{j} R={Rr} amps={amps} theta={th} phi={ph}",
                    f"pos{tag}_{j} {R_(ctr[j])} {R_(float(dist))} {R_(th)} {R_(ph)}", p[j], sc)
            add(f"volapprox{tag} R={Rr} amps={amps}", f"volapprox{tag} {R_(Rr)} {L}", d.volume_approx)
            ctx.case([f"sample{tag}", Rr, amps])
            ctx.count("sample_class", cls_name)
    # closed forms of the harmonics (hand-written, Model/Perturbed.v) against the library's harmonics:
    # normalisation, Condon-Shortley signs and the m ordering of spherical_index_lm, every mode up to degree 4
    for rep in range(ctx.scale(1, 4)):
        for k in range(25):
            th, ph = rng.randrange(8, 194) / 64.0, rng.randrange(0, 403) / 64.0
            add(f"Yreal k={k} theta={th} phi={ph}", f"Yreal {k}%nat {R_(th)} {R_(ph)}",
                sp.spherical_harmonic_real_k(k, th, ph), 1.0)
            ctx.count("harmonic_closed_form", f"degree {int(math.isqrt(k))}")
        for l in range(5):
            th = rng.randrange(8, 194) / 64.0
            add(f"Ysym l={l} theta={th}", f"Ysym {l}%nat {R_(th)}", sp.spherical_harmonic_symmetric(l, th), 1.0)
            ctx.count("harmonic_closed_form", f"axisymmetric degree {l}")
    # the radial-graph mean-curvature formula H_radial (a definition in the Coq model) against the
    # finite-difference level-set mean curvature of the implementation's interface_distance at finite amplitude
    for cls_name, Rr, amps in (("PerturbedDroplet3D", 2.0, [0.02, -0.015, 0.01, 0.03, 0.0, -0.02, 0.01, 0.015]),
                               ("PerturbedDroplet3D", 0.75, [0.0] * 8 + [0.01, 0.0, -0.012, 0.008, 0.0, 0.0, 0.01]),
                               ("PerturbedDroplet3DAxisSym", 1.5, [0.03, -0.02, 0.015, 0.01])):
        d = make(cls_name, Rr, [0.0, 0.0, 0.0], amps)
        f = dist_fn(d, cls_name)
        th, ph = rng.randrange(40, 160) / 64.0, rng.randrange(0, 403) / 64.0
        h = 1e-3

        def r(t, q):
            return float(f(np.array([t]), np.array([q]))[0])
        r0 = r(th, ph)
        rt = (r(th + h, ph) - r(th - h, ph)) / (2 * h)
        rp = (r(th, ph + h) - r(th, ph - h)) / (2 * h)
        rtt = (r(th + h, ph) - 2 * r0 + r(th - h, ph)) / h ** 2
        rpp = (r(th, ph + h) - 2 * r0 + r(th, ph - h)) / h ** 2
        rtp = (r(th + h, ph + h) - r(th + h, ph - h) - r(th - h, ph + h) + r(th - h, ph - h)) / (4 * h ** 2)
        Hfd = float(mean_curvature_fd(f, np.array([th]), np.array([ph]), sphere_radius=Rr)[0])
        # tolerance: truncation errors of both finite-difference computations (h^2 l^4 eps ~ 1e-6) on 1/R
        goals.append((f"H_radial {cls_name} R={Rr} amps={amps} theta={th} phi={ph}",
                      f"H_radial {R_(th)} {R_(r0)} {R_(rt)} {R_(rp)} {R_(rtt)} {R_(rtp)} {R_(rpp)}", Hfd, 2e-5 / Rr))
        ctx.count("radial_graph_curvature_formula", cls_name)
    ctx.sample({"goal": f"Rabs ({goals[1][1]} - {vlib.rlit(goals[1][2])}) <= tol", "impl_value": goals[1][2]})
    req = ("From Coq Require Import Reals ZArith List.\nImport ListNotations.\n"
           "From PD Require Import Model.Num Model.NumZ Model.Perturbed Gen.Gen_spherical Gen.Gen_spherical_index "
           "Gen.Gen_perturbed Proofs.PerturbedSamples.")
    from concurrent.futures import ThreadPoolExecutor
    nsh = 12
    shards = [(f"c13_{i}", goals[i::nsh]) for i in range(nsh)]
    with ThreadPoolExecutor(6) as ex:   # 6 coqc at a time (about 0.6 GB each)
        res = list(ex.map(lambda a: _sample_goals_retry(ctx, a[0], req, a[1], ["w_one; perturbed_prep"]), shards))
    return [g for r in res for g in r]


def check(ctx: vlib.Ctx) -> int:
    import warnings
    warnings.filterwarnings("ignore")
    rng = random.Random(ctx.seed)
    gens = ["Gen_spherical", "Gen_spherical_index", "Gen_perturbed"]
    ok, fresh = vlib.prove_with_fallback(ctx, ["Proofs/C13.vo", "Proofs/PerturbedHarm.vo", "Proofs/PerturbedSamples.vo", "Model/Samples.vo"], gens=gens)
    ctx.tie.append("interval sample goals at seeded angles: every definition of the "
                   + ("regenerated" if fresh else "golden") + " Gen_perturbed evaluated inside Coq against the "
                   "implementation's values; numerical correspondence of volume / surface / positions / triangulation / "
                   "curvature with independent quadratures and finite differences")
    if ok:
        # the goals mention only Coq names of Gen_perturbed (fresh or golden text) and values computed by the
        # implementation: nothing from the translator's Python side is needed
        try:
            failed = _sample_goals(ctx, rng)
        except Exception as e:  # the implementation raised on a valid droplet: a broken obligation
            failed = []
            ctx.broken.append(f"sample-goal inputs could not be evaluated by the implementation: {type(e).__name__}: {e}")
        if not fresh:
            for label, expr, val in failed[:3]:
                ctx.violations.append({"what": "golden perturbed-droplet model and implementation differ", "found": True,
                                       "input": {"sample": label, "coq_expression": expr[:2000], "implementation_value": val}})
    big = bool(ctx.broken)
    try:
        fails = oracle(rng, ctx.scale(6, 60) * (2 if big else 1), ctx, heavy_count=ctx.scale(2, 12))
    except Exception as e:
        import traceback
        fails = [{"what": f"implementation raised {type(e).__name__}: {e}", "traceback": traceback.format_exc()[-600:]}]
    try:
        fails += oracle_state(rng, ctx, rounds=ctx.scale(1, 4))
    except Exception as e:
        import traceback
        fails.append({"what": f"implementation raised {type(e).__name__}: {e}", "traceback": traceback.format_exc()[-600:]})
    try:
        fails += oracle_sequence(rng, ctx, n_per_class=ctx.scale(1, 4))
    except Exception as e:
        import traceback
        fails.append({"what": f"implementation raised {type(e).__name__}: {e}", "traceback": traceback.format_exc()[-600:]})
    try:
        fails += oracle_audit(rng, ctx, n_per_class=ctx.scale(3, 12))
    except Exception as e:
        import traceback
        fails.append({"what": f"implementation raised {type(e).__name__}: {e}", "traceback": traceback.format_exc()[-600:]})
    try:
        sus = probe_suspected()
    except Exception as e:
        sus = {"probe": f"raised {type(e).__name__}: {e}"}
    ctx.extra["suspected_not_judged"] = [{**x, "observed": sus.get(x["id"])} for x in SUSPECTED]
    ctx.notes.append("SUSPECTED inputs (reported to the lead, not judged): " + "; ".join(
        f"{x['id']}: {sus.get(x['id'])}" for x in SUSPECTED))
    seen = set()
    for f in fails:
        key = (f["what"], f.get("class"))
        if key in seen:
            continue
        seen.add(key)
        ctx.violations.append({"what": f["what"], "input": f, "found": True, "broken": ctx.broken[:3]})
        if len(seen) >= 5:
            break
    return vlib.finish(ctx, "", TRUSTED, ASSUME, RULE)


def replay(path: str) -> int:
    import warnings
    warnings.filterwarnings("ignore")
    obj = json.load(open(path))
    print(json.dumps(obj, indent=1))
    inp = obj.get("input") or {}
    rng = random.Random(0)
    if "amplitude_pattern" in inp:
        fails = check_droplet(inp["class"], inp["radius"], inp["position"], inp["amplitude_pattern"], rng)
    else:
        fails = oracle(rng, 3)
    print("oracle failures on the current tree:", len(fails))
    for f in fails[:5]:
        print("  ", f["what"])
    return 1 if fails else 0
