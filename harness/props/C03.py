"""C03 -- a rendered phase field is a faithful, finite picture of the droplet.

(a) proofs: Properties/C03.v over Gen_shapes (regenerated from the current source; golden fallback)
(b) interval sample goals: generated profile / scaling expressions vs values computed by the implementation
(c) D-layer correspondence inside Coq: sharp masks of spheres / emulsions on Cartesian grids and of centred / on-axis
    spheres / emulsions on PolarSym, SphericalSym and CylindricalSym grids (exact, CD inputs), the angle computation
    of polar_coordinates (all grid families), the emulsion sum/clip on rationals
(d) property oracle (Python, from the property text) on the real implementation: all five classes,
    every compatible grid family

Input dimensions of the streams (notes/input_dimensions.md; every one is counted in the evidence histogram):
grid geometry (1-/2-cell axes, unequal cell counts and spacings in both orders, origin centred / positive / negative,
every periodicity mask, inner radius > 0, narrow finely sliced / flat wide cylinders, dr vs dz), centre on cell
centres / faces / vertices, next to and beyond every face and corner of the periodic axes, touching non-periodic
faces, radius 0 / tiny / knife edge, width None / 0 / positive, amplitude vectors of length 0 / 1 / odd / even with
the last entry (non-)zero, vmin/vmax ordered / mirrored / equal / negative, numeric types of all arguments (int,
float, numpy scalars, 0-d arrays, float32, tuples, lists, strided views), image dtypes (float16/32/64, int, int8,
uint8, bool), keyword defaults / None / explicit, provenance of the droplet (copy, deepcopy, pickle, shared record,
assigned attributes, member of an emulsion / track / time course, rendered before), emulsions of 0 / 1 / up to 40
members of one or several classes built by nine routes, and after every rendering: the caller's droplet, argument
arrays, emulsion and grid are what they were; a second rendering is identical and lives in fresh memory; a result of
the wrong class / dtype / shape or an undocumented exception is a failure with that input.

State kept between calls (input_dimensions 8; histogram keys sequence_*): pools of grids, droplets and emulsions that
are built once and used by 10-20 calls -- the same droplet on grid A, then on a grid B that shares shape / spacing /
mean spacing / cell volume / periodicity with A but differs otherwise (other origin, other period, no periodic axis,
spacings of two axes swapped, other inner radius, z range shifted, dr and dz swapped), then on A again, in both orders,
with the centre outside the box of the periodic grid; twin droplets (same bytes but for the centre / the radius / the
width / the order or sign of the amplitudes); typed images; emulsions (of the very member objects and of copies)
rendered after their members; a rejected call in between; an earlier call repeated; the caller overwriting an output
it holds.  Every call must equal (1) the same call on fresh equal objects, bit for bit, (2) the same call on fresh
objects in a process forked before this process rendered anything (module- or class-level state cannot have been
touched there), (3) the geometry of the spec (judge_picture); after every call the droplets, emulsions, argument
arrays, shared vmin / vmax objects, the arrays the grids cache (cell_coords, cell_volumes, ...) and all earlier
outputs are what they were.  gen_shapes.state_guard refuses (golden fallback, doubled sequence stream) caching
decorators, global / nonlocal, module-level containers, `__dict__` / function attributes, and in-place operators, item
assignments, `out=` and mutating methods on (aliases of) arguments in every function of the rendering path.
"""
from __future__ import annotations

import itertools
import json
import logging
import math
import random
import warnings
from fractions import Fraction

import numpy as np

import vlib

warnings.simplefilter("ignore")
logging.disable(logging.WARNING)

EPS = 2.0 ** -52
KNIFE = 1e-9  # relative width of the excluded knife edge d = R (float evaluation of a real statement)

TRUSTED = [
    "Coq 8.16.1 kernel + vm_compute (no native_compute)",
    "harness/gen_shapes.py + harness/translate.py (Python-ast translator of the _get_phase_field bodies, the scaling "
    "line and Emulsion.get_phasefield; validated by interval sample goals and by the correspondence on every run)",
    "Interval tactic (sample goals only)",
    "py-pde 0.58.0 grid geometry (cell_coords, transform, difference_vector) -- modelled in Model/Grid.v as it computes, "
    "compared cell by cell inside Coq on coarse-dyadic inputs; CylindricalSymGrid.difference_vector never wraps z "
    "(dependency behaviour, modelled as is)",
    "numpy elementwise semantics: bool.astype(float) in {0.0, 1.0}, np.clip = minimum(maximum(x, lo), hi), "
    "ScalarField(grid) = zeros (checked per sample)",
    "Model/RenderSym.v (cell centres of PolarSym / SphericalSym / CylindricalSym grids as py-pde computes them; "
    "compared cell by cell inside Coq on coarse-dyadic inputs)",
    "scipy.special.sph_harm_y (harmonics of the perturbed 3-d classes; compared with an independent Legendre "
    "recurrence in the oracle)",
    "os.fork: the reference evaluations of the sequence oracle run in children of four servers forked from the check "
    "process before it renders anything (one child per call, fresh objects)",
]
ASSUME = [
    "R-layer theorems are over Coq's reals; the implementation evaluates in binary64, so statements about the "
    "midpoint are compared outside a relative knife edge |d - R| <= 1e-9 max(d, R) and outside the value resolution "
    "8 ulp of max(|vmin|, |vmax|)",
    "the sharp comparison norm(diff) < radius is modelled on squares (0 <= r and |diff|^2 < r^2); exact for the "
    "coarse-dyadic inputs of the correspondence (multiples of 2^-6, magnitude < 2^7)",
    "interface distance of perturbed shapes is an abstract real in the theorems (direction dependence is C13); the "
    "oracle recomputes it independently",
    "for vmin > vmax the inside value is the smaller one: `exceeds the midpoint` is read mirrored (below the "
    "midpoint iff inside); for vmin = vmax the field is constant and no midpoint statement is made",
    "compatible grid = droplet on the symmetry centre/axis for PolarSym/SphericalSym/CylindricalSym grids",
    "`_get_phase_field(grid, dtype)` with an integer dtype truncates the smooth profile (numpy astype): for such "
    "images only the clauses `values in {0, 1}`, `1 only inside` and, for sharp droplets, `= indicator` are judged; "
    "float16/float32 images are judged like the float64 image with the resolution of their dtype",
    "the `label` keyword is varied and its fate counted (`label_keyword`), not judged: labels are not part of the "
    "property (measured: Emulsion.get_phasefield ignores `label` for an empty emulsion)",
]
SUSPECTED: list = []  # inputs of the extended streams that make the unchanged tree fail (none found): reported, not judged
RULE = ("one evaluation = one (droplet, grid, vmin/vmax) rendering or one roll / emulsion / dimension-mismatch / "
        "mask-correspondence (Cartesian or symmetric grid) / angle / sample-goal case or one sequence of 10-20 calls on "
        "a shared pool of objects; distinct = sha1 of the canonical case description; a case is "
        "non-trivial when the image is neither constant nor empty of inside cells (roll, emulsion, mask cases: "
        "at least one inside and one outside cell), sample goals always")

DEPS = ["Proofs/C03.vo", "Proofs/RenderSym.vo", "Model/Samples.vo"]
CLASSES = ["SphericalDroplet", "DiffuseDroplet", "PerturbedDroplet2D", "PerturbedDroplet3D",
           "PerturbedDroplet3DAxisSym"]
VPAIRS = [(0.0, 1.0), (-1.0, 1.0), (0.25, 0.75), (1.0, 0.0), (2.0, -3.0), (0.5, 0.5), (0.1, 0.7), (-2.5, -0.5)]


# =========================================================================================
# building grids and droplets from JSON-able specs
# =========================================================================================
def make_grid(gs: dict):
    from pde import CartesianGrid, CylindricalSymGrid, PolarSymGrid, SphericalSymGrid
    fam = gs["family"]
    if fam == "cartesian":
        return CartesianGrid([tuple(b) for b in gs["bounds"]], list(gs["shape"]), periodic=list(gs["periodic"]))
    if fam == "polar":
        return PolarSymGrid(tuple(gs["radius"]), gs["shape"])
    if fam == "spherical":
        return SphericalSymGrid(tuple(gs["radius"]), gs["shape"])
    if fam == "cylindrical":
        return CylindricalSymGrid(gs["radius"], tuple(gs["bounds_z"]), list(gs["shape"]), periodic_z=gs["periodic_z"])
    raise ValueError(fam)


def grid_dim(gs: dict) -> int:
    if gs["family"] == "cartesian":
        return len(gs["shape"])
    return {"polar": 2, "spherical": 3, "cylindrical": 3}[gs["family"]]


# ---- argument kinds (numeric types of the constructor / keyword arguments) and provenance of the droplet object.
# A spec may carry ds["ctor"] = {"pos": <POS_KINDS>, "num": <NUM_KINDS>, "amp": <POS_KINDS>} and ds["prov"] in PROVENANCES;
# a kind that cannot represent the value exactly (int for 0.5, float32 for 0.1) silently falls back to the default
# kind, so the geometry of the spec is never changed by the choice of the type.
POS_KINDS = ["ndarray", "list", "tuple", "int list", "float32 array", "strided view"]
NUM_KINDS = ["float", "int", "np.float64", "np.float32", "0-d array", "np.int64"]
PROVENANCES = ["fresh", "copy()", "copy.deepcopy", "pickle", "from_data (shared record)", "attributes assigned",
               "emulsion member", "emulsion.copy() member", "unpickled emulsion member", "emulsion copy=False member",
               "track member", "time course member", "rendered before on another grid"]


def _f32_exact(x) -> bool:
    return float(np.float32(x)) == float(x)


def num_kind_used(x, kind: str) -> str:
    if x is None:
        return "None"
    if kind in ("int", "np.int64"):
        return kind if float(x).is_integer() and abs(float(x)) < 2 ** 53 else "float"
    if kind == "np.float32":
        return kind if _f32_exact(x) else "float"
    return kind if kind in NUM_KINDS else "float"


def as_num(x, kind: str):
    k = num_kind_used(x, kind)
    if k == "None":
        return None
    if k == "int":
        return int(x)
    if k == "np.int64":
        return np.int64(int(x))
    if k == "np.float64":
        return np.float64(x)
    if k == "np.float32":
        return np.float32(x)
    if k == "0-d array":
        return np.array(float(x))
    return float(x)


def pos_kind_used(xs, kind: str) -> str:
    if kind == "int list":
        return kind if all(float(x).is_integer() for x in xs) else "ndarray"
    if kind == "float32 array":
        return kind if all(_f32_exact(x) for x in xs) else "ndarray"
    return kind if kind in POS_KINDS else "ndarray"


def as_vec(xs, kind: str):
    k = pos_kind_used(xs, kind)
    xs = [float(x) for x in xs]
    if k == "list":
        return xs
    if k == "tuple":
        return tuple(xs)
    if k == "int list":
        return [int(x) for x in xs]
    if k == "float32 array":
        return np.array(xs, dtype=np.float32)
    if k == "strided view":  # a non-contiguous view into a larger array owned by the caller
        big = np.zeros(2 * len(xs) + 1)
        big[:] = -77.0
        big[1::2] = xs
        return big[1::2]
    return np.array(xs, dtype=float)


def _arr_state(a):
    return lambda: (str(a.dtype), a.shape, a.tobytes())


def _witness(name, obj):
    """[(name, function returning the current state of the caller's object, state now)] for mutable argument objects"""
    if isinstance(obj, np.ndarray):
        out = [(name, _arr_state(obj), _arr_state(obj)())]
        if obj.base is not None:
            out.append((name + " (owner of the view)", _arr_state(obj.base), _arr_state(obj.base)()))
        return out
    if isinstance(obj, list):
        return [(name, lambda: repr(obj), repr(obj))]
    return []


def witnesses_changed(wit) -> list[str]:
    """names of the caller's objects whose state differs from the recorded one"""
    return [name for name, fn, snap in wit if fn() != snap]


def droplet_state(drop):
    """everything a droplet object stores: class, record layout, record bytes"""
    return (type(drop).__name__, drop.data.dtype, drop.data.tobytes())


def construct_droplet(ds: dict, wit: list | None = None):
    """the droplet of the spec, built with the argument kinds of ds["ctor"] (no provenance step)"""
    import droplets.droplets as dd
    cls = getattr(dd, ds["cls"])
    ck = ds.get("ctor") or {}
    pos = as_vec(ds["position"], ck.get("pos", "ndarray"))
    radius = as_num(ds["radius"], ck.get("num", "float"))
    args = [pos, radius]
    if ds["cls"] != "SphericalDroplet":
        args.append(as_num(ds["width"], ck.get("num", "float")))
    if ds["cls"].startswith("Perturbed"):
        args.append(as_vec(ds["amplitudes"], ck.get("amp", "list")) if ck.get("amp", "list") != "list"
                    else list(ds["amplitudes"]))
    if wit is not None:
        wit += _witness("position argument", pos)
        if ds["cls"].startswith("Perturbed"):
            wit += _witness("amplitudes argument", args[-1])
    return cls(*args)


def apply_provenance(drop, ds: dict, wit: list | None = None):
    """the same droplet reached through another route (input_dimensions 3)"""
    import copy as _copy
    import pickle as _pickle
    prov = ds.get("prov", "fresh")
    if prov == "fresh":
        return drop
    from droplets.emulsions import Emulsion, EmulsionTimeCourse
    keep = lambda name, o: wit.append((name, lambda: droplet_state(o), droplet_state(o))) if wit is not None else None  # noqa: E731
    if prov == "copy()":
        keep("the droplet that was copied", drop)
        return drop.copy()
    if prov == "copy.deepcopy":
        keep("the droplet that was deep-copied", drop)
        return _copy.deepcopy(drop)
    if prov == "pickle":
        return _pickle.loads(_pickle.dumps(drop))
    if prov == "from_data (shared record)":
        keep("the droplet sharing its record", drop)
        return type(drop).from_data(drop.data)
    if prov == "attributes assigned":
        other = dict(ds)
        other["position"] = [x + (1.5 if k == len(ds["position"]) - 1 or not ds["cls"].endswith("AxisSym") else 0.0)
                             for k, x in enumerate(ds["position"])]
        other["radius"] = ds["radius"] + 0.75
        if "width" in ds:
            other["width"] = 0.5 if ds["width"] is None else None
        if "amplitudes" in ds:
            other["amplitudes"] = [0.25] * len(ds["amplitudes"])
        d2 = construct_droplet({k: v for k, v in other.items() if k != "ctor"})
        ck = ds.get("ctor") or {}
        d2.position = as_vec(ds["position"], ck.get("pos", "ndarray"))
        d2.radius = as_num(ds["radius"], ck.get("num", "float"))
        if "width" in ds and ds["cls"] != "SphericalDroplet":
            d2.interface_width = as_num(ds["width"], ck.get("num", "float"))
        if ds["cls"].startswith("Perturbed"):
            d2.amplitudes = list(ds["amplitudes"])
        return d2
    if prov == "emulsion member":
        keep("the droplet handed to Emulsion()", drop)
        return Emulsion([drop])[0]
    if prov == "emulsion.copy() member":
        return Emulsion([drop, drop]).copy()[1]
    if prov == "unpickled emulsion member":
        return _pickle.loads(_pickle.dumps(Emulsion([drop])))[0]
    if prov == "emulsion copy=False member":
        e = Emulsion([drop], copy=False)
        return e[0]
    if prov == "track member":
        from droplets.droplet_tracks import DropletTrack
        return DropletTrack(droplets=[drop], times=[0]).droplets[0]
    if prov == "time course member":
        return EmulsionTimeCourse([Emulsion([drop])], [0.0])[0][0]
    if prov == "rendered before on another grid":
        from pde import CartesianGrid
        dim = len(ds["position"])
        with np.errstate(all="ignore"):
            drop.get_phase_field(CartesianGrid([(-1, 2)] * dim, [2] * dim, periodic=[True] + [False] * (dim - 1)),
                                 vmin=-3, vmax=5)
        return drop
    raise ValueError(prov)


def make_droplet(ds: dict, wit: list | None = None):
    return apply_provenance(construct_droplet(ds, wit), ds, wit)


def exc_kind(e: BaseException) -> str:
    n = type(e).__name__
    return n if n in ("ValueError", "TypeError", "DimensionError", "NotImplementedError", "ZeroDivisionError",
                      "FloatingPointError", "IndexError", "AttributeError") else "Other:" + n


# =========================================================================================
# independent reference geometry (from the property text: distance under the grid's periodic metric,
# direction of the cell as seen from the centre)
# =========================================================================================
def ref_geometry(gs: dict, pos):
    """-> dist, angles (tuple), ambiguous-direction mask, typical discretization"""
    fam = gs["family"]
    pos = [float(p) for p in pos]
    if fam == "cartesian":
        axes, hs = [], []
        for (lo, hi), n in zip(gs["bounds"], gs["shape"]):
            h = (hi - lo) / n
            axes.append(lo + (np.arange(n) + 0.5) * h)
            hs.append(h)
        mesh = np.meshgrid(*axes, indexing="ij")
        diffs, amb = [], np.zeros(mesh[0].shape, bool)
        for k, m in enumerate(mesh):
            d = m - pos[k]
            if gs["periodic"][k]:
                L = gs["bounds"][k][1] - gs["bounds"][k][0]
                d = d - L * np.floor(d / L + 0.5)
                amb |= np.abs(np.abs(d) - L / 2) <= KNIFE * L
            diffs.append(d)
        typ = float(np.mean(hs))
    elif fam in ("polar", "spherical"):
        r0, r1 = gs["radius"]
        n = gs["shape"]
        h = (r1 - r0) / n
        r = r0 + (np.arange(n) + 0.5) * h
        zero = np.zeros_like(r)
        diffs = [r, zero] if fam == "polar" else [zero, zero, r]  # cells along x (polar) / along z (spherical)
        amb = np.zeros(r.shape, bool)
        typ = float(h)
    elif fam == "cylindrical":
        nr, nz = gs["shape"]
        z0, z1 = gs["bounds_z"]
        hr, hz = gs["radius"] / nr, (z1 - z0) / nz
        r = (np.arange(nr) + 0.5) * hr
        z = z0 + (np.arange(nz) + 0.5) * hz
        R, Z = np.meshgrid(r, z, indexing="ij")
        # py-pde 0.58.0 never wraps z on a periodic cylinder (dependency behaviour, modelled as is)
        diffs = [R, np.zeros_like(R), Z - pos[2]]
        amb = np.zeros(R.shape, bool)
        typ = float((hr + hz) / 2)
    else:
        raise ValueError(fam)
    dist = np.sqrt(sum(d * d for d in diffs))
    dim = len(diffs)
    if dim == 1:
        angles = (np.sign(diffs[0]),)
    elif dim == 2:
        angles = (np.arctan2(diffs[1], diffs[0]),)
    else:
        with np.errstate(all="ignore"):
            ct = np.where(dist > 0, diffs[2] / np.where(dist > 0, dist, 1.0), 1.0)
        angles = (np.arccos(np.clip(ct, -1.0, 1.0)), np.arctan2(diffs[1], diffs[0]))
    return dist, angles, amb, typ


def _legendre(l: int, m: int, x):
    """associated Legendre function P_l^m(x) with Condon-Shortley phase, 0 <= m <= l (standard recurrence)"""
    x = np.asarray(x, dtype=float)
    pmm = np.ones_like(x)
    if m > 0:
        s = np.sqrt(np.maximum(0.0, (1.0 - x) * (1.0 + x)))
        f = 1.0
        for _ in range(m):
            pmm = -pmm * f * s
            f += 2.0
    if l == m:
        return pmm
    pm1 = x * (2 * m + 1) * pmm
    if l == m + 1:
        return pm1
    for ll in range(m + 2, l + 1):
        pll = ((2 * ll - 1) * x * pm1 - (ll + m - 1) * pmm) / (ll - m)
        pmm, pm1 = pm1, pll
    return pm1


def _ylm_real(l: int, m: int, theta, phi):
    am = abs(m)
    norm = math.sqrt((2 * l + 1) / (4 * math.pi) * math.factorial(l - am) / math.factorial(l + am))
    p = _legendre(l, am, np.cos(theta))
    if m == 0:
        return norm * p
    if m > 0:
        return (-1) ** m * math.sqrt(2) * norm * p * np.cos(m * phi)
    return (-1) ** m * math.sqrt(2) * norm * p * np.sin(am * phi)


def ref_interface(ds: dict, angles):
    """interface distance in the direction of every cell, recomputed from the class documentation"""
    cls, R = ds["cls"], float(ds["radius"])
    if cls in ("SphericalDroplet", "DiffuseDroplet"):
        return np.full(np.shape(angles[0]), R)
    amps = [float(a) for a in ds["amplitudes"]]
    s = np.ones(np.shape(angles[0]))
    if cls == "PerturbedDroplet2D":
        phi = angles[0]
        for n in range(1, (len(amps) + 1) // 2 + 1):
            a = amps[2 * n - 2]
            b = amps[2 * n - 1] if 2 * n - 1 < len(amps) else 0.0
            s = s + a * np.sin(n * phi) + b * np.cos(n * phi)
    elif cls == "PerturbedDroplet3D":
        theta, phi = angles
        for k, a in enumerate(amps, 1):
            l = math.isqrt(k)
            s = s + a * _ylm_real(l, k - l * (l + 1), theta, phi)
    elif cls == "PerturbedDroplet3DAxisSym":
        theta = angles[0]
        for l, a in enumerate(amps, 1):
            s = s + a * _ylm_real(l, 0, theta, 0.0)
    else:
        raise ValueError(cls)
    return R * s


def amp_sensitivity(ds: dict) -> float:
    """bound on |d interface / d angle| / radius (for the ambiguity of directions near the centre)"""
    amps = [abs(float(a)) for a in ds.get("amplitudes", [])]
    if ds["cls"] == "PerturbedDroplet2D":
        return sum(((k // 2) + 1) * a for k, a in enumerate(amps))
    return sum((math.isqrt(k) + 1) ** 2 * a for k, a in enumerate(amps, 1))


# =========================================================================================
# the property oracle for one rendering
# =========================================================================================
# dtypes handed to `_get_phase_field(grid, dtype)` besides float (public path) and bool (always rendered)
EXTRA_DTYPES = {"float32": np.float32, "float16": np.float16, "float64": np.float64, "str f4": "f4",
                "np.dtype(float32)": np.dtype("float32"), "int": int, "int8": np.int8, "uint8": np.uint8,
                "np.bool_": np.bool_}


def v_kind_used(vmin: float, vmax: float, kind: str) -> str:
    """numeric type actually used for vmin / vmax: exact representation of both (and, for float32, of their
    difference, which get_phase_field forms in the type of the arguments) or the default float"""
    if num_kind_used(vmin, kind) != kind or num_kind_used(vmax, kind) != kind:
        return "float"
    if kind == "np.float32" and float(np.float32(vmax) - np.float32(vmin)) != vmax - vmin:
        return "float"
    return kind


def judge_typed_image(x, name, inside, ok, w_eff, iface, dist, fail):
    """`_get_phase_field(grid, dtype)` for a dtype other than float: result kind, range, inside/outside"""
    want = np.dtype(EXTRA_DTYPES[name])
    x = np.asarray(x)
    if x.dtype != want:
        fail(f"_get_phase_field(dtype={name}) returned dtype {x.dtype}")
        return
    if x.shape != dist.shape:
        fail(f"_get_phase_field(dtype={name}) has shape {x.shape}, grid has {dist.shape}")
        return
    kind = x.dtype.kind
    if kind == "b":
        if np.any((x != inside) & ok):
            idx = tuple(int(i) for i in np.argwhere((x != inside) & ok)[0])
            fail(f"boolean image (dtype={name}) differs from `distance < interface distance`", cell=idx)
        return
    xf = x.astype(float)
    if not np.all(np.isfinite(xf)):
        fail(f"image of dtype {name} is not finite")
        return
    eps = float(np.finfo(x.dtype).eps) if kind == "f" else 0.0
    if xf.min() < -8 * eps or xf.max() > 1 + 8 * eps:
        fail(f"image of dtype {name} leaves [0, 1]", value=float(xf.min() if xf.min() < 0 else xf.max()))
    if w_eff == 0:
        bad = (xf != inside.astype(float)) & ok
        if np.any(bad):
            idx = tuple(int(i) for i in np.argwhere(bad)[0])
            fail(f"sharp droplet rendered with dtype {name} is not the indicator", cell=idx, value=float(xf[idx]))
    elif kind == "f":
        with np.errstate(all="ignore"):
            margin = 0.5 * np.abs(np.tanh((iface - dist) / w_eff))
        res_ok = ok & (margin > 16 * eps)
        bad = ((xf > 0.5) != inside) & res_ok
        if np.any(bad):
            idx = tuple(int(i) for i in np.argwhere(bad)[0])
            fail(f"image of dtype {name}: cell is above the midpoint although outside (or vice versa)", cell=idx,
                 value=float(xf[idx]), dist=float(dist[idx]), interface=float(iface[idx]))
    else:
        # integer image of a smooth profile = truncation: only the two levels, and level 1 only inside
        if np.any((xf != 0) & (xf != 1)):
            fail(f"integer image (dtype={name}) has values other than 0 and 1")
        bad = (xf > 0.5) & ~inside & ok
        if np.any(bad):
            idx = tuple(int(i) for i in np.argwhere(bad)[0])
            fail(f"integer image (dtype={name}) is 1 in a cell outside the interface", cell=idx)


def check_render(case: dict, hist=None) -> list[dict]:
    """All single-image clauses of the property text on the real implementation.  A result of the wrong kind
    (class, dtype, shape, NaN, complex, undocumented exception) is a failure with this input, never a crash."""
    out = []
    try:
        _check_render(case, hist, out)
    except Exception as e:  # the oracle itself could not digest what the implementation returned
        out.append({"what": f"result of the wrong kind: the oracle could not evaluate it ({exc_kind(e)}: {e})",
                    "check": "render", "input": case})
    return out


def _check_render(case: dict, hist, out: list) -> None:
    gs, ds, vmin, vmax = case["grid"], case["droplet"], float(case["vmin"]), float(case["vmax"])

    def fail(what, **kw):
        out.append({"what": what, "check": "render", "input": case, **kw})

    wit: list = []
    try:
        grid = make_grid(gs)
        drop = make_droplet(ds, wit)
    except Exception as e:  # valid inputs by construction
        if hist is not None:
            hist("exception", "construct:" + exc_kind(e))
        fail(f"constructing a valid droplet/grid raised {exc_kind(e)}: {e}")
        return
    state0 = droplet_state(drop)
    grid_state0 = json.dumps(grid.state, sort_keys=True, default=str)
    vk = v_kind_used(vmin, vmax, case.get("vkind", "float"))
    kw = {}
    if not (case.get("vkw") == "omitted" and (vmin, vmax) == (0.0, 1.0)):
        kw = {"vmin": as_num(vmin, vk), "vmax": as_num(vmax, vk)}
    if "label" in case:
        kw["label"] = case["label"]
    extra = case.get("extra")
    typed = res2 = None
    try:
        with np.errstate(all="ignore"):
            res = drop.get_phase_field(grid, **kw)
            fb = np.asarray(drop._get_phase_field(grid, dtype=bool))
            if extra:
                dt = EXTRA_DTYPES[extra["dtype"]]
                typed = drop._get_phase_field(grid, dt) if extra.get("how") == "pos" else \
                    drop._get_phase_field(grid, dtype=dt)
            if case.get("repeat"):
                res2 = drop.get_phase_field(grid, **kw)
    except Exception as e:
        if hist is not None:
            hist("exception", "render:" + exc_kind(e))
        fail(f"rendering raised {exc_kind(e)}: {e}")
        return
    if hist is not None:
        hist("exception", "none")
    # ---- the caller's objects are what they were
    if droplet_state(drop) != state0:
        fail("rendering changed the droplet object")
    for name in witnesses_changed(wit):
        fail(f"rendering changed the caller's object: {name}")
    if json.dumps(grid.state, sort_keys=True, default=str) != grid_state0:
        fail("rendering changed the grid object")
    # ---- kind of the result
    from pde import ScalarField
    if not isinstance(res, ScalarField):
        fail(f"get_phase_field returned {type(res).__name__}, documented: ScalarField")
        return
    if res.grid is not grid and res.grid != grid:
        fail("the returned field lives on another grid")
    f = np.asarray(res.data)
    if f.dtype.kind != "f":
        fail(f"field data has dtype {f.dtype}, expected real floating point")
        return
    if hist is not None and "label" in case:
        hist("label_keyword", f"label={'None' if case['label'] is None else 'str'} -> field.label "
                              f"{'kept' if res.label == case['label'] else 'differs (measured, not judged)'}")
    judge_picture(case, f, fb, typed, res2, hist, fail)


def judge_picture(case: dict, f, fb, typed, res2, hist, fail) -> None:
    """the clauses of the property text for one float image `f` (scaled with the case's vmin / vmax), optionally the
    boolean image `fb`, a typed image and a second rendering, judged against the geometry of the SPEC (state-free
    reference: nothing here depends on what the implementation did before)"""
    gs, ds, vmin, vmax = case["grid"], case["droplet"], float(case["vmin"]), float(case["vmax"])
    extra = case.get("extra")
    dist, angles, amb, typ = ref_geometry(gs, ds["position"])
    if f.shape != dist.shape or (fb is not None and fb.shape != dist.shape):
        fail(f"field has shape {f.shape}, grid has {dist.shape}")
        return
    if fb is not None and fb.dtype != np.dtype(bool):
        fail(f"_get_phase_field(dtype=bool) returned dtype {fb.dtype}")
        return
    # ---- finite
    if not np.all(np.isfinite(f)):
        idx = tuple(int(i) for i in np.argwhere(~np.isfinite(f))[0])
        fail("field is not finite", cell=idx, value=str(f[idx]))
        return
    # ---- rendering again gives the same picture in fresh memory
    if res2 is not None:
        f2 = np.asarray(res2.data)
        if f2.shape != f.shape or not np.array_equal(f2, f):
            fail("rendering the same droplet twice gives different fields")
        elif np.shares_memory(f2, f):
            fail("two renderings share their memory")
    # ---- between vmin and vmax
    scale = max(abs(vmin), abs(vmax), abs(vmax - vmin))
    tol = 8 * EPS * scale
    lo, hi = min(vmin, vmax), max(vmin, vmax)
    if f.min() < lo - tol or f.max() > hi + tol:
        idx = tuple(int(i) for i in np.argwhere((f < lo - tol) | (f > hi + tol))[0])
        fail("value outside [vmin, vmax]", cell=idx, value=float(f[idx]))
    # ---- inside / outside
    iface = ref_interface(ds, angles)
    inside = dist < iface
    knife = np.abs(dist - iface) <= KNIFE * np.maximum(np.maximum(np.abs(dist), np.abs(iface)), 1e-300)
    perturbed = ds["cls"].startswith("Perturbed")
    if perturbed:
        # the direction of a cell (almost) on the centre or half a period away is not determined
        sens = amp_sensitivity(ds) * abs(float(ds["radius"]))
        knife |= amb & (sens > 0)
        if sens > 0:
            with np.errstate(all="ignore"):
                knife |= np.abs(dist - iface) <= 64 * EPS * sens * (1 + typ * 64 / np.maximum(dist, 1e-300))
    w = ds.get("width", 0.0) if ds["cls"] != "SphericalDroplet" else 0.0
    w_eff = typ if w is None else float(w)
    ok = ~knife
    if hist is not None:
        hist("cells", "excluded: knife edge / undetermined direction", int(knife.sum()))
        hist("cells", "compared with the geometry", int(ok.sum()))
    # dtype=bool image: the indicator
    if fb is not None and np.any((fb != inside) & ok):
        idx = tuple(int(i) for i in np.argwhere((fb != inside) & ok)[0])
        fail("boolean image differs from `distance < interface distance`", cell=idx, image=bool(fb[idx]),
             dist=float(dist[idx]), interface=float(iface[idx]))
    if typed is not None:
        judge_typed_image(typed, extra["dtype"], inside, ok, w_eff, iface, dist, fail)
    v_in, v_out = vmax, vmin
    if w_eff == 0:
        exp_ = np.where(inside, v_in, v_out)
        bad = (np.abs(f - exp_) > tol) & ok
        if np.any(bad):
            idx = tuple(int(i) for i in np.argwhere(bad)[0])
            fail("sharp droplet is not the indicator", cell=idx, value=float(f[idx]), expected=float(exp_[idx]),
                 dist=float(dist[idx]), interface=float(iface[idx]))
    elif vmin != vmax:
        mid = (vmin + vmax) / 2
        with np.errstate(all="ignore"):
            margin = 0.5 * np.abs(np.tanh((iface - dist) / w_eff)) * abs(vmax - vmin)
        res_ok = ok & (margin > 16 * EPS * scale)  # value resolution near the midpoint
        if hist is not None:
            hist("cells", "excluded: midpoint below value resolution", int((ok & ~res_ok).sum()))
        side = (f > mid) if vmin < vmax else (f < mid)
        bad = (side != inside) & res_ok
        if np.any(bad):
            idx = tuple(int(i) for i in np.argwhere(bad)[0])
            fail("cell is on the inside-value side of the midpoint although outside (or vice versa)", cell=idx,
                 value=float(f[idx]), midpoint=mid, dist=float(dist[idx]), interface=float(iface[idx]))
    else:
        if np.any(np.abs(f - vmin) > tol):
            fail("vmin == vmax but the field is not constant")
    # ---- spherical classes: value never increases with distance
    if not perturbed:
        order = np.argsort(dist.ravel(), kind="stable")
        keep = ok.ravel()[order]
        fs = f.ravel()[order][keep]
        dsrt = dist.ravel()[order][keep]
        if fs.size > 1:
            mtol = tol + (8 * EPS * float(dsrt.max() + 1) / w_eff * abs(vmax - vmin) if w_eff > 0 else 0.0)
            inc = np.diff(fs) if vmin <= vmax else -np.diff(fs)
            if np.any(inc > mtol):
                j = int(np.argmax(inc > mtol))
                fail("value increases with distance", dist_pair=[float(dsrt[j]), float(dsrt[j + 1])],
                     value_pair=[float(fs[j]), float(fs[j + 1])])
    case["_nontrivial"] = bool(inside.any() and (~inside).any())
    case["_knife_cells"] = int(knife.sum())
    if hist is not None and gs["family"] == "cylindrical" and gs["periodic_z"]:
        # measured, not judged: py-pde 0.58.0 wraps the Cartesian y component with the z period, i.e. never wraps z
        Lz = gs["bounds_z"][1] - gs["bounds_z"][0]
        nr, nz = gs["shape"]
        r = (np.arange(nr) + 0.5) * gs["radius"] / nr
        z = gs["bounds_z"][0] + (np.arange(nz) + 0.5) * Lz / nz
        RR, ZZ = np.meshgrid(r, z, indexing="ij")
        dz = ZZ - float(ds["position"][2])
        dz = dz - Lz * np.floor(dz / Lz + 0.5)
        dw = np.sqrt(RR * RR + dz * dz)
        differs = bool(np.any(np.abs(dw - dist) > KNIFE * (1 + dist)))
        hist("dependency_behaviour_periodic_cylinder",
             "distance differs from the z-periodic metric (py-pde never wraps z)" if differs
             else "same distances as the z-periodic metric")


def check_roll(case: dict, hist=None) -> list[dict]:
    """translating by k cells along a periodic axis = np.roll by k cells"""
    gs, ds, ax, k = case["grid"], case["droplet"], case["axis"], case["k"]
    vmin, vmax = float(case["vmin"]), float(case["vmax"])
    out = []
    try:
        grid = make_grid(gs)
        h = (gs["bounds"][ax][1] - gs["bounds"][ax][0]) / gs["shape"][ax]
        ds2 = dict(ds)
        p = list(ds["position"])
        p[ax] = p[ax] + k * h
        ds2["position"] = p
        with np.errstate(all="ignore"):
            f1 = np.asarray(make_droplet(ds).get_phase_field(grid, vmin=vmin, vmax=vmax).data)
            f2 = np.asarray(make_droplet(ds2).get_phase_field(grid, vmin=vmin, vmax=vmax).data)
    except Exception as e:
        if hist is not None:
            hist("exception", "roll:" + exc_kind(e))
        return [{"what": f"rendering raised {exc_kind(e)}: {e}", "check": "roll", "input": case}]
    rolled = np.roll(f1, k, axis=ax)
    if case["exact"]:
        bad = ~((f2 == rolled) | (np.isnan(f2) & np.isnan(rolled)))
        if not np.all(np.isfinite(f2)):
            bad |= ~np.isfinite(f2)
    else:
        w = ds.get("width", 0.0) if ds["cls"] != "SphericalDroplet" else 0.0
        dist, angles, amb, typ = ref_geometry(gs, ds2["position"])
        w_eff = typ if w is None else float(w)
        L = max(b[1] - b[0] for b in gs["bounds"]) + max(abs(x) for x in ds2["position"])
        if w_eff > 0:
            tol = 1e-12 * max(1.0, L / w_eff) * max(1.0, abs(vmax - vmin)) + 8 * EPS * max(abs(vmin), abs(vmax))
            bad = np.abs(f2 - rolled) > tol
        else:
            knife = np.abs(dist - ds["radius"]) <= KNIFE * np.maximum(dist, ds["radius"])
            bad = (np.abs(f2 - rolled) > 8 * EPS * max(abs(vmin), abs(vmax), 1.0)) & ~knife
    if np.any(bad):
        idx = tuple(int(i) for i in np.argwhere(bad)[0])
        out.append({"what": "translating by whole cells along a periodic axis does not roll the field",
                    "check": "roll", "input": case, "cells_translated": k, "axis": ax, "cell": idx, "translated": float(f2[idx]),
                    "rolled": float(rolled[idx])})
    case["_nontrivial"] = bool(f1.min() != f1.max())
    return out


EMULSION_BUILDS = ["list", "generator", "append", "extend", "copy=False", "copy()", "pickle", "sum of two emulsions",
                   "slice of a longer emulsion"]


def make_emulsion(drops: list, how: str):
    """the emulsion holding `drops` (in this order), reached through different routes"""
    import pickle as _pickle
    from droplets.emulsions import Emulsion
    if how == "generator":
        return Emulsion(d for d in drops)
    if how == "append":
        e = Emulsion()
        for d in drops:
            e.append(d)
        return e
    if how == "extend":
        e = Emulsion()
        e.extend(drops[:1])
        e.extend(drops[1:])
        return e
    if how == "copy=False":
        return Emulsion(drops, copy=False)
    if how == "copy()":
        return Emulsion(drops).copy()
    if how == "pickle":
        return _pickle.loads(_pickle.dumps(Emulsion(drops)))
    if how == "sum of two emulsions":
        k = len(drops) // 2
        return Emulsion(drops[:k]) + Emulsion(drops[k:])
    if how == "slice of a longer emulsion" and drops:
        return Emulsion([drops[-1]] + list(drops) + [drops[0]])[1:-1]
    return Emulsion(drops)


def check_emulsion(case: dict, hist=None) -> list[dict]:
    """emulsion field = clip(sum of member fields, 0, 1), independent of member order; empty -> zeros"""
    out = []
    try:
        _check_emulsion(case, hist, out)
    except Exception as e:
        out.append({"what": f"result of the wrong kind: the oracle could not evaluate it ({exc_kind(e)}: {e})",
                    "check": "emulsion", "input": case})
    return out


def _check_emulsion(case: dict, hist, out: list) -> None:
    from droplets.emulsions import Emulsion
    from pde import ScalarField
    gs, dss, perm = case["grid"], case["droplets"], case["perm"]
    how = case.get("build", "list")

    def fail(what, **kw):
        out.append({"what": what, "check": "emulsion", "input": case, **kw})

    wit: list = []
    try:
        grid = make_grid(gs)
        drops = [make_droplet(d, wit) for d in dss]
        states0 = [droplet_state(d) for d in drops]
        em = make_emulsion(drops, how)
        if not isinstance(em, Emulsion) or len(em) != len(drops):
            fail(f"building the emulsion ({how}) gives {type(em).__name__} of length {len(em)}")
            return
        em_states0 = [droplet_state(d) for d in em]
        kw = {"label": case["label"]} if "label" in case else {}
        with np.errstate(all="ignore"):
            res = em.get_phasefield(grid, **kw)
            resp = Emulsion([drops[i] for i in perm]).get_phasefield(grid)
            members = [np.asarray(d.get_phase_field(grid).data, dtype=float) for d in drops]
    except Exception as e:
        if hist is not None:
            hist("exception", "emulsion:" + exc_kind(e))
        fail(f"emulsion rendering raised {exc_kind(e)}: {e}")
        return
    # ---- the caller's objects are what they were
    if [droplet_state(d) for d in drops] != states0:
        fail("rendering the emulsion changed the caller's droplet objects")
    if len(em) != len(drops) or [droplet_state(d) for d in em] != em_states0:
        fail("rendering the emulsion changed the emulsion")
    for name in witnesses_changed(wit):
        fail(f"rendering the emulsion changed the caller's object: {name}")
    # ---- kind of the result
    if not isinstance(res, ScalarField) or not isinstance(resp, ScalarField):
        fail(f"get_phasefield returned {type(res).__name__}, documented: ScalarField")
        return
    f, fp = np.asarray(res.data), np.asarray(resp.data)
    if f.dtype.kind != "f" or fp.dtype.kind != "f":
        fail(f"emulsion field data has dtype {f.dtype}, expected real floating point")
        return
    if hist is not None and "label" in case:
        hist("label_keyword", f"emulsion label={'None' if case['label'] is None else 'str'} -> field.label "
                              f"{'kept' if res.label == case['label'] else 'differs (measured, not judged)'}"
                              + (" [empty emulsion]" if not dss else ""))
    shape = ref_geometry(gs, [0.0] * grid_dim(gs))[0].shape
    if f.shape != shape or fp.shape != shape:
        fail(f"emulsion field has shape {f.shape}")
        return
    if not np.all(np.isfinite(f)):
        fail("emulsion field is not finite")
        return
    total = np.zeros(shape)
    for m in members:
        total = total + m
    expect = np.minimum(np.maximum(total, 0.0), 1.0)
    tol = 1e-12
    if np.any(np.abs(f - expect) > tol):
        idx = tuple(int(i) for i in np.argwhere(np.abs(f - expect) > tol)[0])
        fail("emulsion field is not clip(sum of member fields, 0, 1)", cell=idx, value=float(f[idx]),
             expected=float(expect[idx]), members=[float(m[idx]) for m in members][:8])
    if not np.all(np.abs(f - fp) <= tol):
        idx = tuple(int(i) for i in np.argwhere(~(np.abs(f - fp) <= tol))[0])
        fail("emulsion field depends on the droplet order", cell=idx, value=float(f[idx]), permuted=float(fp[idx]))
    if f.size and (f.min() < 0 or f.max() > 1):
        fail("emulsion field leaves [0, 1]")
    case["_nontrivial"] = bool(len(dss) > 0 and f.size and f.min() != f.max())
    case["_clipped"] = bool(total.size and total.max() > 1.0 + 1e-9)


def check_mismatch(case: dict, hist=None) -> list[dict]:
    """droplet and grid of different dimension: documented ValueError, and the droplet is left as it was"""
    try:
        grid = make_grid(case["grid"])
        drop = make_droplet(case["droplet"])
        state0 = droplet_state(drop)
    except Exception as e:
        return [{"what": f"constructing raised {exc_kind(e)}: {e}", "check": "mismatch", "input": case}]
    kinds = []
    for fn in (lambda: drop.get_phase_field(grid), lambda: drop._get_phase_field(grid, dtype=bool)):
        try:
            fn()
            kinds.append("no exception")
        except Exception as e:
            kinds.append(exc_kind(e))
    if hist is not None:
        hist("exception", "mismatch:" + kinds[0])
    out = []
    if kinds != ["ValueError", "ValueError"]:
        out.append({"what": f"dimension mismatch gives {kinds}, documented: ValueError", "check": "mismatch",
                    "input": case})
    try:
        same = droplet_state(drop) == state0
    except Exception:
        same = False
    if not same:
        out.append({"what": "the rejected rendering changed the droplet object", "check": "mismatch", "input": case})
    return out


# =========================================================================================
# sequences within one process: state kept between calls (input_dimensions 8)
# =========================================================================================
# A sequence case holds a pool of grid specs, droplet specs and emulsions (index lists) and a list of steps.  The
# objects of the pool are built ONCE and reused by all steps; every step is compared with
#   (1) the same call on fresh equal objects in this process (bit-identical),
#   (2) the same call on fresh objects in a process forked from a state in which nothing has been rendered yet
#       (reference digests: module-level / class-level state cannot have been touched there),
#   (3) the geometry of the spec (judge_picture: the state-free reference of the property oracle),
# and after every step the droplets, the caller's argument arrays, the shared vmin / vmax objects, the arrays the
# grids cache and all outputs of earlier steps (kept alive) must be what they were.
def arr_digest(a) -> str:
    import hashlib
    a = np.asarray(a)
    return hashlib.sha1(repr((a.dtype.str, a.shape)).encode() + np.ascontiguousarray(a).tobytes()).hexdigest()[:20]


def out_digest(o) -> str:
    return o if isinstance(o, str) else arr_digest(o)


GRID_CACHED = ["cell_coords", "cell_volumes", "cell_volume_data", "axes_coords", "axes_bounds", "discretization",
               "typical_discretization", "volume", "periodic", "shape"]


def arr_state(a) -> tuple:
    a = np.asarray(a)
    return (a.dtype.str, a.shape, a.tobytes())


def out_state(o):
    return o if isinstance(o, str) else arr_state(o)


def grid_cache_state(grid) -> tuple:
    """content of the arrays / values a grid object caches (cached_property results are shared by all callers)"""
    out = []
    for name in GRID_CACHED:
        v = getattr(grid, name, None)
        if isinstance(v, (tuple, list)):
            out.append((name, tuple(arr_state(x) for x in v)))
        else:
            out.append((name, arr_state(v)))
    return tuple(out) + (("state", repr(grid.state)),)


def step_call(step: dict, grid, drops: list, emulsion=None, vshared=None):
    """evaluate one step on the given objects -> ndarray, or 'EXC:<kind>'"""
    from droplets.emulsions import Emulsion
    try:
        with np.errstate(all="ignore"):
            if step["op"] == "render":
                if vshared is not None:
                    vmin, vmax = vshared
                else:
                    vmin, vmax = float(step["vmin"]), float(step["vmax"])
                return np.asarray(drops[0].get_phase_field(grid, vmin=vmin, vmax=vmax).data)
            if step["op"] == "typed":
                return np.asarray(drops[0]._get_phase_field(grid, dtype=EXTRA_DTYPES[step["dtype"]]))
            if step["op"] == "mismatch":
                return np.asarray(drops[0].get_phase_field(grid).data)
            if step["op"] == "emulsion":
                em = emulsion if emulsion is not None else Emulsion(drops, copy=step.get("copy", True))
                return np.asarray(em.get_phasefield(grid).data)
    except Exception as e:
        return "EXC:" + exc_kind(e)
    raise ValueError(step["op"])


def step_specs(case: dict, step: dict) -> tuple:
    """(grid spec, droplet specs) a step works on"""
    gs = case["mismatch_grid"] if step["op"] == "mismatch" else case["grids"][step["g"]]
    idx = case["emulsions"][step["e"]]["members"] if step["op"] == "emulsion" else [step["d"]]
    return gs, [case["droplets"][i] for i in idx]


def step_fresh(case: dict, step: dict):
    """the same call on fresh equal objects"""
    gs, dss = step_specs(case, step)
    try:
        grid = make_grid(gs)
        drops = [make_droplet(d) for d in dss]
    except Exception as e:
        return "EXC:construct:" + exc_kind(e)
    st = dict(step)
    if step["op"] == "emulsion":
        st["copy"] = case["emulsions"][step["e"]].get("copy", True)
    return step_call(st, grid, drops)


def step_key(case: dict, step: dict) -> str:
    import hashlib
    gs, dss = step_specs(case, step)
    call = {k: v for k, v in step.items() if k not in ("d", "g", "e", "note")}
    if step["op"] == "emulsion":
        call["copy"] = case["emulsions"][step["e"]].get("copy", True)
    return hashlib.sha1(json.dumps([gs, dss, call], sort_keys=True, default=str).encode()).hexdigest()[:20]


def forked_digests(requests: list) -> dict:
    """{key: digest} of step_fresh(case, step) for requests [(key, case, step)], each evaluated in its own child
    forked from THIS process (call it while this process has not rendered anything yet)"""
    import os
    out = {}
    for key, case, step in requests:
        if key in out:
            continue
        r, w = os.pipe()
        pid = os.fork()
        if pid == 0:
            code = 0
            try:
                os.close(r)
                os.write(w, out_digest(step_fresh(case, step)).encode())
            except BaseException:
                code = 1
            finally:
                os._exit(code)
        os.close(w)
        data = b""
        while True:
            chunk = os.read(r, 4096)
            if not chunk:
                break
            data += chunk
        os.close(r)
        os.waitpid(pid, 0)
        out[key] = data.decode() or "EXC:reference child failed"
    return out


def sequence_requests(cases: list) -> list:
    return [(step_key(c, st), c, st) for c in cases for st in c["steps"] if st["op"] != "scribble"]


def start_references(ctx, cases: list, nproc: int = 4):
    """fork `nproc` reference servers from this (not yet rendering) process; each evaluates its share of the steps
    in grandchildren and writes {key: digest} to a file.  -> [(pid, path)]"""
    import os
    import sys
    import droplets  # noqa: F401  (imported before the fork: the children share the pristine modules)
    import droplets.droplet_tracks  # noqa: F401
    import pde  # noqa: F401
    reqs, seen = [], set()
    for r in sequence_requests(cases):
        if r[0] not in seen:
            seen.add(r[0])
            reqs.append(r)
    ctx.casedir.mkdir(parents=True, exist_ok=True)
    procs = []
    sys.stdout.flush()
    sys.stderr.flush()
    for j in range(nproc):
        path = ctx.casedir / f"sequence_reference_{j}.json"
        if path.exists():
            path.unlink()
        pid = os.fork()
        if pid == 0:
            code = 0
            try:
                res = forked_digests(reqs[j::nproc])
                tmp = str(path) + ".tmp"
                with open(tmp, "w") as fh:
                    json.dump(res, fh)
                os.replace(tmp, path)
            except BaseException:
                code = 1
            finally:
                os._exit(code)
        procs.append((pid, path))
    return procs


def collect_references(procs) -> dict | None:
    import os
    out, good = {}, True
    for pid, path in procs:
        try:
            _, status = os.waitpid(pid, 0)
        except ChildProcessError:
            status = 0
        if status != 0 or not path.exists():
            good = False
            continue
        out.update(json.load(open(path)))
        path.unlink()
    return out if good else None


def same_output(a, b) -> bool:
    if isinstance(a, str) or isinstance(b, str):
        return isinstance(a, str) and isinstance(b, str) and a == b
    return a.dtype == b.dtype and a.shape == b.shape and a.tobytes() == b.tobytes()


def check_sequence(case: dict, hist=None, refs: dict | None = None) -> list[dict]:
    """one sequence case; refs = reference digests {key: digest} (None: computed here by forking before the first
    rendering of this function -- meaningful in a process that has not rendered yet, e.g. a replay)"""
    out = []
    try:
        if refs is None:
            refs = forked_digests(sequence_requests([case]))
        _check_sequence(case, hist, refs, out)
    except Exception as e:
        out.append({"what": f"result of the wrong kind: the sequence oracle could not evaluate it ({exc_kind(e)}: {e})",
                    "check": "sequence", "input": case})
    return out


def _check_sequence(case: dict, hist, refs: dict, out: list) -> None:
    from droplets.emulsions import Emulsion

    def fail(what, k=None, **kw):
        out.append({"what": what, "check": "sequence", "input": case,
                    **({"step": k, "step_spec": case["steps"][k]} if k is not None else {}), **kw})

    wit: list = []
    try:
        grids = [make_grid(g) for g in case["grids"]]
        mgrid = make_grid(case["mismatch_grid"])
        drops = [make_droplet(d, wit) for d in case["droplets"]]
        ems = [Emulsion([drops[i] for i in e["members"]], copy=e.get("copy", True)) for e in case["emulsions"]]
    except Exception as e:
        fail(f"constructing valid droplets / grids raised {exc_kind(e)}: {e}")
        return
    vshared = {}
    for st in case["steps"]:
        if st.get("vshared"):
            key = (float(st["vmin"]), float(st["vmax"]))
            vshared.setdefault(key, (np.array(key[0]), np.array(key[1])))
    v0 = {k: (arr_state(a), arr_state(b)) for k, (a, b) in vshared.items()}
    d0 = [droplet_state(d) for d in drops]
    allgrids = grids + [mgrid]
    g0 = [grid_cache_state(g) for g in allgrids]
    e0 = [[droplet_state(d) for d in e] for e in ems]
    outs: list = []  # (step index, output object kept alive, content it must keep)
    nsteps = len(case["steps"])

    def inspect(k, which_d, which_g, which_e):
        """nothing the caller owns or the grids cache has changed (objects of step k; everything after the last step)"""
        for i in which_d:
            if droplet_state(drops[i]) != d0[i]:
                fail("a droplet of the pool was changed by a step of the sequence", k, droplet=i)
                d0[i] = droplet_state(drops[i])
        for i in which_g:
            cs = grid_cache_state(allgrids[i])
            if cs != g0[i]:
                changed = [a[0] for a, b in zip(cs, g0[i]) if a != b]
                fail("cached data of a grid of the pool was changed by a step of the sequence", k, grid=i, attributes=changed)
                g0[i] = cs
        for i in which_e:
            cur = [droplet_state(d) for d in ems[i]]
            if cur != e0[i]:
                fail("an emulsion of the pool was changed by a step of the sequence", k, emulsion=i)
                e0[i] = cur
        for name in witnesses_changed(wit):
            fail(f"a step of the sequence changed the caller's object: {name}", k)
            wit[:] = [w for w in wit if w[0] != name]
        for key, (a, b) in vshared.items():
            if (arr_state(a), arr_state(b)) != v0[key]:
                fail("a step of the sequence changed the vmin / vmax objects handed in", k)
                v0[key] = (arr_state(a), arr_state(b))
        for j, (kk, o, stt) in enumerate(outs):
            if out_state(o) != stt:
                fail("the output of an earlier step (kept alive by the caller) was changed by a later step", k, output_of_step=kk)
                outs[j] = (kk, o, out_state(o))

    for k, st in enumerate(case["steps"]):
        used_d, used_g, used_e = [], [], []
        if st["op"] == "scribble":
            # the caller overwrites an output it owns: nothing else may change
            for j, (kk, o, _) in enumerate(outs):
                if kk == st["k"] and not isinstance(o, str):
                    if o.dtype == np.dtype(bool):
                        o[...] = ~o
                    else:
                        o[...] = 77
                    outs[j] = (kk, o, out_state(o))
        else:
            gi = len(grids) if st["op"] == "mismatch" else st["g"]
            grid = allgrids[gi]
            used_g = [gi]
            if st["op"] == "emulsion":
                used_e = [st["e"]]
                used_d = list(case["emulsions"][st["e"]]["members"])
                res = step_call(st, grid, [], emulsion=ems[st["e"]])
            else:
                used_d = [st["d"]]
                vs = vshared[(float(st["vmin"]), float(st["vmax"]))] if st.get("vshared") else None
                res = step_call(st, grid, [drops[st["d"]]], vshared=vs)
            if isinstance(res, np.ndarray) and any(np.shares_memory(res, o) for _, o, _ in outs if not isinstance(o, str)):
                fail("the output shares its memory with the output of an earlier call", k)
            outs.append((k, res, out_state(res)))
            if st["op"] == "mismatch":
                if res != "EXC:ValueError":
                    fail(f"dimension mismatch gives {res if isinstance(res, str) else 'a field'}, documented: ValueError", k)
            elif isinstance(res, str):
                fail(f"rendering raised {res[4:]} in a sequence", k)
            fresh = step_fresh(case, st)
            if not same_output(res, fresh):
                fail("a call on objects used before differs from the same call on fresh equal objects", k,
                     differing_cells=(int(np.sum(res != fresh)) if isinstance(res, np.ndarray) and
                                      isinstance(fresh, np.ndarray) and res.shape == fresh.shape else None))
            ref = refs.get(step_key(case, st))
            if ref is None:
                fail("no reference digest for this step", k)
            elif ref != out_digest(res):
                fail("a call in a process that rendered other things before differs from the same call on fresh "
                     "objects in a process that had not rendered anything", k, got=out_digest(res), reference=ref)
            if isinstance(res, np.ndarray):
                gs, dss = step_specs(case, st)
                if st["op"] == "render":
                    sub: list = []
                    pc = {"grid": gs, "droplet": dss[0], "vmin": st["vmin"], "vmax": st["vmax"]}
                    if res.dtype.kind != "f":
                        fail(f"field data has dtype {res.dtype}, expected real floating point", k)
                    elif not np.all(np.isfinite(res)):
                        fail("field is not finite", k)
                    else:
                        judge_picture(pc, res, None, None, None, None,
                                      lambda what, **kw: sub.append((what, kw)))
                    for what, kw in sub[:2]:
                        fail(f"in a sequence: {what}", k, **kw)
                elif st["op"] == "emulsion":
                    g2 = make_grid(gs)
                    total = np.zeros(res.shape)
                    for d in dss:
                        total = total + np.asarray(make_droplet(d).get_phase_field(g2).data, dtype=float)
                    exp_ = np.minimum(np.maximum(total, 0.0), 1.0) if dss else total
                    if res.shape != exp_.shape or not np.all(np.abs(res - exp_) <= 1e-12):
                        fail("emulsion rendered after its members is not clip(sum of the members' fields, 0, 1)", k)
        if k == nsteps - 1:
            inspect(k, range(len(drops)), range(len(allgrids)), range(len(ems)))
        else:
            inspect(k, used_d, used_g, used_e)
    case["_nontrivial"] = any(isinstance(o, np.ndarray) and o.size and o.min() != o.max() for _, o, _ in outs)


def grid_variant(rng, gs: dict) -> tuple:
    """-> (kind, a grid that shares with `gs` the aggregates a cache could plausibly be keyed on -- family, shape,
    spacing (or at least mean spacing and cell volume), periodicity -- but differs otherwise)"""
    g = json.loads(json.dumps(gs))
    fam = gs["family"]
    if fam == "cartesian":
        d = len(gs["shape"])
        hs = [(hi - lo) / n for (lo, hi), n in zip(gs["bounds"], gs["shape"])]
        kinds = ["same shape and spacing, other origin", "same box, no periodic axis", "same shape, other period"]
        if d > 1 and hs[0] != hs[-1]:
            kinds.append("same shape, mean spacing and cell volume, spacings of two axes swapped")
        if not any(gs["periodic"]):
            kinds[1] = "same box, every axis periodic"
        kind = rng.choice(kinds)
        if kind.startswith("same shape and spacing"):
            for k in range(d):
                off = rng.choice([-1.5, 0.75, 2.25, -0.5, 0.25]) * hs[k]
                g["bounds"][k] = [gs["bounds"][k][0] + off, gs["bounds"][k][1] + off]
        elif kind.startswith("same box"):
            g["periodic"] = [not any(gs["periodic"])] * d
        elif kind.startswith("same shape, other period"):
            for k in range(d):
                lo, hi = gs["bounds"][k]
                g["bounds"][k] = [lo, lo + 2 * (hi - lo)] if (gs["periodic"][k] or not any(gs["periodic"])) else [lo, hi]
        else:
            (l0, _), (l1, _) = gs["bounds"][0], gs["bounds"][-1]
            g["bounds"][0] = [l0, l0 + gs["shape"][0] * hs[-1]]
            g["bounds"][-1] = [l1, l1 + gs["shape"][-1] * hs[0]]
        return kind, g
    if fam in ("polar", "spherical"):
        r0, r1 = gs["radius"]
        h = (r1 - r0) / gs["shape"]
        kind = rng.choice(["same shape and spacing, other inner radius", "same shape, spacing doubled"])
        if kind.startswith("same shape and spacing"):
            g["radius"] = [r0 + h, r1 + h] if r0 == 0 else [0.0, r1 - r0]
        else:
            g["radius"] = [r0, r0 + 2 * (r1 - r0)]
        return kind, g
    z0, z1 = gs["bounds_z"]
    kind = rng.choice(["same shape and spacing, z range shifted", "same cylinder, periodicity in z flipped",
                       "same shape, dr and dz swapped"])
    if kind.startswith("same shape and spacing"):
        off = rng.choice([-1.5, 0.75, 2.25]) * (z1 - z0) / gs["shape"][1]
        g["bounds_z"] = [z0 + off, z1 + off]
    elif kind.startswith("same cylinder"):
        g["periodic_z"] = not gs["periodic_z"]
    else:
        nr, nz = gs["shape"]
        dr, dz = gs["radius"] / nr, (z1 - z0) / nz
        g["radius"] = nr * dz
        g["bounds_z"] = [z0, z0 + nz * dr]
    return kind, g


def droplet_twin(rng, ds: dict, gs: dict) -> tuple:
    """-> (kind, a droplet that shares class, record layout and most bytes with `ds` but is another droplet)"""
    t = json.loads(json.dumps(ds))
    t.pop("prov", None)
    kinds = ["same but other radius"]
    if gs["family"] == "cartesian" or gs["family"] == "cylindrical":
        kinds += ["same but other centre", "same but other centre"]
    if any(ds.get("amplitudes", [])):
        kinds += ["same but amplitudes reversed", "same but amplitudes negated"]
    if "width" in ds:
        kinds.append("same but other interface width")
    kind = rng.choice(kinds)
    if kind.endswith("radius"):
        t["radius"] = ds["radius"] * 1.5 + 0.25
    elif kind.endswith("centre"):
        k = len(ds["position"]) - 1 if (gs["family"] == "cylindrical" or ds["cls"].endswith("AxisSym")) \
            else rng.randrange(len(ds["position"]))
        t["position"][k] = ds["position"][k] + rng.choice([-1.25, 0.75, 1.5])
    elif kind.endswith("reversed"):
        t["amplitudes"] = list(reversed(ds["amplitudes"]))
        if t["amplitudes"] == ds["amplitudes"]:
            t["amplitudes"][0] = t["amplitudes"][0] + 0.125
    elif kind.endswith("negated"):
        t["amplitudes"] = [-a for a in ds["amplitudes"]]
    else:
        t["width"] = 0.5 if ds["width"] in (None, 0.0) else (None if rng.random() < 0.5 else 0.0)
    return kind, t


def gen_sequence_cases(rng, n: int) -> list:
    cases = []
    mism = {1: {"family": "cartesian", "bounds": [[0, 4], [0, 4]], "shape": [4, 4], "periodic": [True, False]},
            2: {"family": "cartesian", "bounds": [[0, 4]], "shape": [4], "periodic": [True]},
            3: {"family": "cartesian", "bounds": [[0, 4], [0, 4]], "shape": [4, 4], "periodic": [False, True]}}
    for i in range(n):
        cls = CLASSES[i % len(CLASSES)]
        dyadic = rng.random() < 0.8
        gs, on_axis = gen_grid_for(rng, cls, dyadic)
        if gs["family"] == "cartesian" and not any(gs["periodic"]) and not on_axis and rng.random() < 0.7:
            gs["periodic"][rng.randrange(len(gs["periodic"]))] = True
        ds = gen_droplet(rng, cls, gs, dyadic, on_axis)
        outside = False
        if gs["family"] == "cartesian" and any(gs["periodic"]) and rng.random() < 0.7:
            # the centre lies outside the box along a periodic axis (its periodic image is inside)
            axes = [a for a, p in enumerate(gs["periodic"]) if p and not (on_axis and a < 2)]
            if axes:
                k = rng.choice(axes)
                lo, hi = gs["bounds"][k]
                if lo <= ds["position"][k] <= hi:
                    ds["position"][k] += rng.choice([-2, -1, 1, 2]) * (hi - lo)
                outside = True
        kinds, grids = [], [gs]
        for _ in range(rng.choice([1, 1, 2])):
            kind, g = grid_variant(rng, gs)
            kinds.append(kind)
            grids.append(g)
        tkinds, drops = [], [ds]
        for _ in range(rng.choice([1, 1, 2])):
            kind, t = droplet_twin(rng, drops[rng.randrange(len(drops))], gs)
            tkinds.append(kind)
            drops.append(t)
        if rng.random() < 0.5:
            c2 = rng.choice(compatible_classes(gs, on_axis))
            drops.append(gen_droplet(rng, c2, gs, dyadic, on_axis))
        same_cls = [j for j, d in enumerate(drops) if d["cls"] == cls]
        ems = [{"members": list(range(len(drops))), "copy": rng.random() < 0.5},
               {"members": same_cls[::-1], "copy": False}]
        if rng.random() < 0.3:
            ems.append({"members": [], "copy": True})

        def vp():
            v = VPAIRS[rng.randrange(len(VPAIRS))]
            return {"vmin": v[0], "vmax": v[1], **({"vshared": True} if rng.random() < 0.3 else {})}

        order = rng.random() < 0.5  # both orders of the pair (grid A, grid B)
        a, b = (0, 1) if order else (1, 0)
        steps = [{"op": "render", "d": 0, "g": a, **vp(), "note": "first picture"},
                 {"op": "render", "d": 0, "g": b, **vp(), "note": "same droplet on the other grid"},
                 {"op": "render", "d": 0, "g": a, **vp(), "note": "back on the first grid"}]
        for _ in range(rng.randint(3, 9)):
            op = rng.choice(["render"] * 5 + ["typed"] * 2 + ["emulsion"] * 2 + ["mismatch", "scribble", "again"])
            d, g = rng.randrange(len(drops)), rng.randrange(len(grids))
            done = [j for j, st in enumerate(steps) if st["op"] not in ("scribble", "mismatch")]
            if op == "render":
                steps.append({"op": "render", "d": d, "g": g, **vp()})
            elif op == "typed":
                steps.append({"op": "typed", "d": d, "g": g, "dtype": rng.choice(sorted(EXTRA_DTYPES))})
            elif op == "emulsion":
                steps.append({"op": "emulsion", "e": rng.randrange(len(ems)), "g": g})
            elif op == "mismatch":
                steps.append({"op": "mismatch", "d": d})
            elif op == "scribble":
                steps.append({"op": "scribble", "k": rng.choice(done)})
            else:  # exactly the same call as an earlier step
                steps.append({k: v for k, v in steps[rng.choice(done)].items() if k != "note"})
        # emulsions after their members were rendered individually, on every grid; then the very first call again
        for g in range(len(grids)):
            steps.append({"op": "emulsion", "e": rng.randrange(2), "g": g})
        steps.append({k: v for k, v in steps[0].items() if k != "note"})
        cases.append({"grids": grids, "droplets": drops, "emulsions": ems, "steps": steps,
                      "mismatch_grid": mism[grid_dim(gs)],
                      "tags": {"grid_variants": kinds, "droplet_twins": tkinds, "first_grid_first": order,
                               "centre_outside_on_periodic_axis": outside}})
    return cases


CHECKS = {"render": check_render, "roll": check_roll, "emulsion": check_emulsion, "mismatch": check_mismatch,
          "sequence": check_sequence}


# =========================================================================================
# exact reference for sharp spheres on Cartesian grids (coarse-dyadic inputs): Fractions
# =========================================================================================
def exact_mask(gs: dict, pos, radius, knife=None) -> np.ndarray:
    """indicator of |diff|^2 < r^2 in exact rational arithmetic; knife[0] counts cells with |diff|^2 = r^2"""
    axes = []
    for k, ((lo, hi), n) in enumerate(zip(gs["bounds"], gs["shape"])):
        lo, hi = Fraction(lo), Fraction(hi)
        L, h = hi - lo, (hi - lo) / n
        row = []
        for i in range(n):
            d = lo + (i + Fraction(1, 2)) * h - Fraction(pos[k])
            if gs["periodic"][k]:
                x = d + L / 2
                d = x - (x / L).__floor__() * L - L / 2
            row.append(d * d)
        axes.append(row)
    r = Fraction(radius)
    out = np.zeros(gs["shape"], bool)
    if r < 0:
        return out
    r2 = r * r
    for idx in itertools.product(*[range(n) for n in gs["shape"]]):
        d2 = sum(axes[k][i] for k, i in enumerate(idx))
        out[idx] = d2 < r2
        if knife is not None and d2 == r2:
            knife[0] += 1
    return out


# =========================================================================================
# generators (everything from the seeded rng)
# =========================================================================================
def dy(rng: random.Random, lo: float, hi: float, k: int = 6) -> float:
    """a multiple of 2^-k in [lo, hi]"""
    s = 2 ** k
    return rng.randint(math.ceil(lo * s), math.floor(hi * s)) / s


def gen_cart_grid(rng, dim, dyadic=True, max_n=8, periodic=None):
    """Cartesian grid: 1-cell and 2-cell axes, unequal cell counts, unequal spacing in both orders, origin
    centred / shifted positive / entirely negative / anywhere (input_dimensions 2)"""
    hs_all = [0.125, 0.25, 0.5, 0.5, 1.0, 1.0, 1.5, 2.0, 0.375] if dyadic else [0.1, 0.3, 1.0 / 3, 0.7, 1.1]
    ns = [rng.choice([1, 2]) if rng.random() < 0.15 else rng.randint(2, max_n) for _ in range(dim)]
    hs = [rng.choice(hs_all) for _ in range(dim)]
    spacing = rng.choice(["any", "any", "equal", "larger first", "larger last"]) if dim > 1 else "any"
    if spacing == "equal":
        hs = [hs[0]] * dim
    elif spacing != "any":
        while len(set(hs)) == 1:
            hs[rng.randrange(dim)] = rng.choice(hs_all)
        hs.sort(reverse=(spacing == "larger first"))
    origin = rng.choice(["any", "any", "centred", "positive", "negative"])
    bounds = []
    for n, h in zip(ns, hs):
        off = dy(rng, 0.125, 4) if dyadic else round(rng.uniform(0.1, 3), 2)
        if origin == "centred":
            lo = -n * h / 2
        elif origin == "positive":
            lo = off
        elif origin == "negative":
            lo = -n * h - off
        else:
            lo = dy(rng, -4, 4) if dyadic else round(rng.uniform(-3, 3), 2)
        bounds.append([lo, lo + n * h])
    if periodic is None:
        periodic = [rng.random() < 0.5 for _ in range(dim)]
    return {"family": "cartesian", "bounds": bounds, "shape": ns, "periodic": list(periodic)}


def grid_tags(gs: dict) -> dict:
    """classification of the grid geometry for the evidence histogram"""
    t = {}
    fam = gs["family"]
    if fam == "cartesian":
        b, ns = gs["bounds"], gs["shape"]
        hs = [(hi - lo) / n for (lo, hi), n in zip(b, ns)]
        if all(lo == -hi for lo, hi in b):
            t["grid_origin"] = "centred box"
        elif all(lo > 0 for lo, hi in b):
            t["grid_origin"] = "entirely positive coordinates"
        elif all(hi < 0 for lo, hi in b):
            t["grid_origin"] = "entirely negative coordinates"
        elif all(lo == 0 for lo, hi in b):
            t["grid_origin"] = "lower corner at the origin"
        else:
            t["grid_origin"] = "other (non-zero origin)"
        if len(ns) > 1:
            t["grid_spacing_per_axis"] = ("equal" if len(set(hs)) == 1 else
                                          ("larger first" if hs[0] > hs[-1] else
                                           ("larger last" if hs[0] < hs[-1] else "unequal, ends equal")))
            t["grid_cells_per_axis"] = ("equal" if len(set(ns)) == 1 else
                                        ("more first" if ns[0] > ns[-1] else
                                         ("more last" if ns[0] < ns[-1] else "unequal, ends equal")))
        t["grid_smallest_axis"] = "1 cell" if min(ns) == 1 else ("2 cells" if min(ns) == 2 else ">= 3 cells")
    elif fam in ("polar", "spherical"):
        t["grid_inner_radius"] = fam + (" inner radius 0" if gs["radius"][0] == 0 else " inner radius > 0")
        t["grid_smallest_axis"] = "1 cell" if gs["shape"] == 1 else ("2 cells" if gs["shape"] == 2 else ">= 3 cells")
    else:
        nr, nz = gs["shape"]
        dr, dz = gs["radius"] / nr, (gs["bounds_z"][1] - gs["bounds_z"][0]) / nz
        t["cyl_dr_vs_dz"] = "dr < dz" if dr < dz else ("dr > dz" if dr > dz else "dr = dz")
        t["cyl_cells"] = "nz > nr" if nz > nr else ("nz < nr" if nz < nr else "nz = nr")
        t["cyl_geometry"] = gs.get("geometry", "generic")
        t["cyl_z_origin"] = ("z from 0" if gs["bounds_z"][0] == 0 else
                             ("z entirely negative" if gs["bounds_z"][1] < 0 else
                              ("z entirely positive" if gs["bounds_z"][0] > 0 else "z straddles 0")))
        t["grid_smallest_axis"] = "1 cell" if min(nr, nz) == 1 else ("2 cells" if min(nr, nz) == 2 else ">= 3 cells")
    return t


def gen_centre(rng, gs, dyadic=True):
    """centre of a droplet on a Cartesian grid: cell centres / faces / vertices, next to (and beyond) the faces and
    corners of the periodic axes, outside the box"""
    force = rng.random()
    force = "centre" if force < 0.08 else ("vertex" if force < 0.16 else ("near periodic faces" if force < 0.3 else None))
    pos = []
    for (lo, hi), n, per in zip(gs["bounds"], gs["shape"], gs["periodic"]):
        L, h = hi - lo, (hi - lo) / n
        mode = rng.random()
        if force == "centre" or (force is None and mode < 0.3):  # exactly on a cell centre
            x = lo + (rng.randrange(n) + 0.5) * h
        elif force == "vertex" or (force is None and mode < 0.4):  # on a cell boundary
            x = lo + rng.randrange(n + 1) * h
        elif force == "near periodic faces" and per:  # on / next to the lower or upper face of a periodic axis
            x = rng.choice([lo, hi]) + rng.choice([0.0, 0.5, -0.5, 0.25, -0.25, 1.0, -1.0]) * h
        elif dyadic:
            x = dy(rng, lo, hi)
        else:
            x = rng.uniform(lo, hi)
        if per and rng.random() < 0.35:  # outside the box on a periodic axis
            x += rng.choice([-2, -1, 1, 2, 3]) * L
        elif not per and rng.random() < 0.1:
            x += rng.choice([-1, 1]) * h * rng.choice([0.5, 1, 2])
        pos.append(x)
    return pos


def centre_tags(gs: dict, pos, radius) -> dict:
    """where the droplet sits relative to cells, faces and corners of a Cartesian grid (for the histogram)"""
    if gs["family"] != "cartesian":
        return {}
    d = len(pos)
    on_c = on_f = out_p = out_n = 0
    crossed, touch = [], 0
    for k, ((lo, hi), n, per, x) in enumerate(zip(gs["bounds"], gs["shape"], gs["periodic"], pos)):
        L, h = hi - lo, (hi - lo) / n
        t = (x - lo) / h
        if t == math.floor(t):
            on_f += 1
        elif t - math.floor(t) == 0.5:
            on_c += 1
        if x < lo or x > hi:
            out_p += per
            out_n += not per
        if per:
            xw = lo + (x - lo) % L
            if radius > 0 and xw - radius < lo:
                crossed.append(f"{d}-d axis {k} lower face")
            if radius > 0 and xw + radius > hi:
                crossed.append(f"{d}-d axis {k} upper face")
        elif radius > 0 and (x - radius == lo or x + radius == hi) and lo <= x <= hi:
            touch += 1
    t = {"centre_on": ("a cell centre (every axis)" if on_c == d else
                       ("a cell vertex (on a face in every axis)" if on_f == d else
                        ("a cell face / edge (some axes)" if on_f else "generic point"))),
         "centre_vs_box": ("outside across a periodic corner (>= 2 periodic axes)" if out_p >= 2 else
                           ("outside on a periodic axis" if out_p else
                            ("outside on a non-periodic axis" if out_n else "inside the box"))),
         "touches_nonperiodic_face_exactly": touch > 0}
    axes_crossed = {c.split(" axis ")[1][0] for c in crossed}
    t["periodic_faces_crossed"] = crossed + ([f"{d}-d corner: faces of {len(axes_crossed)} periodic axes"]
                                             if len(axes_crossed) >= 2 else []) or ["none"]
    return t


def gen_radius(rng, gs, pos, dyadic=True):
    hs = [(b[1] - b[0]) / n for b, n in zip(gs["bounds"], gs["shape"])] if gs["family"] == "cartesian" else [1.0]
    Ls = [(b[1] - b[0]) for b in gs["bounds"]] if gs["family"] == "cartesian" else [4.0]
    mode = rng.random()
    if mode < 0.06:
        return 0.0
    if mode < 0.14:
        return 2.0 ** -6
    if mode < 0.3:  # whole number of cells / half cells: knife edges for centres on cell centres
        return rng.randint(1, 6) * min(hs) / 2
    if mode < 0.4:
        return max(Ls) * rng.choice([0.5, 1.0, 2.0])
    return dy(rng, 2.0 ** -6, max(Ls) * 0.75) if dyadic else rng.uniform(0.01, max(Ls) * 0.75)


def gen_width(rng, dyadic=True):
    m = rng.random()
    if m < 0.25:
        return None
    if m < 0.45:
        return 0.0
    return rng.choice([2.0 ** -6, 0.125, 0.25, 0.5, 1.0, 2.0, 4.0]) if dyadic else rng.choice([0.01, 0.3, 0.77, 1.9])


AMP_LENGTHS = {"PerturbedDroplet2D": [0, 1, 2, 2, 3, 4, 4, 5, 6, 7], "PerturbedDroplet3D": [0, 1, 2, 3, 3, 5, 8, 8, 15],
               "PerturbedDroplet3DAxisSym": [0, 1, 2, 3, 4, 5]}


def gen_amplitudes(rng, cls):
    """amplitude vectors of length 0, 1, odd, even (complete and incomplete highest mode), all zero, only / also
    the last entry non-zero"""
    n = rng.choice(AMP_LENGTHS[cls])
    m = rng.random()
    out = []
    for _ in range(n):
        if m < 0.15:
            a = 0.0
        elif m < 0.3:
            a = rng.choice([-1.0, 1.0, 0.0, 0.5])
        else:
            a = rng.choice([0.0, 0.0, dy(rng, -0.25, 0.25), dy(rng, -1, 1), rng.uniform(-0.3, 0.3)])
        out.append(a)
    last = rng.random()
    if n and m >= 0.15 and last < 0.3:
        nz = rng.choice([0.25, -0.25, 0.5, -0.125, 0.375])
        if last < 0.12:
            out = [0.0] * (n - 1) + [nz]  # only the last entry (for PerturbedDroplet2D of odd length: an unpaired sine)
        elif out[-1] == 0:
            out[-1] = nz
    return out


def amp_tags(ds: dict) -> dict:
    if "amplitudes" not in ds:
        return {}
    a = ds["amplitudes"]
    n = len(a)
    short = {"PerturbedDroplet2D": "2D", "PerturbedDroplet3D": "3D", "PerturbedDroplet3DAxisSym": "AxisSym"}[ds["cls"]]
    if n == 0:
        kind = "empty"
    elif not any(a):
        kind = "all zero"
    elif not any(a[:-1]):
        kind = "only the last entry non-zero"
    elif a[-1] != 0:
        kind = "last entry non-zero"
    else:
        kind = "last entry zero"
    t = {"amplitudes_length": f"{short}: {n}", "amplitudes_content": kind}
    if short == "2D":
        t["amplitudes_2D_parity"] = ("length 0" if n == 0 else
                                     (("odd length" if n % 2 else "even length") +
                                      (", last entry non-zero" if a[-1] != 0 else ", last entry zero")))
    return t


def gen_droplet(rng, cls, gs, dyadic=True, on_axis=False, kinds=True):
    fam = gs["family"]
    if fam == "cartesian":
        pos = gen_centre(rng, gs, dyadic)
        if on_axis:
            pos[0] = pos[1] = 0.0
    elif fam == "polar":
        pos = [0.0, 0.0]
    elif fam == "spherical":
        pos = [0.0, 0.0, 0.0]
    else:
        z0, z1 = gs["bounds_z"]
        hz = (z1 - z0) / gs["shape"][1]
        m = rng.random()
        if m < 0.3:
            z = z0 + (rng.randrange(gs["shape"][1]) + 0.5) * hz
        elif m < 0.4:
            z = z0 + rng.randrange(gs["shape"][1] + 1) * hz
        else:
            z = dy(rng, z0, z1) if dyadic else rng.uniform(z0, z1)
        if gs["periodic_z"] and rng.random() < 0.2:
            z += rng.choice([-1, 1]) * (z1 - z0)
        pos = [0.0, 0.0, z]
    if fam == "cartesian":
        radius = gen_radius(rng, gs, pos, dyadic)
        free = [k for k, p in enumerate(gs["periodic"]) if not p and not (on_axis and k < 2)]
        if free and radius > 0 and rng.random() < 0.08:  # touching (not crossing) a non-periodic face
            k = rng.choice(free)
            lo, hi = gs["bounds"][k]
            if radius <= hi - lo:
                pos[k] = lo + radius if rng.random() < 0.5 else hi - radius
    else:
        ext = gs["radius"][1] if fam in ("polar", "spherical") else max(gs["radius"], gs["bounds_z"][1] - gs["bounds_z"][0])
        radius = rng.choice([0.0, 2.0 ** -6, ext / 2, dy(rng, 0.125, ext), dy(rng, 0.125, ext), 2 * ext])
        if fam in ("polar", "spherical") and rng.random() < 0.15:  # exactly the radius of a cell centre / a cell face
            r0, r1 = gs["radius"]
            radius = r0 + rng.choice([0.5, 1.0]) * (rng.randrange(gs["shape"]) + 1) * (r1 - r0) / gs["shape"]
    ds = {"cls": cls, "position": pos, "radius": radius}
    if cls != "SphericalDroplet":
        ds["width"] = gen_width(rng, dyadic)
    if cls.startswith("Perturbed"):
        ds["amplitudes"] = gen_amplitudes(rng, cls)
    if kinds:
        if rng.random() < 0.4:  # numeric types of the constructor arguments
            ds["ctor"] = {"pos": rng.choice(POS_KINDS), "num": rng.choice(NUM_KINDS),
                          "amp": rng.choice(["list"] + POS_KINDS)}
        if rng.random() < 0.4:  # provenance of the object
            ds["prov"] = rng.choice(PROVENANCES[1:])
    return ds


def gen_sym_grid(rng, fam, exact_cells=False):
    """polar / spherical / cylindrical grid: 1-cell axes, inner radius > 0, narrow finely sliced and flat wide
    cylinders, dz != dr, z range not starting at 0; exact_cells: spacings are dyadic (for the exact correspondence)"""
    if fam in ("polar", "spherical"):
        r0 = rng.choice([0.0, 0.0, 0.5 if fam == "polar" else 1.0])
        n = rng.randint(1, 8)
        ext = n * rng.choice([0.25, 0.5, 0.5, 1.0, 0.375]) if exact_cells else rng.choice([2.0, 4.0, 3.0])
        return {"family": fam, "radius": [r0, r0 + ext], "shape": n}
    geo = rng.choice(["generic", "generic", "generic", "narrow, finely sliced", "flat, wide", "one or two cells"])
    if geo == "narrow, finely sliced":
        radius, nr, nz, hz = rng.choice([0.5, 1.0]), rng.choice([1, 2, 3]), rng.randint(10, 24), rng.choice([0.125, 0.25])
    elif geo == "flat, wide":
        radius, nr, nz, hz = rng.choice([4.0, 6.0, 8.0]), rng.randint(8, 12), rng.choice([1, 2, 3]), rng.choice([1.0, 2.0])
    elif geo == "one or two cells":
        radius, nr, nz, hz = rng.choice([1.0, 2.0]), rng.choice([1, 2]), rng.choice([1, 2]), rng.choice([0.5, 1.0, 2.0])
    else:
        radius, nr, nz, hz = rng.choice([1.0, 2.0, 3.0, 1.5]), rng.randint(2, 6), rng.randint(2, 8), rng.choice([0.25, 0.5, 1.0])
    if exact_cells:
        radius = nr * rng.choice([0.125, 0.25, 0.5] if geo == "narrow, finely sliced" else [0.25, 0.5, 0.5, 1.0, 0.75])
    z0 = rng.choice([dy(rng, -2, 2), dy(rng, -2, 2), 0.0, -nz * hz - 1.0, 1.5])
    return {"family": "cylindrical", "radius": radius, "bounds_z": [z0, z0 + nz * hz], "shape": [nr, nz],
            "periodic_z": rng.random() < 0.5, "geometry": geo}


def gen_grid_for(rng, cls, dyadic=True):
    """a compatible grid family for the class"""
    if cls in ("SphericalDroplet", "DiffuseDroplet"):
        fam = rng.choice(["cart1", "cart2", "cart2", "cart3", "polar", "spherical", "cylindrical"])
    elif cls == "PerturbedDroplet2D":
        fam = rng.choice(["cart2", "cart2", "cart2", "polar"])
    elif cls == "PerturbedDroplet3D":
        fam = rng.choice(["cart3", "cart3", "cart3", "spherical", "cylindrical"])
    else:
        fam = rng.choice(["cart3axis", "cylindrical", "cylindrical", "spherical"])
    if fam.startswith("cart") and fam != "cart3axis":
        d = int(fam[4])
        return gen_cart_grid(rng, d, dyadic, max_n=8 if d < 3 else 6), False
    if fam == "cart3axis":  # the z axis x = y = 0 must carry the droplet
        gs = gen_cart_grid(rng, 3, dyadic, max_n=6)
        for k in (0, 1):
            n = gs["shape"][k]
            h = (gs["bounds"][k][1] - gs["bounds"][k][0]) / n
            off = rng.choice([0.0, 0.5, 0.25]) * h  # axis on a cell boundary / centre / in between
            lo = -(n // 2) * h - off
            gs["bounds"][k] = [lo, lo + n * h]
        return gs, True
    return gen_sym_grid(rng, fam), False


SCALES = [2.0 ** -30, 2.0 ** -10, 2.0 ** 10, 2.0 ** 30]


def scale_geometry(gs: dict, ds: dict, f: float) -> None:
    """multiply every length of the case (grid, centre, radius, width) by the power of two f, in place: the picture
    is the same, all coordinates stay exactly representable"""
    if gs["family"] == "cartesian":
        gs["bounds"] = [[lo * f, hi * f] for lo, hi in gs["bounds"]]
    elif gs["family"] in ("polar", "spherical"):
        gs["radius"] = [r * f for r in gs["radius"]]
    else:
        gs["radius"] = gs["radius"] * f
        gs["bounds_z"] = [z * f for z in gs["bounds_z"]]
    gs["length_scale"] = f
    ds["position"] = [x * f for x in ds["position"]]
    ds["radius"] = ds["radius"] * f
    if ds.get("width") is not None:
        ds["width"] = ds["width"] * f


def compatible_classes(gs: dict, on_axis: bool) -> list[str]:
    """droplet classes that can be rendered on the grid (for emulsions mixing classes)"""
    d = grid_dim(gs)
    if d == 1:
        return ["SphericalDroplet", "DiffuseDroplet"]
    if d == 2:
        return ["SphericalDroplet", "DiffuseDroplet", "PerturbedDroplet2D"]
    out = ["SphericalDroplet", "DiffuseDroplet", "PerturbedDroplet3D"]
    if on_axis or gs["family"] != "cartesian":
        out.append("PerturbedDroplet3DAxisSym")
    return out


CORPUS_RENDER = [
    # F2: 3-d perturbed droplet centred exactly on a cell centre
    {"grid": {"family": "cartesian", "bounds": [[0, 4]] * 3, "shape": [4, 4, 4], "periodic": [False] * 3},
     "droplet": {"cls": "PerturbedDroplet3D", "position": [1.5, 1.5, 1.5], "radius": 1.2, "width": 1.0,
                 "amplitudes": [0.1, 0, 0]}, "vmin": 0, "vmax": 1},
    # F3: axisymmetric droplet on a cylindrical and on a Cartesian grid
    {"grid": {"family": "cylindrical", "radius": 4, "bounds_z": [0, 5], "shape": [8, 10], "periodic_z": False},
     "droplet": {"cls": "PerturbedDroplet3DAxisSym", "position": [0, 0, 2.0], "radius": 1.5, "width": 1.0,
                 "amplitudes": [0.1, 0.05]}, "vmin": 0, "vmax": 1},
    {"grid": {"family": "cartesian", "bounds": [[-2, 2], [-2, 2], [0, 4]], "shape": [4, 4, 4],
              "periodic": [False, False, True]},
     "droplet": {"cls": "PerturbedDroplet3DAxisSym", "position": [0, 0, 1.5], "radius": 1.25, "width": None,
                 "amplitudes": [0.25, -0.125]}, "vmin": -1, "vmax": 1},
    # knife edge: radius = whole number of cells from a centre on a cell centre
    {"grid": {"family": "cartesian", "bounds": [[0, 8]], "shape": [8], "periodic": [True]},
     "droplet": {"cls": "SphericalDroplet", "position": [2.5], "radius": 2.0}, "vmin": 0, "vmax": 1},
    {"grid": {"family": "cartesian", "bounds": [[0, 8], [0, 4]], "shape": [8, 4], "periodic": [True, False]},
     "droplet": {"cls": "DiffuseDroplet", "position": [-5.5, 1.5], "radius": 2.0, "width": 0.0}, "vmin": 2, "vmax": -3},
    {"grid": {"family": "cartesian", "bounds": [[0, 8], [0, 4]], "shape": [8, 4], "periodic": [True, False]},
     "droplet": {"cls": "DiffuseDroplet", "position": [2.5, 1.5], "radius": 2.0, "width": 0.5}, "vmin": 0.1, "vmax": 0.7},
]


def gen_render_cases(rng, n):
    cases = [json.loads(json.dumps(c)) for c in CORPUS_RENDER]
    for i in range(n):
        cls = CLASSES[i % len(CLASSES)]
        dyadic = rng.random() < 0.8
        gs, on_axis = gen_grid_for(rng, cls, dyadic)
        ds = gen_droplet(rng, cls, gs, dyadic, on_axis)
        vmin, vmax = VPAIRS[rng.randrange(len(VPAIRS))] if rng.random() < 0.8 else (round(rng.uniform(-2, 2), 3), round(rng.uniform(-2, 2), 3))
        if rng.random() < 0.12:  # the same picture in units 2^-30 ... 2^30
            scale_geometry(gs, ds, rng.choice(SCALES))
        case = {"grid": gs, "droplet": ds, "vmin": vmin, "vmax": vmax}
        if rng.random() < 0.4:  # numeric type of vmin / vmax
            case["vkind"] = rng.choice(NUM_KINDS[1:])
        if (vmin, vmax) == (0.0, 1.0) and rng.random() < 0.5:  # keywords left at their defaults
            case["vkw"] = "omitted"
        r = rng.random()
        if r < 0.3:
            case["label"] = None if r < 0.15 else "phase field"
        if rng.random() < 0.35:  # the image in another dtype (`_get_phase_field(grid, dtype)`)
            case["extra"] = {"dtype": rng.choice(sorted(EXTRA_DTYPES)), "how": rng.choice(["kw", "pos"])}
        if rng.random() < 0.25:
            case["repeat"] = True
        cases.append(case)
    return cases


def gen_roll_cases(rng, n):
    cases = []
    for i in range(n):
        cls = CLASSES[i % len(CLASSES)]
        exact = cls.startswith("Perturbed") or rng.random() < 0.75
        d = 2 if cls == "PerturbedDroplet2D" else (3 if cls.startswith("Perturbed") else rng.choice([1, 2, 2, 3]))
        per = [rng.random() < 0.6 for _ in range(d)]
        ax = rng.randrange(d)
        per[ax] = True
        on_axis = cls == "PerturbedDroplet3DAxisSym"
        if on_axis:
            ax, per[2] = 2, True
            gs = gen_cart_grid(rng, 3, True, max_n=5, periodic=per)
            for k in (0, 1):
                nn = gs["shape"][k]
                h = (gs["bounds"][k][1] - gs["bounds"][k][0]) / nn
                lo = -(nn // 2) * h - rng.choice([0.0, 0.5]) * h
                gs["bounds"][k] = [lo, lo + nn * h]
        else:
            gs = gen_cart_grid(rng, d, exact, max_n=8 if d < 3 else 5, periodic=per)
        ds = gen_droplet(rng, cls, gs, exact, on_axis)
        if not exact and ds.get("width", 0.0) == 0.0 and cls != "SphericalDroplet":
            ds["width"] = 0.3
        if rng.random() < 0.12:
            scale_geometry(gs, ds, rng.choice(SCALES))
        k = rng.choice([-3, -2, -1, 1, 2, 3, gs["shape"][ax], 2 * gs["shape"][ax] + 1, -gs["shape"][ax] - 1])
        vmin, vmax = VPAIRS[rng.randrange(len(VPAIRS))]
        cases.append({"grid": gs, "droplet": ds, "axis": ax, "k": k, "exact": bool(exact), "vmin": vmin, "vmax": vmax})
    return cases


def gen_emulsion_cases(rng, n):
    g2 = {"family": "cartesian", "bounds": [[0, 4], [0, 4]], "shape": [8, 8], "periodic": [True, False]}
    cases = [
        {"grid": g2, "droplets": [], "perm": []},
        {"grid": g2, "droplets": [{"cls": "SphericalDroplet", "position": [2, 2], "radius": 1.0}] * 2, "perm": [1, 0]},
        {"grid": g2, "droplets": [{"cls": "DiffuseDroplet", "position": [2, 2], "radius": 1.5, "width": 0.5},
                                  {"cls": "DiffuseDroplet", "position": [2.25, 2], "radius": 1.5, "width": 0.5},
                                  {"cls": "DiffuseDroplet", "position": [2, 1.75], "radius": 1.0, "width": None}],
         "perm": [2, 0, 1]},
        {"grid": g2, "droplets": [], "perm": [], "label": "empty", "build": "append"},
    ]
    for i in range(n):
        cls = CLASSES[i % len(CLASSES)]
        gs, on_axis = gen_grid_for(rng, cls, True)
        m = rng.choice([0, 1, 1, 2, 2, 3, 3, 4, 5, rng.randint(6, 12), rng.randint(13, 40)])
        mixed = m >= 2 and rng.random() < 0.3  # members of different classes (same dimension)
        compat = compatible_classes(gs, on_axis)
        base = gen_droplet(rng, cls, gs, True, on_axis)
        dss = []
        for j in range(m):
            c = rng.choice(compat) if mixed else cls
            d = gen_droplet(rng, c, gs, True, on_axis, kinds=m <= 5)
            if rng.random() < 0.5:  # overlapping members: the clip matters
                d["position"] = list(base["position"])
                d["radius"] = max(base["radius"], 0.5)
            if c.startswith("Perturbed") and not mixed:
                d["amplitudes"] = (list(d["amplitudes"]) + [0.0] * 20)[:len(base["amplitudes"])]
            dss.append(d)
        perm = list(range(m))
        rng.shuffle(perm)
        case = {"grid": gs, "droplets": dss, "perm": perm}
        if not mixed and rng.random() < 0.6:  # route by which the emulsion object came about
            case["build"] = rng.choice(EMULSION_BUILDS[1:])
        r = rng.random()
        if r < 0.3:
            case["label"] = None if r < 0.15 else "emulsion"
        cases.append(case)
    return cases


def gen_mismatch_cases(rng):
    cases = []
    grids = {1: {"family": "cartesian", "bounds": [[0, 4]], "shape": [4], "periodic": [True]},
             2: {"family": "cartesian", "bounds": [[0, 4], [0, 4]], "shape": [4, 4], "periodic": [True, False]},
             3: {"family": "cartesian", "bounds": [[-2, 2], [-2, 2], [0, 4]], "shape": [4, 4, 4], "periodic": [False] * 3}}
    others = [{"family": "polar", "radius": [0, 4], "shape": 4}, {"family": "spherical", "radius": [0, 4], "shape": 4},
              {"family": "cylindrical", "radius": 2, "bounds_z": [0, 4], "shape": [3, 4], "periodic_z": True}]
    for cls in CLASSES:
        for ddim in ((1, 2, 3) if cls in ("SphericalDroplet", "DiffuseDroplet") else ((2,) if cls.endswith("2D") else (3,))):
            ds = {"cls": cls, "position": [0.0] * ddim, "radius": 1.0, "width": 0.5, "amplitudes": [0.1, 0.2]}
            for gs in list(grids.values()) + others:
                if grid_dim(gs) != ddim:
                    cases.append({"grid": gs, "droplet": ds})
    return cases


# =========================================================================================
# (a) proofs with golden fallback
# =========================================================================================
def prove_with_fallback(ctx) -> tuple[bool, bool]:
    """-> (proofs hold, over the freshly generated text?)"""
    import gen_shapes
    nb, ob, dc = len(ctx.broken), ctx.obligations, ctx.discharged
    ok = vlib.prove(ctx, DEPS, gens=["Gen_shapes"])
    if ok:
        try:
            if gen_shapes.gen_shapes() != gen_shapes.GOLDEN:
                ctx.notes.append("Gen_shapes differs textually from the golden copy; the proofs hold over the fresh text")
        except Exception:
            pass
        ctx.tie.append("translator (Gen_shapes regenerated from the current droplets.py / emulsions.py; proofs over "
                       "the fresh text; interval sample goals)")
        return True, True
    first = ctx.broken[nb:]
    if any(b.startswith("forbidden construct") or "assumptions outside" in b for b in first):
        return False, True
    # the fresh text is missing (translator failed closed) or no longer supports the proofs: theorems over the
    # golden model, tied to the implementation by sample goals + correspondence + numeric oracle (DESIGN 2.2)
    del ctx.broken[nb:]
    ctx.obligations, ctx.discharged = ob, dc
    ctx.notes.append("fresh Gen_shapes does not support the proofs -> golden model: " + " | ".join(first)[:700])
    with vlib.BuildLock():
        vlib._write_if_changed(vlib.COQ_BUILD / "Gen" / "Gen_shapes.v", gen_shapes.GOLDEN)
    ok2 = vlib.prove(ctx, DEPS, gens=[])
    ctx.tie.append("tie: correspondence (translator fell back)")
    ctx.extra["translator_fell_back"] = True
    return ok2, False


# =========================================================================================
# (b) sample goals for the profile expressions
# =========================================================================================
def sample_goal_list(ctx, rng):
    from pde import CartesianGrid
    from droplets.droplets import DiffuseDroplet, PerturbedDroplet2D
    from droplets.tools import spherical
    goals = []
    n = ctx.scale(5, 24)
    g1 = CartesianGrid([(0, 8)], 8)
    for j in range(n):
        p = dy(rng, 0, 8)
        R = rng.choice([dy(rng, 0.125, 4), round(rng.uniform(0.1, 4), 3)])
        w = rng.choice([None, 0.125, 0.5, 1.0, 2.0, round(rng.uniform(0.05, 3), 3)])
        vmin, vmax = VPAIRS[(j + 1) % len(VPAIRS)]
        d = DiffuseDroplet([p], R, w)
        w_eff = float(g1.typical_discretization) if w is None else w
        raw = np.asarray(d._get_phase_field(g1))
        sc = np.asarray(d.get_phase_field(g1, vmin=vmin, vmax=vmax).data)
        for i in (rng.randrange(8), rng.randrange(8)):
            dist = abs(i + 0.5 - p)
            args = f"{vlib.rlit(dist)} {vlib.rlit(R)} {vlib.rlit(w_eff)}"
            goals.append((f"diffuse_profile(dist={dist}, R={R}, w={w_eff})", f"diffuse_profile {args}", float(raw[i]),
                          4e-15))
            s = max(1.0, abs(vmin), abs(vmax), abs(vmax - vmin))
            goals.append((f"scale_value({vmin},{vmax}) o diffuse_profile(dist={dist}, R={R}, w={w_eff})",
                          f"scale_value {vlib.rlit(vmin)} {vlib.rlit(vmax)} (diffuse_profile {args})", float(sc[i]),
                          8e-15 * s))
            ctx.case(["sample", "diffuse", p, R, w, vmin, vmax, i])
            ctx.count("sample_goal", "diffuse_profile")
            ctx.count("sample_goal", "scale_value")
    g2 = CartesianGrid([(0, 4), (-1, 2)], [4, 3], periodic=[True, False])
    for j in range(n):
        pos = [dy(rng, 0, 4), dy(rng, -1, 2)]
        R = dy(rng, 0.25, 2)
        w = rng.choice([None, 0.25, 1.0, round(rng.uniform(0.05, 2), 3)])
        amps = [rng.choice([0.0, 0.25, -0.125, round(rng.uniform(-0.3, 0.3), 3)]) for _ in range(4)]
        d = PerturbedDroplet2D(pos, R, w, amps)
        w_eff = float(g2.typical_discretization) if w is None else w
        dist, phi = spherical.polar_coordinates(g2, origin=d.position, ret_angle=True)
        iface = d.interface_distance(phi)
        vmin, vmax = VPAIRS[(j + 3) % len(VPAIRS)]
        sc = np.asarray(d.get_phase_field(g2, vmin=vmin, vmax=vmax).data)
        raw = np.asarray(d._get_phase_field(g2))
        for idx in ((rng.randrange(4), rng.randrange(3)),):
            args = f"{vlib.rlit(float(dist[idx]))} {vlib.rlit(float(iface[idx]))} {vlib.rlit(w_eff)}"
            goals.append((f"perturbed_profile(dist={float(dist[idx])}, interface={float(iface[idx])}, w={w_eff})",
                          f"perturbed_profile {args}", float(raw[idx]), 4e-15))
            s = max(1.0, abs(vmin), abs(vmax), abs(vmax - vmin))
            goals.append((f"scale_value({vmin},{vmax}) o perturbed_profile(...)",
                          f"scale_value {vlib.rlit(vmin)} {vlib.rlit(vmax)} (perturbed_profile {args})",
                          float(sc[idx]), 8e-15 * s))
            ctx.case(["sample", "perturbed", pos, R, w, amps, vmin, vmax, list(idx)])
            ctx.count("sample_goal", "perturbed_profile")
            ctx.count("sample_goal", "scale_value")
    return goals


def run_sample_goals(ctx, rng):
    try:
        goals = sample_goal_list(ctx, rng)
    except Exception as e:
        ctx.broken.append(f"sample goals: the implementation raised {exc_kind(e)}: {e}")
        return
    ctx.sample({"sample_goal": f"Rabs ({goals[0][1]} - {vlib.rlit(goals[0][2])}) <= {goals[0][3]}"})
    req = "From Coq Require Import Reals. From PD Require Import Gen.Gen_shapes."  # one line (vlib maps line numbers)
    from concurrent.futures import ThreadPoolExecutor
    k = 8
    shards = [goals[i::k] for i in range(k)]
    with ThreadPoolExecutor(k) as ex:
        list(ex.map(lambda a: vlib.sample_goals(ctx, f"c03_{a[0]}", req, a[1],
                                                ["scale_value", "diffuse_profile", "perturbed_profile"]),
                    [(i, s) for i, s in enumerate(shards) if s]))


# =========================================================================================
# (c) D-layer correspondence
# =========================================================================================
HEADER_MASK = """From Coq Require Import ZArith QArith List Bool.
Import ListNotations.
From PD Require Import Model.Grid Model.Render.
Local Open Scope Q_scope.
Fixpoint beq_list (a b : list bool) : bool :=
  match a, b with
  | [], [] => true
  | x :: a', y :: b' => Bool.eqb x y && beq_list a' b'
  | _, _ => false
  end.
Definition ax (n : Z) (lo hi : Q) (p : bool) : axis := {| ncell := n; alo := lo; ahi := hi; aper := p |}.
Definition agree (c : grid * list (list Q * Q) * list bool) : bool :=
  let '(g, ds, m) := c in
  match ds with
  | [(ctr, r)] => beq_list (mask_sphere g ctr r) m && beq_list (mask_emulsion g ds) m
  | _ => beq_list (mask_emulsion g ds) m
  end.
"""


def grid_lit(gs):
    return vlib.listlit([f"ax {vlib.zlit(n)} {vlib.qlit(lo)} {vlib.qlit(hi)} {vlib.blit(p)}"
                         for (lo, hi), n, p in zip(gs["bounds"], gs["shape"], gs["periodic"])])


def mask_lit(m):
    return vlib.listlit([vlib.blit(bool(b)) for b in np.asarray(m).ravel()])


def cd_ok(gs) -> bool:
    """py-pde's cell centres are exactly lo + (i + 1/2) h for this grid (coarse-dyadic class)"""
    g = make_grid(gs)
    for (lo, hi), n, xs in zip(gs["bounds"], gs["shape"], g.axes_coords):
        h = (Fraction(hi) - Fraction(lo)) / n
        if [Fraction(float(x)) for x in xs] != [Fraction(lo) + (i + Fraction(1, 2)) * h for i in range(n)]:
            return False
    return True


MASK_CORPUS = [
    ({"family": "cartesian", "bounds": [[0, 8]], "shape": [8], "periodic": [True]}, [2.5], 2.0),
    ({"family": "cartesian", "bounds": [[0, 8]], "shape": [8], "periodic": [False]}, [2.5], 3.0),
    ({"family": "cartesian", "bounds": [[0, 2], [-1, 2]], "shape": [4, 3], "periodic": [True, False]}, [0.25, 0.5], 0.5),
    ({"family": "cartesian", "bounds": [[0, 2], [-1, 2]], "shape": [4, 3], "periodic": [True, False]}, [-3.75, 0.5], 1.0),
    ({"family": "cartesian", "bounds": [[0, 4]] * 3, "shape": [4, 4, 4], "periodic": [True, True, True]}, [1.5, 1.5, 1.5], 1.0),
    ({"family": "cartesian", "bounds": [[0, 4]] * 3, "shape": [4, 4, 4], "periodic": [True, False, True]}, [0.5, 1.5, 9.5], 2.0),
]


def render_mask(variant: int, gs, pos, radius, rng):
    """the implementation's sharp image through five different entry points"""
    from droplets.droplets import DiffuseDroplet, PerturbedDroplet2D, PerturbedDroplet3D, SphericalDroplet
    grid = make_grid(gs)
    pos = np.array(pos, dtype=float)
    if variant == 0:
        return np.asarray(SphericalDroplet(pos, radius)._get_phase_field(grid, dtype=bool)), None
    if variant == 1:
        f = np.asarray(SphericalDroplet(pos, radius).get_phase_field(grid).data)
        return f > 0.5, f
    if variant == 2:
        f = np.asarray(DiffuseDroplet(pos, radius, 0.0).get_phase_field(grid, vmin=-1, vmax=3).data)
        return f > 1.0, (f + 1) / 4
    if variant == 3:
        return np.asarray(DiffuseDroplet(pos, radius, 0.5)._get_phase_field(grid, dtype=bool)), None
    if variant == 5 and len(pos) == 3:
        from droplets.droplets import PerturbedDroplet3DAxisSym
        f = np.asarray(PerturbedDroplet3DAxisSym(pos, radius, 0.0, [0.0, 0.0, 0.0]).get_phase_field(grid).data)
        return f > 0.5, f
    if len(pos) == 2:
        f = np.asarray(PerturbedDroplet2D(pos, radius, 0.0, [0.0, 0.0])._get_phase_field(grid))
        return f > 0.5, f
    if len(pos) == 3:
        f = np.asarray(PerturbedDroplet3D(pos, radius, 0.0, [0.0, 0.0, 0.0])._get_phase_field(grid))
        return f > 0.5, f
    return np.asarray(DiffuseDroplet(pos, radius, None)._get_phase_field(grid, dtype=bool)), None


def correspondence_masks(ctx, rng):
    from droplets.emulsions import Emulsion
    from droplets.droplets import DiffuseDroplet, SphericalDroplet
    n = ctx.scale(1000, 8000)
    specs = [(g, p, r) for g, p, r in MASK_CORPUS]
    allper = {d: list(itertools.product([False, True], repeat=d)) for d in (1, 2, 3)}
    for i in range(n):
        d = (1, 2, 2, 3)[i % 4]
        per = allper[d][(i // 4) % len(allper[d])]  # all periodicity masks in turn
        gs = gen_cart_grid(rng, d, True, max_n=8 if d < 3 else (8 if i % 16 == 3 else 5), periodic=per)
        pos = gen_centre(rng, gs, True)
        specs.append((gs, pos, gen_radius(rng, gs, pos, True)))
    lits, metas = [], []
    for j, (gs, pos, r) in enumerate(specs):
        if not cd_ok(gs):
            ctx.count("mask_case_skipped", "cell centres not exactly dyadic")
            continue
        variant = j % 5
        try:
            m, f = render_mask(variant, gs, pos, r, rng)
        except Exception as e:
            ctx.count("exception", "mask:" + exc_kind(e))
            ctx.violations.append({"what": f"sharp rendering raised {exc_kind(e)}: {e}", "check": "mask",
                                   "input": {"grid": gs, "position": pos, "radius": r, "variant": variant},
                                   "found": True})
            continue
        meta = {"grid": gs, "position": pos, "radius": r, "variant": variant}
        if f is not None and not np.all((f == 0.0) | (f == 1.0)):
            ctx.violations.append({"what": "sharp droplet has values other than the two levels", "check": "mask",
                                   "input": meta, "found": True})
        kn = [0]
        ex = exact_mask(gs, pos, r, kn)
        ctx.count("mask_cells_exactly_on_the_interface", "cells", kn[0])
        ctx.count("mask_cases_with_a_cell_exactly_on_the_interface", kn[0] > 0)
        if not np.array_equal(ex, np.asarray(m, bool)):
            idx = tuple(int(t) for t in np.argwhere(ex != np.asarray(m, bool))[0])
            ctx.violations.append({"what": "sharp image is not the indicator of `distance < radius` (exact rational "
                                           "evaluation; strict inequality)", "check": "mask", "input": meta,
                                   "cell": idx, "image": bool(np.asarray(m)[idx]), "expected": bool(ex[idx]),
                                   "found": True})
        lits.append(f"({grid_lit(gs)}, [({vlib.listlit(pos, vlib.qlit)}, {vlib.qlit(r)})], {mask_lit(m)})")
        metas.append(meta)
        ctx.case(["mask", gs, pos, r, variant], nontrivial=bool(np.any(m) and not np.all(m)))
        ctx.count("mask_dim", len(gs["shape"]))
        ctx.count("mask_periodic", "".join("P" if p else "-" for p in gs["periodic"]))
        nc = int(np.prod(gs["shape"]))
        ctx.count("mask_cells", "<=8" if nc <= 8 else ("9..64" if nc <= 64 else ("65..216" if nc <= 216 else "217..512")))
        ctx.count("mask_variant", ["Spherical bool", "Spherical float", "Diffuse w=0 scaled", "Diffuse w>0 bool",
                                   "Perturbed zero-amplitude w=0"][variant])
        ctx.count("mask_fill", "empty" if not np.any(m) else ("full" if np.all(m) else "partial"))
        for key, val in list(grid_tags(gs).items()) + list(centre_tags(gs, pos, r).items()):
            for v in (val if isinstance(val, list) else [val]):
                ctx.count("mask_" + key, v)
        ctx.count("mask_radius", "0" if r == 0 else ("tiny" if r <= 2 ** -6 else "regular"))
    # emulsions of sharp droplets: cellwise OR
    ne = ctx.scale(160, 1200)
    for i in range(ne):
        d = (1, 2, 2, 3)[i % 4]
        gs = gen_cart_grid(rng, d, True, max_n=8 if d < 3 else 5)
        if not cd_ok(gs):
            continue
        k = rng.choice([0, 1, 2, 2, 3, 4, rng.randint(5, 12)]) if i else 0
        members = []
        for _ in range(k):
            pos = gen_centre(rng, gs, True)
            members.append((pos, gen_radius(rng, gs, pos, True)))
        try:
            grid = make_grid(gs)
            if i % 2:
                drops = [SphericalDroplet(np.array(p, float), r) for p, r in members]
            else:
                drops = [DiffuseDroplet(np.array(p, float), r, 0.0) for p, r in members]
            f = np.asarray(Emulsion(drops).get_phasefield(grid).data)
        except Exception as e:
            ctx.count("exception", "mask-emulsion:" + exc_kind(e))
            ctx.violations.append({"what": f"emulsion rendering raised {exc_kind(e)}: {e}", "check": "mask",
                                   "input": {"grid": gs, "members": members}, "found": True})
            continue
        meta = {"grid": gs, "members": members}
        if not np.all((f == 0.0) | (f == 1.0)):
            ctx.violations.append({"what": "emulsion of sharp droplets has values other than 0 and 1", "check": "mask",
                                   "input": meta, "found": True})
        m = f > 0.5
        ex = np.zeros(gs["shape"], bool)
        for p, r in members:
            ex |= exact_mask(gs, p, r)
        if not np.array_equal(ex, m):
            ctx.violations.append({"what": "emulsion of sharp droplets is not the union of the droplets' indicators",
                                   "check": "mask", "input": meta, "found": True})
        ds_lit = vlib.listlit([f"({vlib.listlit(p, vlib.qlit)}, {vlib.qlit(r)})" for p, r in members])
        lits.append(f"({grid_lit(gs)}, {ds_lit}, {mask_lit(m)})")
        metas.append(meta)
        ctx.case(["mask-emulsion", gs, members], nontrivial=bool(np.any(m) and not np.all(m)))
        ctx.count("mask_emulsion_members", k if k <= 4 else "5..12")
    ctx.sample({"mask_case": lits[2][:400]})
    bad = vlib.run_cases(ctx, "mask", HEADER_MASK, lits, "agree", shard=ctx.scale(40, 120))
    if bad:
        ctx.broken.append(f"correspondence sharp masks: Model/Render.mask_sphere and the implementation differ on "
                          f"{len(bad)} case(s), first: {json.dumps(metas[bad[0]])[:300]}")
        ctx.extra["mask_disagreements"] = [metas[b] for b in bad[:5]]
    return [metas[b] for b in bad]


HEADER_SYM = """From Coq Require Import ZArith QArith List Bool.
Import ListNotations.
From PD Require Import Model.Grid Model.Render Model.LocateSym Model.RenderSym.
Local Open Scope Q_scope.
Fixpoint beq_list (a b : list bool) : bool :=
  match a, b with
  | [], [] => true
  | x :: a', y :: b' => Bool.eqb x y && beq_list a' b'
  | _, _ => false
  end.
Definition cyl (nr nz : Z) (R zlo zhi : Q) (p : bool) : cylgrid :=
  {| cg_nr := nr; cg_nz := nz; cg_R := R; cg_zlo := zlo; cg_zhi := zhi; cg_per := p |}.
(* a centred sphere on a PolarSymGrid / SphericalSymGrid (inner radius, spacing, droplet radius, cells, image);
   on-axis spheres (centre z, radius) on a CylindricalSymGrid (image in C order: r slow, z fast) *)
Inductive symcase :=
| Radial (r_lo dr R : Q) (n : nat) (m : list bool)
| Cyl (g : cylgrid) (ds : list (Q * Q)) (m : list bool).
Definition agree (c : symcase) : bool :=
  match c with
  | Radial r_lo dr R n m => beq_list (radial_mask r_lo dr R n) m
  | Cyl g ds m => beq_list (cyl_mask g ds) m
  end.
"""


def sym_cd_ok(gs) -> bool:
    """py-pde's cell centres are exactly the rationals of the model for this polar / spherical / cylindrical grid"""
    g = make_grid(gs)
    if gs["family"] in ("polar", "spherical"):
        r0, r1 = (Fraction(x) for x in gs["radius"])
        h = (r1 - r0) / gs["shape"]
        return [Fraction(float(x)) for x in g.axes_coords[0]] == [r0 + (i + Fraction(1, 2)) * h for i in range(gs["shape"])]
    nr, nz = gs["shape"]
    hr = Fraction(gs["radius"]) / nr
    z0, z1 = (Fraction(x) for x in gs["bounds_z"])
    hz = (z1 - z0) / nz
    return ([Fraction(float(x)) for x in g.axes_coords[0]] == [(i + Fraction(1, 2)) * hr for i in range(nr)] and
            [Fraction(float(x)) for x in g.axes_coords[1]] == [z0 + (j + Fraction(1, 2)) * hz for j in range(nz)])


def exact_sym_mask(gs, members, knife=None) -> np.ndarray:
    """union of the indicators |cell centre - droplet centre|^2 < R^2 (exact rationals); members = [(z, R)]"""
    if gs["family"] in ("polar", "spherical"):
        r0, r1 = (Fraction(x) for x in gs["radius"])
        h = (r1 - r0) / gs["shape"]
        d2 = np.array([(r0 + (i + Fraction(1, 2)) * h) ** 2 for i in range(gs["shape"])], dtype=object)
        per_member = [d2 for _ in members]
    else:
        nr, nz = gs["shape"]
        hr = Fraction(gs["radius"]) / nr
        z0, z1 = (Fraction(x) for x in gs["bounds_z"])
        hz = (z1 - z0) / nz
        per_member = [np.array([[((i + Fraction(1, 2)) * hr) ** 2 + (z0 + (j + Fraction(1, 2)) * hz - Fraction(c)) ** 2
                                 for j in range(nz)] for i in range(nr)], dtype=object) for c, _ in members]
    shape = (gs["shape"],) if gs["family"] in ("polar", "spherical") else tuple(gs["shape"])
    out = np.zeros(shape, bool)
    for d2, (_, R) in zip(per_member, members):
        R = Fraction(R)
        if R < 0:
            continue
        out |= np.array(d2 < R * R, dtype=bool)
        if knife is not None:
            knife[0] += int(np.sum(d2 == R * R))
    return out


SYM_VARIANTS = ["Spherical bool", "Spherical float", "Diffuse w=0 scaled", "Diffuse w>0 bool",
                "Perturbed2D/3D zero-amplitude w=0", "Perturbed3DAxisSym zero-amplitude w=0 (scaled field)"]


def correspondence_sym_masks(ctx, rng):
    """sharp images of centred / on-axis droplets on PolarSym, SphericalSym and CylindricalSym grids vs
    Model/RenderSym.radial_mask / cyl_mask (exact, coarse-dyadic inputs), through six entry points"""
    from droplets.droplets import DiffuseDroplet, SphericalDroplet
    from droplets.emulsions import Emulsion
    n = ctx.scale(360, 2400)
    lits, metas = [], []
    for i in range(n):
        fam = ("polar", "spherical", "cylindrical", "cylindrical")[i % 4]
        gs = gen_sym_grid(rng, fam, exact_cells=True)
        if not sym_cd_ok(gs):
            ctx.count("sym_mask_case_skipped", "cell centres not exactly dyadic")
            continue
        k = 1 if (fam != "cylindrical" or i % 8 < 6) else rng.choice([0, 2, 3, 4])
        members = []
        for _ in range(k):
            d = gen_droplet(rng, "SphericalDroplet", gs, True, kinds=False)
            members.append((d["position"][-1], d["radius"]))
        variant = (i // 4) % 6
        if fam == "polar" and variant == 5:
            variant = 4
        meta = {"grid": gs, "members": members, "variant": variant if k == 1 else "emulsion"}
        try:
            if k == 1:
                pos = [0.0, 0.0] if fam == "polar" else [0.0, 0.0, members[0][0]]
                m, f = render_mask(variant, gs, pos, members[0][1], rng)
            else:
                grid = make_grid(gs)
                mk = (lambda z, R: SphericalDroplet([0.0, 0.0, z], R)) if i % 16 < 8 else \
                    (lambda z, R: DiffuseDroplet([0.0, 0.0, z], R, 0.0))
                f = np.asarray(Emulsion([mk(z, R) for z, R in members]).get_phasefield(grid).data)
                m = f > 0.5
        except Exception as e:
            ctx.count("exception", "sym-mask:" + exc_kind(e))
            ctx.violations.append({"what": f"sharp rendering raised {exc_kind(e)}: {e}", "check": "symmask",
                                   "input": meta, "found": True})
            continue
        m = np.asarray(m)
        if f is not None and not np.all((np.asarray(f) == 0.0) | (np.asarray(f) == 1.0)):
            ctx.violations.append({"what": "sharp droplet has values other than the two levels", "check": "symmask",
                                   "input": meta, "found": True})
        kn = [0]
        ex = exact_sym_mask(gs, members, kn)
        if m.shape != ex.shape or m.dtype != np.dtype(bool) or not np.array_equal(ex, m):
            ctx.violations.append({"what": "sharp image on a symmetric grid is not the indicator of `distance < radius` "
                                           "(exact rational evaluation; strict inequality)", "check": "symmask",
                                   "input": meta, "image": np.asarray(m, int).ravel().tolist()[:64],
                                   "expected": ex.astype(int).ravel().tolist()[:64], "found": True})
        ctx.count("sym_mask_cells_exactly_on_the_interface", "cells", kn[0])
        ctx.count("sym_mask_cases_with_a_cell_exactly_on_the_interface", kn[0] > 0)
        ml = vlib.listlit([vlib.blit(bool(b)) for b in m.ravel()])
        if fam == "cylindrical":
            g = (f"(cyl {vlib.zlit(gs['shape'][0])} {vlib.zlit(gs['shape'][1])} {vlib.qlit(gs['radius'])} "
                 f"{vlib.qlit(gs['bounds_z'][0])} {vlib.qlit(gs['bounds_z'][1])} {vlib.blit(gs['periodic_z'])})")
            dl = vlib.listlit([f"({vlib.qlit(z)}, {vlib.qlit(R)})" for z, R in members])
            lits.append(f"(Cyl {g} {dl} {ml})")
        else:
            r0, r1 = gs["radius"]
            lits.append(f"(Radial {vlib.qlit(r0)} {vlib.qlit(Fraction(r1 - r0) / gs['shape'])} {vlib.qlit(members[0][1])} "
                        f"{gs['shape']}%nat {ml})")
        metas.append(meta)
        ctx.case(["sym-mask", gs, members, meta["variant"]], nontrivial=bool(np.any(m) and not np.all(m)))
        ctx.count("sym_mask_family", fam + (" periodic z" if gs.get("periodic_z") else ""))
        ctx.count("sym_mask_variant", SYM_VARIANTS[variant] if k == 1 else f"emulsion of {k}")
        ctx.count("sym_mask_fill", "empty" if not np.any(m) else ("full" if np.all(m) else "partial"))
        for key, val in grid_tags(gs).items():
            ctx.count("sym_mask_" + key, val)
        for _, R in members:
            ctx.count("sym_mask_radius", "0" if R == 0 else ("tiny" if R <= 2 ** -6 else "regular"))
    if not lits:
        return
    ctx.sample({"sym_mask_case": lits[2][:300]})
    bad = vlib.run_cases(ctx, "symmask", HEADER_SYM, lits, "agree", shard=ctx.scale(200, 400))
    if bad:
        ctx.broken.append(f"correspondence sharp masks on symmetric grids: Model/RenderSym and the implementation differ "
                          f"on {len(bad)} case(s), first: {json.dumps(metas[bad[0]])[:300]}")
        ctx.extra["sym_mask_disagreements"] = [metas[b] for b in bad[:5]]


HEADER_ANGLE = """From Coq Require Import ZArith QArith Qabs List Bool.
Import ListNotations.
From PD Require Import Model.Grid Model.Render.
Local Open Scope Q_scope.
(* case: difference vector and distance as computed by the implementation (exact), is the angle finite?,
   cos(theta) resp. the 1-d sign as computed by the implementation *)
Definition agree (c : list Q * Q * bool * Q) : bool :=
  let '(diff, dist, finite, val) := c in
  match polar_angles diff dist with
  | Some (Sign1 s) => finite && Qeq_bool (inject_Z s) val
  | Some (Polar2 _ _) => finite
  | Some (Spher3 ct _ _) => finite && Qle_bool (Qabs (ct - val)) (1 # 1000000000)
  | None => negb finite
  end.
"""


def correspondence_angles(ctx, rng):
    """polar_coordinates(ret_angle=True) vs Model/Render.polar_angles on cells whose distance is rational"""
    from droplets.tools import spherical
    lits, metas = [], []
    n = ctx.scale(30, 200)
    for i in range(n):
        d = (1, 2, 3, 3)[i % 4]
        if i % 6 == 5:  # grids with a symmetry axis: droplet on the centre / axis
            gs = gen_sym_grid(rng, ("polar", "spherical", "cylindrical")[(i // 6) % 3])
            d = grid_dim(gs)
            pos = gen_droplet(rng, "SphericalDroplet", gs, True, kinds=False)["position"]
        else:
            gs = gen_cart_grid(rng, d, True, max_n=6 if d < 3 else 4)
            gs["bounds"] = [[lo, hi] for lo, hi in gs["bounds"]]
            pos = [lo + (rng.randrange(nn) + 0.5) * (hi - lo) / nn for (lo, hi), nn in zip(gs["bounds"], gs["shape"])]
            if i % 3 == 0:
                pos = gen_centre(rng, gs, True)
        try:
            grid = make_grid(gs)
            origin = np.array(pos, float)
            with np.errstate(all="ignore"):
                res = spherical.polar_coordinates(grid, origin=origin, ret_angle=True)
                diff = grid.difference_vector(grid.transform(origin, source="cartesian", target="grid"), grid.cell_coords)
        except Exception as e:
            ctx.count("exception", "angles:" + exc_kind(e))
            ctx.violations.append({"what": f"polar_coordinates raised {exc_kind(e)}: {e}", "check": "angles",
                                   "input": {"grid": gs, "position": pos}, "found": True})
            continue
        ctx.count("angle_grid_family", gs["family"])
        dist = np.asarray(res[0])
        for idx in itertools.product(*[range(s) for s in grid.shape]):
            dv = [float(x) for x in diff[idx]]
            dq = Fraction(float(dist[idx]))
            if dq * dq != sum(Fraction(x) ** 2 for x in dv):
                continue  # irrational distance: outside the rational model
            angs = [float(a[idx]) for a in res[1:]]
            finite = all(math.isfinite(a) for a in angs)
            val = Fraction(0)
            if finite and d == 1:
                val = Fraction(angs[0])
            elif finite and d == 3:
                val = Fraction(math.cos(angs[0]))
            lits.append(f"({vlib.listlit(dv, vlib.qlit)}, {vlib.qlit(dq)}, {vlib.blit(finite)}, {vlib.qlit(val)})")
            metas.append({"grid": gs, "position": pos, "cell": list(idx), "angles": [str(a) for a in angs]})
            ctx.case(["angle", gs, pos, list(idx)], nontrivial=True)
            ctx.count("angle_case_dim", d)
            ctx.count("angle_case_dist", "zero" if dq == 0 else "rational>0")
    bad = vlib.run_cases(ctx, "angles", HEADER_ANGLE, lits, "agree", shard=400)
    for b in bad[:3]:
        ctx.violations.append({"what": "polar_coordinates: angle not finite / differs from the guarded model "
                                       "(defined for every cell, cos(theta) in [-1, 1])", "check": "angles",
                               "input": metas[b], "found": True})
    if bad:
        ctx.broken.append(f"correspondence angles: Model/Render.polar_angles and polar_coordinates differ on {len(bad)} cell(s)")


HEADER_EMQ = """From Coq Require Import ZArith QArith Qabs List Bool.
Import ListNotations.
From PD Require Import Gen.Gen_shapes.
Local Open Scope Q_scope.
(* member values at one cell (exact), value of Emulsion.get_phasefield at that cell *)
Definition agree (c : list Q * Q) : bool :=
  let '(members, v) := c in Qle_bool (Qabs (emulsion_cell_Q members - v)) (1 # 1000000000000).
"""


def correspondence_emulsion_q(ctx, rng, cases):
    """generated sum/clip (on rationals) vs Emulsion.get_phasefield, cell by cell"""
    from droplets.emulsions import Emulsion
    lits = []
    for case in cases:
        try:
            grid = make_grid(case["grid"])
            drops = [make_droplet(d) for d in case["droplets"]]
            f = np.asarray(Emulsion(drops).get_phasefield(grid).data, dtype=float)
            members = [np.asarray(d.get_phase_field(grid).data, dtype=float) for d in drops]
        except Exception:
            continue  # reported by the oracle
        if not np.all(np.isfinite(f)) or not all(np.all(np.isfinite(m)) for m in members):
            continue
        flat = [m.ravel() for m in members]
        cells = list(range(f.size))
        rng.shuffle(cells)
        tot = sum(flat) if flat else np.zeros(f.size)
        pick = cells[:3] + ([int(np.argmax(tot))] if f.size else [])
        for c in pick:
            lits.append(f"({vlib.listlit([float(m[c]) for m in flat], vlib.qlit)}, {vlib.qlit(float(f.ravel()[c]))})")
    if not lits:
        return
    bad = vlib.run_cases(ctx, "emq", HEADER_EMQ, lits, "agree", shard=500)
    ctx.count("emulsion_cells_compared_in_coq", "n", len(lits))
    if bad:
        ctx.broken.append(f"correspondence emulsion: generated sum/clip and Emulsion.get_phasefield differ on "
                          f"{len(bad)} cell(s), first: {lits[bad[0]][:200]}")


# =========================================================================================
# check / replay
# =========================================================================================
def _strip(case):
    return {k: v for k, v in case.items() if not k.startswith("_")}


def count_case_dimensions(ctx, case):
    """evidence histogram of the input dimensions of one rendering case (notes/input_dimensions.md)"""
    gs, ds = case["grid"], case["droplet"]
    for key, val in grid_tags(gs).items():
        ctx.count(key, val)
    for key, val in centre_tags(gs, ds["position"], ds["radius"]).items():
        for v in (val if isinstance(val, list) else [val]):
            ctx.count(key, v)
    for key, val in amp_tags(ds).items():
        ctx.count(key, val)
    if gs["family"] == "cylindrical":
        nr, nz = gs["shape"]
        hz = (gs["bounds_z"][1] - gs["bounds_z"][0]) / nz
        ctx.count("cyl_droplet_length_in_z_cells", "longer than the number of radial cells"
                  if 2 * ds["radius"] / hz > nr else "at most the number of radial cells")
        z, (z0, z1) = ds["position"][2], gs["bounds_z"]
        ctx.count("cyl_centre_z", "outside the z range" if not z0 <= z <= z1 else
                  ("on a z face of the grid" if z in (z0, z1) else "inside the z range"))
    ck = ds.get("ctor") or {}
    ctx.count("ctor_position_type", pos_kind_used(ds["position"], ck.get("pos", "ndarray")))
    ctx.count("ctor_radius_type", num_kind_used(ds["radius"], ck.get("num", "float")))
    if ds["cls"] != "SphericalDroplet":
        ctx.count("ctor_width_type", num_kind_used(ds.get("width"), ck.get("num", "float")))
    if "amplitudes" in ds:
        ctx.count("ctor_amplitudes_type", pos_kind_used(ds["amplitudes"], ck.get("amp", "list")))
    ctx.count("provenance", ds.get("prov", "fresh"))
    ctx.count("geometry_length_scale", f"2^{round(math.log2(gs.get('length_scale', 1.0)))}")
    v0, v1 = float(case["vmin"]), float(case["vmax"])
    ctx.count("vmin_vmax_type", "keywords omitted (defaults)" if case.get("vkw") == "omitted" and (v0, v1) == (0.0, 1.0)
              else v_kind_used(v0, v1, case.get("vkind", "float")))
    ctx.count("label_argument", "omitted" if "label" not in case else ("None" if case["label"] is None else "str"))
    ex = case.get("extra")
    ctx.count("typed_image_dtype", "not requested" if not ex else f"{ex['dtype']} ({ex.get('how', 'kw')})")
    ctx.count("rendered_twice", bool(case.get("repeat")))
    ctx.count("cells_on_the_knife_edge_in_case", "some" if case.get("_knife_cells") else "none")


def run_oracle(ctx, rng, scale_q, scale_t, record=True):
    """the property oracle over the implementation; returns failures (dicts)"""
    fails = []
    hist = ctx.count if record else None
    render_cases = gen_render_cases(rng, ctx.scale(scale_q, scale_t))
    for case in render_cases:
        fs = check_render(case, hist)
        fails += [{**f, "input": _strip(f["input"])} for f in fs]
        if record:
            ds, gs = case["droplet"], case["grid"]
            fam = gs["family"] + (str(len(gs["shape"])) if gs["family"] == "cartesian" else "")
            ctx.case(["render", _strip(case)], nontrivial=case.get("_nontrivial", False))
            ctx.count("class", ds["cls"])
            ctx.count("grid_family", fam)
            ctx.count("class_x_grid", ds["cls"] + " on " + fam)
            if gs["family"] == "cartesian":
                ctx.count("periodic_mask", "".join("P" if p else "-" for p in gs["periodic"]))
            elif gs["family"] == "cylindrical":
                ctx.count("periodic_mask", "cyl_periodic_z" if gs["periodic_z"] else "cyl_open_z")
            w = ds.get("width", "n/a")
            ctx.count("width", "None" if w is None else ("0" if w == 0 else ("n/a" if w == "n/a" else "positive")))
            ctx.count("radius", "0" if ds["radius"] == 0 else
                      ("tiny" if ds["radius"] / gs.get("length_scale", 1.0) <= 2 ** -6 else "regular"))
            ctx.count("nonzero_amplitudes", sum(1 for a in ds.get("amplitudes", []) if a != 0))
            v0, v1 = case["vmin"], case["vmax"]
            ctx.count("vmin_vs_vmax", "<" if v0 < v1 else (">" if v0 > v1 else "="))
            ctx.count("vmin_vmax_signs", ("both negative" if max(v0, v1) < 0 else
                                          ("both >= 0" if min(v0, v1) >= 0 else "opposite signs")))
            count_case_dimensions(ctx, case)
    if record and render_cases:
        ctx.sample({"render_case": _strip(render_cases[len(CORPUS_RENDER)])})
    for case in gen_roll_cases(rng, ctx.scale(scale_q // 4, scale_t // 4)):
        fs = check_roll(case, hist)
        fails += [{**f, "input": _strip(f["input"])} for f in fs]
        if record:
            ctx.case(["roll", _strip(case)], nontrivial=case.get("_nontrivial", False))
            ctx.count("roll", f"{case['droplet']['cls']} exact={case['exact']}")
            ctx.count("roll_k", case["k"])
            gs = case["grid"]
            ctx.count("roll_axis", f"axis {case['axis']} of {len(gs['shape'])} "
                                   f"[{''.join('P' if p else '-' for p in gs['periodic'])}]")
            ctx.count("roll_axis_cells", "1 cell" if gs["shape"][case["axis"]] == 1 else
                      ("2 cells" if gs["shape"][case["axis"]] == 2 else ">= 3 cells"))
            for key, val in grid_tags(gs).items():
                if key in ("grid_spacing_per_axis", "grid_origin"):
                    ctx.count("roll_" + key, val)
            ctx.count("roll_provenance", case["droplet"].get("prov", "fresh"))
            ctx.count("roll_length_scale", f"2^{round(math.log2(gs.get('length_scale', 1.0)))}")
    em_cases = gen_emulsion_cases(rng, ctx.scale(scale_q // 8, scale_t // 8))
    nclip = 0
    for case in em_cases:
        fs = check_emulsion(case, hist)
        fails += [{**f, "input": _strip(f["input"])} for f in fs]
        nclip += bool(case.get("_clipped"))
        if record:
            ctx.case(["emulsion", _strip(case)], nontrivial=case.get("_nontrivial", False))
            m = len(case["droplets"])
            ctx.count("emulsion_members", m if m <= 5 else ("6..12" if m <= 12 else "13..40"))
            ctx.count("emulsion_classes", "empty" if not m else
                      ("one class" if len({d["cls"] for d in case["droplets"]}) == 1 else "mixed classes"))
            ctx.count("emulsion_build", case.get("build", "list"))
            ctx.count("emulsion_grid_family", case["grid"]["family"] + (str(len(case["grid"]["shape"]))
                                                                      if case["grid"]["family"] == "cartesian" else ""))
            ctx.count("emulsion_permutation", "identity" if case["perm"] == sorted(case["perm"]) else "non-trivial")
    if record:
        ctx.count("emulsion_cases_where_clip_matters", "n", nclip)
        ctx.sample({"emulsion_case": _strip(em_cases[2])})
    for case in gen_mismatch_cases(rng):
        fs = check_mismatch(case, hist)
        fails += fs
        if record:
            ctx.case(["mismatch", case], nontrivial=True)
    return fails, em_cases


def run_sequences(ctx, cases: list, procs) -> list:
    """the sequence oracle (state kept between calls) with the reference digests of the forked servers"""
    import time
    t0 = time.time()
    refs = collect_references(procs)
    ctx.extra["sequence_wait_for_references_s"] = round(time.time() - t0, 2)
    if refs is None:
        ctx.broken.append("sequence oracle: the reference processes (fresh-state evaluation) did not deliver")
        refs = {}
    fails = []
    for case in cases:
        if not refs:
            refs_case = {step_key(case, st): out_digest(step_fresh(case, st)) for st in case["steps"] if st["op"] != "scribble"}
        fs = check_sequence(case, ctx.count, refs if refs else refs_case)
        fails += [{**f, "input": _strip(f["input"])} for f in fs]
        ctx.case(["sequence", _strip(case)], nontrivial=case.get("_nontrivial", False))
        t = case["tags"]
        g0 = case["grids"][0]
        ctx.count("sequence_first_grid", g0["family"] + (str(len(g0["shape"])) if g0["family"] == "cartesian" else ""))
        ctx.count("sequence_class_of_first_droplet", case["droplets"][0]["cls"])
        for k in t["grid_variants"]:
            ctx.count("sequence_second_grid", k)
        for k in t["droplet_twins"]:
            ctx.count("sequence_twin_droplet", k)
        ctx.count("sequence_order_of_the_two_grids", "A then B then A" if t["first_grid_first"] else "B then A then B")
        ctx.count("sequence_centre_outside_on_periodic_axis_at_first_render", t["centre_outside_on_periodic_axis"])
        pa, pb = (any(g.get("periodic", [g.get("periodic_z", False)])) if g["family"] in ("cartesian", "cylindrical")
                  else False for g in case["grids"][:2])
        ctx.count("sequence_periodicity_of_the_two_grids", f"{'periodic' if pa else 'open'} / {'periodic' if pb else 'open'}")
        ctx.count("sequence_length", "<= 8 steps" if len(case["steps"]) <= 8 else ("9..12 steps" if len(case["steps"]) <= 12 else "> 12 steps"))
        ctx.count("sequence_pool", f"{len(case['grids'])} grids, {len(case['droplets'])} droplets")
        seen = set()
        for st in case["steps"]:
            ctx.count("sequence_step", st["op"] + (" (vmin / vmax objects shared between calls)" if st.get("vshared") else ""))
            key = json.dumps({k: v for k, v in st.items() if k != "note"}, sort_keys=True)
            if st["op"] != "scribble":
                ctx.count("sequence_step_repeats_an_earlier_call", key in seen)
                seen.add(key)
        ctx.count("sequence_emulsion_of_the_very_member_objects", sum(1 for st in case["steps"] if st["op"] == "emulsion"
                                                                      and not case["emulsions"][st["e"]].get("copy", True)))
    ctx.count("sequence_reference", "fresh objects in processes forked before anything was rendered" if refs
              else "fresh objects in this process only (reference processes failed)")
    if cases:
        ctx.sample({"sequence_case": {k: v for k, v in _strip(cases[0]).items() if k != "tags"}})
    ctx.extra["sequence_oracle_s"] = round(time.time() - t0, 2)
    return fails


def check(ctx: vlib.Ctx) -> int:
    import droplets
    import gen_shapes
    ctx.extra["implementation"] = str(droplets.__file__)
    # sequences (state kept between calls): the references are evaluated in processes forked NOW, before this
    # process renders anything; twice as many cases when the translator refuses the current source
    try:
        gen_shapes.gen_shapes()
        refused = False
    except Exception:
        refused = True
    seq_cases = gen_sequence_cases(random.Random(ctx.seed + 7), ctx.scale(160, 1400) * (2 if refused else 1))
    seq_procs = start_references(ctx, seq_cases)
    ok, fresh = prove_with_fallback(ctx)
    gen_ok = not any("translator failed closed" in n for n in ctx.notes)
    if not gen_ok:
        ctx.extra["translator_failed_closed"] = [n for n in ctx.notes if "translator failed closed" in n]
    # (b) interval sample goals: generated (or golden) expressions vs the implementation's values
    if ok:
        run_sample_goals(ctx, random.Random(ctx.seed + 1))
    # (c) correspondence inside Coq
    correspondence_masks(ctx, random.Random(ctx.seed + 2))
    correspondence_sym_masks(ctx, random.Random(ctx.seed + 6))
    correspondence_angles(ctx, random.Random(ctx.seed + 3))
    # (d) property oracle over the implementation (always; larger stream when something no longer checks)
    big = bool(ctx.broken) or not fresh
    fails, em_cases = run_oracle(ctx, random.Random(ctx.seed + 4), 4000 if not big else 8000, 48000)
    if ok:
        correspondence_emulsion_q(ctx, random.Random(ctx.seed + 5), em_cases)
    fails += run_sequences(ctx, seq_cases, seq_procs)
    # a short, deterministic list of violations: at most two failing inputs per kind of failure
    cand = list(ctx.violations) + [{**f, "found": True} for f in fails]
    ctx.violations, seen = [], {}
    for v in cand:
        key = (v.get("check"), v["what"].split(":")[0][:60])
        seen[key] = seen.get(key, 0) + 1
        if seen[key] <= 2 and len(ctx.violations) < 10:
            ctx.violations.append({**v, "broken": ctx.broken[:3]})
    ctx.extra["oracle_failures_total"] = len(fails)
    ctx.notes.append("input dimensions audited against notes/input_dimensions.md (see the module docstring and the "
                     "histogram keys grid_*, cyl_*, centre_*, periodic_faces_crossed, touches_*, amplitudes_*, ctor_*, "
                     "provenance, vmin_vmax_*, typed_image_dtype, label_*, rendered_twice, emulsion_*, roll_*, mask_*, "
                     f"sym_mask_*, angle_grid_family, sequence_* = state kept between calls); suspected defects kept "
                     f"out of the judgement: {len(SUSPECTED)}")
    ctx.extra["failure_kinds"] = {f"{k[0]}: {k[1]}": n for k, n in seen.items()}
    # known finding F19 (periodic cylindrical grids are never wrapped in z by py-pde 0.58.0): replay the
    # recorded input; print KNOWN-FINDING while it still fails and the entry is listed
    if any(e.get("id") == "F19" and e.get("kind") == "finding" for e in vlib.load_known()):
        msg = f19_replay()
        if msg:
            ctx.known_printed.append(msg)
    return vlib.finish(ctx, "", TRUSTED, ASSUME, RULE)


def f19_replay():
    """SphericalDroplet([0,0,0.5],1.25) on CylindricalSymGrid(2,(0,4),(2,4),periodic_z=True): the row r=0.5
    should be [1,1,0,1] under the z-periodic metric; returns a description while it is not."""
    from pde import CylindricalSymGrid
    from droplets import SphericalDroplet
    g = CylindricalSymGrid(2, (0, 4), (2, 4), periodic_z=True)
    row = SphericalDroplet([0, 0, 0.5], 1.25).get_phase_field(g).data[0].tolist()
    if row != [1.0, 1.0, 0.0, 1.0]:
        return ("rendering on a periodic CylindricalSymGrid does not use the z-periodic metric (py-pde 0.58.0 "
                f"difference_vector never wraps z): SphericalDroplet([0,0,0.5],1.25) on CylindricalSymGrid(2,(0,4),(2,4),"
                f"periodic_z=True) renders row r=0.5 as {row}, periodic metric gives [1,1,0,1]; roll property fails likewise")
    return None


def replay(path: str) -> int:
    obj = json.load(open(path))
    print(json.dumps(obj, indent=1)[:3000])
    kind, inp = obj.get("check"), obj.get("input")
    if kind in CHECKS and inp is not None:
        fs = CHECKS[kind](inp)
        print(f"oracle `{kind}` on the stored input, current tree: {len(fs)} failure(s)")
        for f in fs[:5]:
            print("  ", {k: v for k, v in f.items() if k != "input"})
        return 1 if fs else 0
    if kind == "mask" and inp is not None and "radius" in inp:
        m, f = render_mask(inp["variant"], inp["grid"], inp["position"], inp["radius"], random.Random(0))
        ex = exact_mask(inp["grid"], inp["position"], inp["radius"])
        print("implementation:", np.asarray(m, int).ravel().tolist())
        print("exact d2 < r2 :", ex.astype(int).ravel().tolist())
        levels = f is None or bool(np.all((f == 0.0) | (f == 1.0)))
        print("only the two levels occur:", levels)
        return 0 if (np.array_equal(np.asarray(m, bool), ex) and levels) else 1
    if kind == "mask" and inp is not None and "members" in inp:
        from droplets.droplets import DiffuseDroplet
        from droplets.emulsions import Emulsion
        drops = [DiffuseDroplet(np.array(p, float), r, 0.0) for p, r in inp["members"]]
        f = np.asarray(Emulsion(drops).get_phasefield(make_grid(inp["grid"])).data)
        ex = np.zeros(inp["grid"]["shape"], bool)
        for p, r in inp["members"]:
            ex |= exact_mask(inp["grid"], p, r)
        good = bool(np.all((f == 0.0) | (f == 1.0))) and np.array_equal(f > 0.5, ex)
        print("emulsion of sharp droplets is the union of the indicators:", good)
        return 0 if good else 1
    if kind == "symmask" and inp is not None:
        from droplets.droplets import SphericalDroplet
        from droplets.emulsions import Emulsion
        gs, members = inp["grid"], inp["members"]
        ex = exact_sym_mask(gs, members)
        if inp.get("variant") == "emulsion" or len(members) != 1:
            f = np.asarray(Emulsion([SphericalDroplet([0.0, 0.0, z], R) for z, R in members])
                           .get_phasefield(make_grid(gs)).data)
            m = f > 0.5
        else:
            pos = [0.0, 0.0] if gs["family"] == "polar" else [0.0, 0.0, members[0][0]]
            m, f = render_mask(inp["variant"], gs, pos, members[0][1], random.Random(0))
        print("implementation:", np.asarray(m, int).ravel().tolist())
        print("exact d2 < r2 :", ex.astype(int).ravel().tolist())
        levels = f is None or bool(np.all((np.asarray(f) == 0.0) | (np.asarray(f) == 1.0)))
        print("only the two levels occur:", levels)
        return 0 if (np.array_equal(np.asarray(m, bool), ex) and levels) else 1
    if kind == "angles" and inp is not None:
        from droplets.tools import spherical
        res = spherical.polar_coordinates(make_grid(inp["grid"]), origin=np.array(inp["position"], float), ret_angle=True)
        fin = all(np.all(np.isfinite(a)) for a in res)
        print("all angles finite on the current tree:", fin)
        return 0 if fin else 1
    ctx = vlib.Ctx("C03", "quick", 0)
    fails, _ = run_oracle(ctx, random.Random(4), 400, 400, record=False)
    print("no stored input; oracle failures on a fresh stream:", len(fails))
    for f in fails[:5]:
        print("  ", f["what"])
    return 1 if fails else 0
