"""C03 -- a rendered phase field is a faithful, finite picture of the droplet.

(a) proofs: Properties/C03.v over Gen_shapes (regenerated from the current source; golden fallback)
(b) interval sample goals: generated profile / scaling expressions vs values computed by the implementation
(c) D-layer correspondence inside Coq: sharp masks of spheres / emulsions on Cartesian grids (exact, CD inputs),
    the angle computation of polar_coordinates, the emulsion sum/clip on rationals
(d) property oracle (Python, from the property text) on the real implementation: all five classes,
    every compatible grid family
"""
from __future__ import annotations

import itertools
import json
import logging
import math
import random
import warnings
from fractions import Fraction

import numpy as np

import vlib

warnings.simplefilter("ignore")
logging.disable(logging.WARNING)

EPS = 2.0 ** -52
KNIFE = 1e-9  # relative width of the excluded knife edge d = R (float evaluation of a real statement)

TRUSTED = [
    "Coq 8.16.1 kernel + vm_compute (no native_compute)",
    "harness/gen_shapes.py + harness/translate.py (Python-ast translator of the _get_phase_field bodies, the scaling "
    "line and Emulsion.get_phasefield; validated by interval sample goals and by the correspondence on every run)",
    "Interval tactic (sample goals only)",
    "py-pde 0.58.0 grid geometry (cell_coords, transform, difference_vector) -- modelled in Model/Grid.v as it computes, "
    "compared cell by cell inside Coq on coarse-dyadic inputs; CylindricalSymGrid.difference_vector never wraps z "
    "(dependency behaviour, modelled as is)",
    "numpy elementwise semantics: bool.astype(float) in {0.0, 1.0}, np.clip = minimum(maximum(x, lo), hi), "
    "ScalarField(grid) = zeros (checked per sample)",
    "scipy.special.sph_harm_y (harmonics of the perturbed 3-d classes; compared with an independent Legendre "
    "recurrence in the oracle)",
]
ASSUME = [
    "R-layer theorems are over Coq's reals; the implementation evaluates in binary64, so statements about the "
    "midpoint are compared outside a relative knife edge |d - R| <= 1e-9 max(d, R) and outside the value resolution "
    "8 ulp of max(|vmin|, |vmax|)",
    "the sharp comparison norm(diff) < radius is modelled on squares (0 <= r and |diff|^2 < r^2); exact for the "
    "coarse-dyadic inputs of the correspondence (multiples of 2^-6, magnitude < 2^7)",
    "interface distance of perturbed shapes is an abstract real in the theorems (direction dependence is C13); the "
    "oracle recomputes it independently",
    "for vmin > vmax the inside value is the smaller one: `exceeds the midpoint` is read mirrored (below the "
    "midpoint iff inside); for vmin = vmax the field is constant and no midpoint statement is made",
    "compatible grid = droplet on the symmetry centre/axis for PolarSym/SphericalSym/CylindricalSym grids",
]
RULE = ("one evaluation = one (droplet, grid, vmin/vmax) rendering or one roll / emulsion / dimension-mismatch / "
        "mask-correspondence / sample-goal case; distinct = sha1 of the canonical case description; a case is "
        "non-trivial when the image is neither constant nor empty of inside cells (roll, emulsion, mask cases: "
        "at least one inside and one outside cell), sample goals always")

DEPS = ["Proofs/C03.vo", "Model/Samples.vo"]
CLASSES = ["SphericalDroplet", "DiffuseDroplet", "PerturbedDroplet2D", "PerturbedDroplet3D",
           "PerturbedDroplet3DAxisSym"]
VPAIRS = [(0.0, 1.0), (-1.0, 1.0), (0.25, 0.75), (1.0, 0.0), (2.0, -3.0), (0.5, 0.5), (0.1, 0.7), (-2.5, -0.5)]


# =========================================================================================
# building grids and droplets from JSON-able specs
# =========================================================================================
def make_grid(gs: dict):
    from pde import CartesianGrid, CylindricalSymGrid, PolarSymGrid, SphericalSymGrid
    fam = gs["family"]
    if fam == "cartesian":
        return CartesianGrid([tuple(b) for b in gs["bounds"]], list(gs["shape"]), periodic=list(gs["periodic"]))
    if fam == "polar":
        return PolarSymGrid(tuple(gs["radius"]), gs["shape"])
    if fam == "spherical":
        return SphericalSymGrid(tuple(gs["radius"]), gs["shape"])
    if fam == "cylindrical":
        return CylindricalSymGrid(gs["radius"], tuple(gs["bounds_z"]), list(gs["shape"]), periodic_z=gs["periodic_z"])
    raise ValueError(fam)


def grid_dim(gs: dict) -> int:
    if gs["family"] == "cartesian":
        return len(gs["shape"])
    return {"polar": 2, "spherical": 3, "cylindrical": 3}[gs["family"]]


def make_droplet(ds: dict):
    import droplets.droplets as dd
    cls = getattr(dd, ds["cls"])
    pos = np.array(ds["position"], dtype=float)
    if ds["cls"] == "SphericalDroplet":
        return cls(pos, ds["radius"])
    if ds["cls"] == "DiffuseDroplet":
        return cls(pos, ds["radius"], ds["width"])
    return cls(pos, ds["radius"], ds["width"], list(ds["amplitudes"]))


def exc_kind(e: BaseException) -> str:
    n = type(e).__name__
    return n if n in ("ValueError", "TypeError", "DimensionError", "NotImplementedError", "ZeroDivisionError",
                      "FloatingPointError", "IndexError", "AttributeError") else "Other:" + n


# =========================================================================================
# independent reference geometry (from the property text: distance under the grid's periodic metric,
# direction of the cell as seen from the centre)
# =========================================================================================
def ref_geometry(gs: dict, pos):
    """-> dist, angles (tuple), ambiguous-direction mask, typical discretization"""
    fam = gs["family"]
    pos = [float(p) for p in pos]
    if fam == "cartesian":
        axes, hs = [], []
        for (lo, hi), n in zip(gs["bounds"], gs["shape"]):
            h = (hi - lo) / n
            axes.append(lo + (np.arange(n) + 0.5) * h)
            hs.append(h)
        mesh = np.meshgrid(*axes, indexing="ij")
        diffs, amb = [], np.zeros(mesh[0].shape, bool)
        for k, m in enumerate(mesh):
            d = m - pos[k]
            if gs["periodic"][k]:
                L = gs["bounds"][k][1] - gs["bounds"][k][0]
                d = d - L * np.floor(d / L + 0.5)
                amb |= np.abs(np.abs(d) - L / 2) <= KNIFE * L
            diffs.append(d)
        typ = float(np.mean(hs))
    elif fam in ("polar", "spherical"):
        r0, r1 = gs["radius"]
        n = gs["shape"]
        h = (r1 - r0) / n
        r = r0 + (np.arange(n) + 0.5) * h
        zero = np.zeros_like(r)
        diffs = [r, zero] if fam == "polar" else [zero, zero, r]  # cells along x (polar) / along z (spherical)
        amb = np.zeros(r.shape, bool)
        typ = float(h)
    elif fam == "cylindrical":
        nr, nz = gs["shape"]
        z0, z1 = gs["bounds_z"]
        hr, hz = gs["radius"] / nr, (z1 - z0) / nz
        r = (np.arange(nr) + 0.5) * hr
        z = z0 + (np.arange(nz) + 0.5) * hz
        R, Z = np.meshgrid(r, z, indexing="ij")
        # py-pde 0.58.0 never wraps z on a periodic cylinder (dependency behaviour, modelled as is)
        diffs = [R, np.zeros_like(R), Z - pos[2]]
        amb = np.zeros(R.shape, bool)
        typ = float((hr + hz) / 2)
    else:
        raise ValueError(fam)
    dist = np.sqrt(sum(d * d for d in diffs))
    dim = len(diffs)
    if dim == 1:
        angles = (np.sign(diffs[0]),)
    elif dim == 2:
        angles = (np.arctan2(diffs[1], diffs[0]),)
    else:
        with np.errstate(all="ignore"):
            ct = np.where(dist > 0, diffs[2] / np.where(dist > 0, dist, 1.0), 1.0)
        angles = (np.arccos(np.clip(ct, -1.0, 1.0)), np.arctan2(diffs[1], diffs[0]))
    return dist, angles, amb, typ


def _legendre(l: int, m: int, x):
    """associated Legendre function P_l^m(x) with Condon-Shortley phase, 0 <= m <= l (standard recurrence)"""
    x = np.asarray(x, dtype=float)
    pmm = np.ones_like(x)
    if m > 0:
        s = np.sqrt(np.maximum(0.0, (1.0 - x) * (1.0 + x)))
        f = 1.0
        for _ in range(m):
            pmm = -pmm * f * s
            f += 2.0
    if l == m:
        return pmm
    pm1 = x * (2 * m + 1) * pmm
    if l == m + 1:
        return pm1
    for ll in range(m + 2, l + 1):
        pll = ((2 * ll - 1) * x * pm1 - (ll + m - 1) * pmm) / (ll - m)
        pmm, pm1 = pm1, pll
    return pm1


def _ylm_real(l: int, m: int, theta, phi):
    am = abs(m)
    norm = math.sqrt((2 * l + 1) / (4 * math.pi) * math.factorial(l - am) / math.factorial(l + am))
    p = _legendre(l, am, np.cos(theta))
    if m == 0:
        return norm * p
    if m > 0:
        return (-1) ** m * math.sqrt(2) * norm * p * np.cos(m * phi)
    return (-1) ** m * math.sqrt(2) * norm * p * np.sin(am * phi)


def ref_interface(ds: dict, angles):
    """interface distance in the direction of every cell, recomputed from the class documentation"""
    cls, R = ds["cls"], float(ds["radius"])
    if cls in ("SphericalDroplet", "DiffuseDroplet"):
        return np.full(np.shape(angles[0]), R)
    amps = [float(a) for a in ds["amplitudes"]]
    s = np.ones(np.shape(angles[0]))
    if cls == "PerturbedDroplet2D":
        phi = angles[0]
        for n in range(1, (len(amps) + 1) // 2 + 1):
            a = amps[2 * n - 2]
            b = amps[2 * n - 1] if 2 * n - 1 < len(amps) else 0.0
            s = s + a * np.sin(n * phi) + b * np.cos(n * phi)
    elif cls == "PerturbedDroplet3D":
        theta, phi = angles
        for k, a in enumerate(amps, 1):
            l = math.isqrt(k)
            s = s + a * _ylm_real(l, k - l * (l + 1), theta, phi)
    elif cls == "PerturbedDroplet3DAxisSym":
        theta = angles[0]
        for l, a in enumerate(amps, 1):
            s = s + a * _ylm_real(l, 0, theta, 0.0)
    else:
        raise ValueError(cls)
    return R * s


def amp_sensitivity(ds: dict) -> float:
    """bound on |d interface / d angle| / radius (for the ambiguity of directions near the centre)"""
    amps = [abs(float(a)) for a in ds.get("amplitudes", [])]
    if ds["cls"] == "PerturbedDroplet2D":
        return sum(((k // 2) + 1) * a for k, a in enumerate(amps))
    return sum((math.isqrt(k) + 1) ** 2 * a for k, a in enumerate(amps, 1))


# =========================================================================================
# the property oracle for one rendering
# =========================================================================================
def check_render(case: dict, hist=None) -> list[dict]:
    """All single-image clauses of the property text on the real implementation."""
    gs, ds, vmin, vmax = case["grid"], case["droplet"], float(case["vmin"]), float(case["vmax"])
    out = []

    def fail(what, **kw):
        out.append({"what": what, "check": "render", "input": case, **kw})

    try:
        grid = make_grid(gs)
        drop = make_droplet(ds)
    except Exception as e:  # valid inputs by construction
        if hist is not None:
            hist("exception", "construct:" + exc_kind(e))
        fail(f"constructing a valid droplet/grid raised {exc_kind(e)}: {e}")
        return out
    try:
        with np.errstate(all="ignore"):
            f = np.asarray(drop.get_phase_field(grid, vmin=vmin, vmax=vmax).data)
            fb = np.asarray(drop._get_phase_field(grid, dtype=bool))
    except Exception as e:
        if hist is not None:
            hist("exception", "render:" + exc_kind(e))
        fail(f"rendering raised {exc_kind(e)}: {e}")
        return out
    if hist is not None:
        hist("exception", "none")
    dist, angles, amb, typ = ref_geometry(gs, ds["position"])
    if f.shape != dist.shape or fb.shape != dist.shape:
        fail(f"field has shape {f.shape}, grid has {dist.shape}")
        return out
    # ---- finite
    if not np.all(np.isfinite(f)):
        idx = tuple(int(i) for i in np.argwhere(~np.isfinite(f))[0])
        fail("field is not finite", cell=idx, value=str(f[idx]))
        return out
    # ---- between vmin and vmax
    scale = max(abs(vmin), abs(vmax), abs(vmax - vmin))
    tol = 8 * EPS * scale
    lo, hi = min(vmin, vmax), max(vmin, vmax)
    if f.min() < lo - tol or f.max() > hi + tol:
        idx = tuple(int(i) for i in np.argwhere((f < lo - tol) | (f > hi + tol))[0])
        fail("value outside [vmin, vmax]", cell=idx, value=float(f[idx]))
    # ---- inside / outside
    iface = ref_interface(ds, angles)
    inside = dist < iface
    knife = np.abs(dist - iface) <= KNIFE * np.maximum(np.maximum(np.abs(dist), np.abs(iface)), 1e-300)
    perturbed = ds["cls"].startswith("Perturbed")
    if perturbed:
        # the direction of a cell (almost) on the centre or half a period away is not determined
        sens = amp_sensitivity(ds) * abs(float(ds["radius"]))
        knife |= amb & (sens > 0)
        if sens > 0:
            with np.errstate(all="ignore"):
                knife |= np.abs(dist - iface) <= 64 * EPS * sens * (1 + typ * 64 / np.maximum(dist, 1e-300))
    w = ds.get("width", 0.0) if ds["cls"] != "SphericalDroplet" else 0.0
    w_eff = typ if w is None else float(w)
    ok = ~knife
    if hist is not None:
        hist("cells", "excluded: knife edge / undetermined direction", int(knife.sum()))
        hist("cells", "compared with the geometry", int(ok.sum()))
    # dtype=bool image: the indicator
    if np.any((fb != inside) & ok):
        idx = tuple(int(i) for i in np.argwhere((fb != inside) & ok)[0])
        fail("boolean image differs from `distance < interface distance`", cell=idx, image=bool(fb[idx]),
             dist=float(dist[idx]), interface=float(iface[idx]))
    v_in, v_out = vmax, vmin
    if w_eff == 0:
        exp_ = np.where(inside, v_in, v_out)
        bad = (np.abs(f - exp_) > tol) & ok
        if np.any(bad):
            idx = tuple(int(i) for i in np.argwhere(bad)[0])
            fail("sharp droplet is not the indicator", cell=idx, value=float(f[idx]), expected=float(exp_[idx]),
                 dist=float(dist[idx]), interface=float(iface[idx]))
    elif vmin != vmax:
        mid = (vmin + vmax) / 2
        with np.errstate(all="ignore"):
            margin = 0.5 * np.abs(np.tanh((iface - dist) / w_eff)) * abs(vmax - vmin)
        res_ok = ok & (margin > 16 * EPS * scale)  # value resolution near the midpoint
        if hist is not None:
            hist("cells", "excluded: midpoint below value resolution", int((ok & ~res_ok).sum()))
        side = (f > mid) if vmin < vmax else (f < mid)
        bad = (side != inside) & res_ok
        if np.any(bad):
            idx = tuple(int(i) for i in np.argwhere(bad)[0])
            fail("cell is on the inside-value side of the midpoint although outside (or vice versa)", cell=idx,
                 value=float(f[idx]), midpoint=mid, dist=float(dist[idx]), interface=float(iface[idx]))
    else:
        if np.any(np.abs(f - vmin) > tol):
            fail("vmin == vmax but the field is not constant")
    # ---- spherical classes: value never increases with distance
    if not perturbed:
        order = np.argsort(dist.ravel(), kind="stable")
        keep = ok.ravel()[order]
        fs = f.ravel()[order][keep]
        dsrt = dist.ravel()[order][keep]
        if fs.size > 1:
            mtol = tol + (8 * EPS * float(dsrt.max() + 1) / w_eff * abs(vmax - vmin) if w_eff > 0 else 0.0)
            inc = np.diff(fs) if vmin <= vmax else -np.diff(fs)
            if np.any(inc > mtol):
                j = int(np.argmax(inc > mtol))
                fail("value increases with distance", dist_pair=[float(dsrt[j]), float(dsrt[j + 1])],
                     value_pair=[float(fs[j]), float(fs[j + 1])])
    case["_nontrivial"] = bool(inside.any() and (~inside).any())
    if hist is not None and gs["family"] == "cylindrical" and gs["periodic_z"]:
        # measured, not judged: py-pde 0.58.0 wraps the Cartesian y component with the z period, i.e. never wraps z
        Lz = gs["bounds_z"][1] - gs["bounds_z"][0]
        nr, nz = gs["shape"]
        r = (np.arange(nr) + 0.5) * gs["radius"] / nr
        z = gs["bounds_z"][0] + (np.arange(nz) + 0.5) * Lz / nz
        RR, ZZ = np.meshgrid(r, z, indexing="ij")
        dz = ZZ - float(ds["position"][2])
        dz = dz - Lz * np.floor(dz / Lz + 0.5)
        dw = np.sqrt(RR * RR + dz * dz)
        differs = bool(np.any(np.abs(dw - dist) > KNIFE * (1 + dist)))
        hist("dependency_behaviour_periodic_cylinder",
             "distance differs from the z-periodic metric (py-pde never wraps z)" if differs
             else "same distances as the z-periodic metric")
    return out


def check_roll(case: dict, hist=None) -> list[dict]:
    """translating by k cells along a periodic axis = np.roll by k cells"""
    gs, ds, ax, k = case["grid"], case["droplet"], case["axis"], case["k"]
    vmin, vmax = float(case["vmin"]), float(case["vmax"])
    out = []
    try:
        grid = make_grid(gs)
        h = (gs["bounds"][ax][1] - gs["bounds"][ax][0]) / gs["shape"][ax]
        ds2 = dict(ds)
        p = list(ds["position"])
        p[ax] = p[ax] + k * h
        ds2["position"] = p
        with np.errstate(all="ignore"):
            f1 = np.asarray(make_droplet(ds).get_phase_field(grid, vmin=vmin, vmax=vmax).data)
            f2 = np.asarray(make_droplet(ds2).get_phase_field(grid, vmin=vmin, vmax=vmax).data)
    except Exception as e:
        if hist is not None:
            hist("exception", "roll:" + exc_kind(e))
        return [{"what": f"rendering raised {exc_kind(e)}: {e}", "check": "roll", "input": case}]
    rolled = np.roll(f1, k, axis=ax)
    if case["exact"]:
        bad = ~((f2 == rolled) | (np.isnan(f2) & np.isnan(rolled)))
        if not np.all(np.isfinite(f2)):
            bad |= ~np.isfinite(f2)
    else:
        w = ds.get("width", 0.0) if ds["cls"] != "SphericalDroplet" else 0.0
        dist, angles, amb, typ = ref_geometry(gs, ds2["position"])
        w_eff = typ if w is None else float(w)
        L = max(b[1] - b[0] for b in gs["bounds"]) + max(abs(x) for x in ds2["position"])
        if w_eff > 0:
            tol = 1e-12 * max(1.0, L / w_eff) * max(1.0, abs(vmax - vmin)) + 8 * EPS * max(abs(vmin), abs(vmax))
            bad = np.abs(f2 - rolled) > tol
        else:
            knife = np.abs(dist - ds["radius"]) <= KNIFE * np.maximum(dist, ds["radius"])
            bad = (np.abs(f2 - rolled) > 8 * EPS * max(abs(vmin), abs(vmax), 1.0)) & ~knife
    if np.any(bad):
        idx = tuple(int(i) for i in np.argwhere(bad)[0])
        out.append({"what": "translating by whole cells along a periodic axis does not roll the field",
                    "check": "roll", "input": case, "cells_translated": k, "axis": ax, "cell": idx, "translated": float(f2[idx]),
                    "rolled": float(rolled[idx])})
    case["_nontrivial"] = bool(f1.min() != f1.max())
    return out


def check_emulsion(case: dict, hist=None) -> list[dict]:
    """emulsion field = clip(sum of member fields, 0, 1), independent of member order; empty -> zeros"""
    from droplets.emulsions import Emulsion
    gs, dss, perm = case["grid"], case["droplets"], case["perm"]
    out = []
    try:
        grid = make_grid(gs)
        drops = [make_droplet(d) for d in dss]
        with np.errstate(all="ignore"):
            f = np.asarray(Emulsion(drops).get_phasefield(grid).data, dtype=float)
            fp = np.asarray(Emulsion([drops[i] for i in perm]).get_phasefield(grid).data, dtype=float)
            members = [np.asarray(d.get_phase_field(grid).data, dtype=float) for d in drops]
    except Exception as e:
        if hist is not None:
            hist("exception", "emulsion:" + exc_kind(e))
        return [{"what": f"emulsion rendering raised {exc_kind(e)}: {e}", "check": "emulsion", "input": case}]
    shape = ref_geometry(gs, [0.0] * grid_dim(gs))[0].shape
    if f.shape != shape:
        return [{"what": f"emulsion field has shape {f.shape}", "check": "emulsion", "input": case}]
    if not np.all(np.isfinite(f)):
        return [{"what": "emulsion field is not finite", "check": "emulsion", "input": case}]
    total = np.zeros(shape)
    for m in members:
        total = total + m
    expect = np.minimum(np.maximum(total, 0.0), 1.0)
    tol = 1e-12
    if np.any(np.abs(f - expect) > tol):
        idx = tuple(int(i) for i in np.argwhere(np.abs(f - expect) > tol)[0])
        out.append({"what": "emulsion field is not clip(sum of member fields, 0, 1)", "check": "emulsion",
                    "input": case, "cell": idx, "value": float(f[idx]), "expected": float(expect[idx]),
                    "members": [float(m[idx]) for m in members]})
    if np.any(np.abs(f - fp) > tol):
        idx = tuple(int(i) for i in np.argwhere(np.abs(f - fp) > tol)[0])
        out.append({"what": "emulsion field depends on the droplet order", "check": "emulsion", "input": case,
                    "cell": idx, "value": float(f[idx]), "permuted": float(fp[idx])})
    if f.size and (f.min() < 0 or f.max() > 1):
        out.append({"what": "emulsion field leaves [0, 1]", "check": "emulsion", "input": case})
    case["_nontrivial"] = bool(len(dss) > 0 and f.size and f.min() != f.max())
    case["_clipped"] = bool(total.size and total.max() > 1.0 + 1e-9)
    return out


def check_mismatch(case: dict, hist=None) -> list[dict]:
    """droplet and grid of different dimension: documented ValueError"""
    try:
        grid = make_grid(case["grid"])
        drop = make_droplet(case["droplet"])
    except Exception as e:
        return [{"what": f"constructing raised {exc_kind(e)}: {e}", "check": "mismatch", "input": case}]
    kinds = []
    for fn in (lambda: drop.get_phase_field(grid), lambda: drop._get_phase_field(grid, dtype=bool)):
        try:
            fn()
            kinds.append("no exception")
        except Exception as e:
            kinds.append(exc_kind(e))
    if hist is not None:
        hist("exception", "mismatch:" + kinds[0])
    if kinds != ["ValueError", "ValueError"]:
        return [{"what": f"dimension mismatch gives {kinds}, documented: ValueError", "check": "mismatch",
                 "input": case}]
    return []


CHECKS = {"render": check_render, "roll": check_roll, "emulsion": check_emulsion, "mismatch": check_mismatch}


# =========================================================================================
# exact reference for sharp spheres on Cartesian grids (coarse-dyadic inputs): Fractions
# =========================================================================================
def exact_mask(gs: dict, pos, radius, knife=None) -> np.ndarray:
    """indicator of |diff|^2 < r^2 in exact rational arithmetic; knife[0] counts cells with |diff|^2 = r^2"""
    axes = []
    for k, ((lo, hi), n) in enumerate(zip(gs["bounds"], gs["shape"])):
        lo, hi = Fraction(lo), Fraction(hi)
        L, h = hi - lo, (hi - lo) / n
        row = []
        for i in range(n):
            d = lo + (i + Fraction(1, 2)) * h - Fraction(pos[k])
            if gs["periodic"][k]:
                x = d + L / 2
                d = x - (x / L).__floor__() * L - L / 2
            row.append(d * d)
        axes.append(row)
    r = Fraction(radius)
    out = np.zeros(gs["shape"], bool)
    if r < 0:
        return out
    r2 = r * r
    for idx in itertools.product(*[range(n) for n in gs["shape"]]):
        d2 = sum(axes[k][i] for k, i in enumerate(idx))
        out[idx] = d2 < r2
        if knife is not None and d2 == r2:
            knife[0] += 1
    return out


# =========================================================================================
# generators (everything from the seeded rng)
# =========================================================================================
def dy(rng: random.Random, lo: float, hi: float, k: int = 6) -> float:
    """a multiple of 2^-k in [lo, hi]"""
    s = 2 ** k
    return rng.randint(math.ceil(lo * s), math.floor(hi * s)) / s


def gen_cart_grid(rng, dim, dyadic=True, max_n=8, periodic=None):
    bounds, shape = [], []
    for _ in range(dim):
        n = rng.randint(2, max_n)
        if dyadic:
            h = rng.choice([0.125, 0.25, 0.5, 0.5, 1.0, 1.0, 1.5, 2.0, 0.375])
            lo = dy(rng, -4, 4)
        else:
            h = rng.choice([0.1, 0.3, 1.0 / 3, 0.7, 1.1])
            lo = round(rng.uniform(-3, 3), 2)
        bounds.append([lo, lo + n * h])
        shape.append(n)
    if periodic is None:
        periodic = [rng.random() < 0.5 for _ in range(dim)]
    return {"family": "cartesian", "bounds": bounds, "shape": shape, "periodic": list(periodic)}


def gen_centre(rng, gs, dyadic=True):
    pos = []
    for (lo, hi), n, per in zip(gs["bounds"], gs["shape"], gs["periodic"]):
        L, h = hi - lo, (hi - lo) / n
        mode = rng.random()
        if mode < 0.3:  # exactly on a cell centre
            x = lo + (rng.randrange(n) + 0.5) * h
        elif mode < 0.4:  # on a cell boundary
            x = lo + rng.randrange(n + 1) * h
        elif dyadic:
            x = dy(rng, lo, hi)
        else:
            x = rng.uniform(lo, hi)
        if per and rng.random() < 0.35:  # outside the box on a periodic axis
            x += rng.choice([-2, -1, 1, 2, 3]) * L
        elif not per and rng.random() < 0.1:
            x += rng.choice([-1, 1]) * h * rng.choice([0.5, 1, 2])
        pos.append(x)
    return pos


def gen_radius(rng, gs, pos, dyadic=True):
    hs = [(b[1] - b[0]) / n for b, n in zip(gs["bounds"], gs["shape"])] if gs["family"] == "cartesian" else [1.0]
    Ls = [(b[1] - b[0]) for b in gs["bounds"]] if gs["family"] == "cartesian" else [4.0]
    mode = rng.random()
    if mode < 0.06:
        return 0.0
    if mode < 0.14:
        return 2.0 ** -6
    if mode < 0.3:  # whole number of cells / half cells: knife edges for centres on cell centres
        return rng.randint(1, 6) * min(hs) / 2
    if mode < 0.4:
        return max(Ls) * rng.choice([0.5, 1.0, 2.0])
    return dy(rng, 2.0 ** -6, max(Ls) * 0.75) if dyadic else rng.uniform(0.01, max(Ls) * 0.75)


def gen_width(rng, dyadic=True):
    m = rng.random()
    if m < 0.25:
        return None
    if m < 0.45:
        return 0.0
    return rng.choice([2.0 ** -6, 0.125, 0.25, 0.5, 1.0, 2.0, 4.0]) if dyadic else rng.choice([0.01, 0.3, 0.77, 1.9])


def gen_amplitudes(rng, cls):
    if cls == "PerturbedDroplet2D":
        n = rng.choice([0, 1, 2, 2, 4, 4, 6, 3])
    elif cls == "PerturbedDroplet3D":
        n = rng.choice([0, 3, 3, 8, 8, 15, 5])
    else:
        n = rng.choice([0, 1, 2, 3, 5])
    m = rng.random()
    out = []
    for _ in range(n):
        if m < 0.15:
            a = 0.0
        elif m < 0.3:
            a = rng.choice([-1.0, 1.0, 0.0, 0.5])
        else:
            a = rng.choice([0.0, 0.0, dy(rng, -0.25, 0.25), dy(rng, -1, 1), rng.uniform(-0.3, 0.3)])
        out.append(a)
    return out


def gen_droplet(rng, cls, gs, dyadic=True, on_axis=False):
    fam = gs["family"]
    if fam == "cartesian":
        pos = gen_centre(rng, gs, dyadic)
        if on_axis:
            pos[0] = pos[1] = 0.0
    elif fam == "polar":
        pos = [0.0, 0.0]
    elif fam == "spherical":
        pos = [0.0, 0.0, 0.0]
    else:
        z0, z1 = gs["bounds_z"]
        hz = (z1 - z0) / gs["shape"][1]
        m = rng.random()
        z = (z0 + (rng.randrange(gs["shape"][1]) + 0.5) * hz) if m < 0.3 else (dy(rng, z0, z1) if dyadic else rng.uniform(z0, z1))
        if gs["periodic_z"] and rng.random() < 0.2:
            z += rng.choice([-1, 1]) * (z1 - z0)
        pos = [0.0, 0.0, z]
    if fam == "cartesian":
        radius = gen_radius(rng, gs, pos, dyadic)
    else:
        ext = gs["radius"][1] if fam in ("polar", "spherical") else max(gs["radius"], gs["bounds_z"][1] - gs["bounds_z"][0])
        radius = rng.choice([0.0, 2.0 ** -6, ext / 2, dy(rng, 0.125, ext), dy(rng, 0.125, ext), 2 * ext])
    ds = {"cls": cls, "position": pos, "radius": radius}
    if cls != "SphericalDroplet":
        ds["width"] = gen_width(rng, dyadic)
    if cls.startswith("Perturbed"):
        ds["amplitudes"] = gen_amplitudes(rng, cls)
    return ds


def gen_grid_for(rng, cls, dyadic=True):
    """a compatible grid family for the class"""
    if cls in ("SphericalDroplet", "DiffuseDroplet"):
        fam = rng.choice(["cart1", "cart2", "cart2", "cart3", "polar", "spherical", "cylindrical"])
    elif cls == "PerturbedDroplet2D":
        fam = rng.choice(["cart2", "cart2", "cart2", "polar"])
    elif cls == "PerturbedDroplet3D":
        fam = rng.choice(["cart3", "cart3", "cart3", "spherical", "cylindrical"])
    else:
        fam = rng.choice(["cart3axis", "cylindrical", "cylindrical", "spherical"])
    if fam.startswith("cart") and fam != "cart3axis":
        d = int(fam[4])
        return gen_cart_grid(rng, d, dyadic, max_n=8 if d < 3 else 6), False
    if fam == "cart3axis":  # the z axis x = y = 0 must carry the droplet
        gs = gen_cart_grid(rng, 3, dyadic, max_n=6)
        for k in (0, 1):
            n = gs["shape"][k]
            h = (gs["bounds"][k][1] - gs["bounds"][k][0]) / n
            off = rng.choice([0.0, 0.5, 0.25]) * h  # axis on a cell boundary / centre / in between
            lo = -(n // 2) * h - off
            gs["bounds"][k] = [lo, lo + n * h]
        return gs, True
    if fam == "polar":
        r0 = rng.choice([0.0, 0.0, 0.5])
        return {"family": "polar", "radius": [r0, r0 + rng.choice([2.0, 4.0, 3.0])], "shape": rng.randint(2, 8)}, False
    if fam == "spherical":
        r0 = rng.choice([0.0, 0.0, 1.0])
        return {"family": "spherical", "radius": [r0, r0 + rng.choice([2.0, 4.0, 3.0])], "shape": rng.randint(2, 8)}, False
    nz = rng.randint(2, 8)
    hz = rng.choice([0.25, 0.5, 1.0])
    z0 = dy(rng, -2, 2)
    return {"family": "cylindrical", "radius": rng.choice([1.0, 2.0, 3.0, 1.5]), "bounds_z": [z0, z0 + nz * hz],
            "shape": [rng.randint(2, 6), nz], "periodic_z": rng.random() < 0.5}, False


CORPUS_RENDER = [
    # F2: 3-d perturbed droplet centred exactly on a cell centre
    {"grid": {"family": "cartesian", "bounds": [[0, 4]] * 3, "shape": [4, 4, 4], "periodic": [False] * 3},
     "droplet": {"cls": "PerturbedDroplet3D", "position": [1.5, 1.5, 1.5], "radius": 1.2, "width": 1.0,
                 "amplitudes": [0.1, 0, 0]}, "vmin": 0, "vmax": 1},
    # F3: axisymmetric droplet on a cylindrical and on a Cartesian grid
    {"grid": {"family": "cylindrical", "radius": 4, "bounds_z": [0, 5], "shape": [8, 10], "periodic_z": False},
     "droplet": {"cls": "PerturbedDroplet3DAxisSym", "position": [0, 0, 2.0], "radius": 1.5, "width": 1.0,
                 "amplitudes": [0.1, 0.05]}, "vmin": 0, "vmax": 1},
    {"grid": {"family": "cartesian", "bounds": [[-2, 2], [-2, 2], [0, 4]], "shape": [4, 4, 4],
              "periodic": [False, False, True]},
     "droplet": {"cls": "PerturbedDroplet3DAxisSym", "position": [0, 0, 1.5], "radius": 1.25, "width": None,
                 "amplitudes": [0.25, -0.125]}, "vmin": -1, "vmax": 1},
    # knife edge: radius = whole number of cells from a centre on a cell centre
    {"grid": {"family": "cartesian", "bounds": [[0, 8]], "shape": [8], "periodic": [True]},
     "droplet": {"cls": "SphericalDroplet", "position": [2.5], "radius": 2.0}, "vmin": 0, "vmax": 1},
    {"grid": {"family": "cartesian", "bounds": [[0, 8], [0, 4]], "shape": [8, 4], "periodic": [True, False]},
     "droplet": {"cls": "DiffuseDroplet", "position": [-5.5, 1.5], "radius": 2.0, "width": 0.0}, "vmin": 2, "vmax": -3},
    {"grid": {"family": "cartesian", "bounds": [[0, 8], [0, 4]], "shape": [8, 4], "periodic": [True, False]},
     "droplet": {"cls": "DiffuseDroplet", "position": [2.5, 1.5], "radius": 2.0, "width": 0.5}, "vmin": 0.1, "vmax": 0.7},
]


def gen_render_cases(rng, n):
    cases = [json.loads(json.dumps(c)) for c in CORPUS_RENDER]
    for i in range(n):
        cls = CLASSES[i % len(CLASSES)]
        dyadic = rng.random() < 0.8
        gs, on_axis = gen_grid_for(rng, cls, dyadic)
        ds = gen_droplet(rng, cls, gs, dyadic, on_axis)
        vmin, vmax = VPAIRS[rng.randrange(len(VPAIRS))] if rng.random() < 0.8 else (round(rng.uniform(-2, 2), 3), round(rng.uniform(-2, 2), 3))
        cases.append({"grid": gs, "droplet": ds, "vmin": vmin, "vmax": vmax})
    return cases


def gen_roll_cases(rng, n):
    cases = []
    for i in range(n):
        cls = CLASSES[i % len(CLASSES)]
        exact = cls.startswith("Perturbed") or rng.random() < 0.75
        d = 2 if cls == "PerturbedDroplet2D" else (3 if cls.startswith("Perturbed") else rng.choice([1, 2, 2, 3]))
        per = [rng.random() < 0.6 for _ in range(d)]
        ax = rng.randrange(d)
        per[ax] = True
        on_axis = cls == "PerturbedDroplet3DAxisSym"
        if on_axis:
            ax, per[2] = 2, True
            gs = gen_cart_grid(rng, 3, True, max_n=5, periodic=per)
            for k in (0, 1):
                nn = gs["shape"][k]
                h = (gs["bounds"][k][1] - gs["bounds"][k][0]) / nn
                lo = -(nn // 2) * h - rng.choice([0.0, 0.5]) * h
                gs["bounds"][k] = [lo, lo + nn * h]
        else:
            gs = gen_cart_grid(rng, d, exact, max_n=8 if d < 3 else 5, periodic=per)
        ds = gen_droplet(rng, cls, gs, exact, on_axis)
        if not exact and ds.get("width", 0.0) == 0.0 and cls != "SphericalDroplet":
            ds["width"] = 0.3
        k = rng.choice([-3, -2, -1, 1, 2, 3, gs["shape"][ax], 2 * gs["shape"][ax] + 1])
        vmin, vmax = VPAIRS[rng.randrange(len(VPAIRS))]
        cases.append({"grid": gs, "droplet": ds, "axis": ax, "k": k, "exact": bool(exact), "vmin": vmin, "vmax": vmax})
    return cases


def gen_emulsion_cases(rng, n):
    g2 = {"family": "cartesian", "bounds": [[0, 4], [0, 4]], "shape": [8, 8], "periodic": [True, False]}
    cases = [
        {"grid": g2, "droplets": [], "perm": []},
        {"grid": g2, "droplets": [{"cls": "SphericalDroplet", "position": [2, 2], "radius": 1.0}] * 2, "perm": [1, 0]},
        {"grid": g2, "droplets": [{"cls": "DiffuseDroplet", "position": [2, 2], "radius": 1.5, "width": 0.5},
                                  {"cls": "DiffuseDroplet", "position": [2.25, 2], "radius": 1.5, "width": 0.5},
                                  {"cls": "DiffuseDroplet", "position": [2, 1.75], "radius": 1.0, "width": None}],
         "perm": [2, 0, 1]},
    ]
    for i in range(n):
        cls = CLASSES[i % len(CLASSES)]
        gs, on_axis = gen_grid_for(rng, cls, True)
        m = rng.choice([1, 2, 2, 3, 3, 4, 5])
        base = gen_droplet(rng, cls, gs, True, on_axis)
        dss = []
        for j in range(m):
            d = gen_droplet(rng, cls, gs, True, on_axis)
            if rng.random() < 0.5:  # overlapping members: the clip matters
                d["position"] = list(base["position"])
                d["radius"] = max(base["radius"], 0.5)
            if cls.startswith("Perturbed"):
                d["amplitudes"] = (list(d["amplitudes"]) + [0.0] * 20)[:len(base["amplitudes"])]
            dss.append(d)
        perm = list(range(m))
        rng.shuffle(perm)
        cases.append({"grid": gs, "droplets": dss, "perm": perm})
    return cases


def gen_mismatch_cases(rng):
    cases = []
    grids = {1: {"family": "cartesian", "bounds": [[0, 4]], "shape": [4], "periodic": [True]},
             2: {"family": "cartesian", "bounds": [[0, 4], [0, 4]], "shape": [4, 4], "periodic": [True, False]},
             3: {"family": "cartesian", "bounds": [[-2, 2], [-2, 2], [0, 4]], "shape": [4, 4, 4], "periodic": [False] * 3}}
    others = [{"family": "polar", "radius": [0, 4], "shape": 4}, {"family": "spherical", "radius": [0, 4], "shape": 4},
              {"family": "cylindrical", "radius": 2, "bounds_z": [0, 4], "shape": [3, 4], "periodic_z": True}]
    for cls in CLASSES:
        for ddim in ((1, 2, 3) if cls in ("SphericalDroplet", "DiffuseDroplet") else ((2,) if cls.endswith("2D") else (3,))):
            ds = {"cls": cls, "position": [0.0] * ddim, "radius": 1.0, "width": 0.5, "amplitudes": [0.1, 0.2]}
            for gs in list(grids.values()) + others:
                if grid_dim(gs) != ddim:
                    cases.append({"grid": gs, "droplet": ds})
    return cases


# =========================================================================================
# (a) proofs with golden fallback
# =========================================================================================
def prove_with_fallback(ctx) -> tuple[bool, bool]:
    """-> (proofs hold, over the freshly generated text?)"""
    import gen_shapes
    nb, ob, dc = len(ctx.broken), ctx.obligations, ctx.discharged
    ok = vlib.prove(ctx, DEPS, gens=["Gen_shapes"])
    if ok:
        try:
            if gen_shapes.gen_shapes() != gen_shapes.GOLDEN:
                ctx.notes.append("Gen_shapes differs textually from the golden copy; the proofs hold over the fresh text")
        except Exception:
            pass
        ctx.tie.append("translator (Gen_shapes regenerated from the current droplets.py / emulsions.py; proofs over "
                       "the fresh text; interval sample goals)")
        return True, True
    first = ctx.broken[nb:]
    if any(b.startswith("forbidden construct") or "assumptions outside" in b for b in first):
        return False, True
    # the fresh text is missing (translator failed closed) or no longer supports the proofs: theorems over the
    # golden model, tied to the implementation by sample goals + correspondence + numeric oracle (DESIGN 2.2)
    del ctx.broken[nb:]
    ctx.obligations, ctx.discharged = ob, dc
    ctx.notes.append("fresh Gen_shapes does not support the proofs -> golden model: " + " | ".join(first)[:700])
    with vlib.BuildLock():
        vlib._write_if_changed(vlib.COQ_BUILD / "Gen" / "Gen_shapes.v", gen_shapes.GOLDEN)
    ok2 = vlib.prove(ctx, DEPS, gens=[])
    ctx.tie.append("tie: correspondence (translator fell back)")
    ctx.extra["translator_fell_back"] = True
    return ok2, False


# =========================================================================================
# (b) sample goals for the profile expressions
# =========================================================================================
def sample_goal_list(ctx, rng):
    from pde import CartesianGrid
    from droplets.droplets import DiffuseDroplet, PerturbedDroplet2D
    from droplets.tools import spherical
    goals = []
    n = ctx.scale(5, 24)
    g1 = CartesianGrid([(0, 8)], 8)
    for j in range(n):
        p = dy(rng, 0, 8)
        R = rng.choice([dy(rng, 0.125, 4), round(rng.uniform(0.1, 4), 3)])
        w = rng.choice([None, 0.125, 0.5, 1.0, 2.0, round(rng.uniform(0.05, 3), 3)])
        vmin, vmax = VPAIRS[(j + 1) % len(VPAIRS)]
        d = DiffuseDroplet([p], R, w)
        w_eff = float(g1.typical_discretization) if w is None else w
        raw = np.asarray(d._get_phase_field(g1))
        sc = np.asarray(d.get_phase_field(g1, vmin=vmin, vmax=vmax).data)
        for i in (rng.randrange(8), rng.randrange(8)):
            dist = abs(i + 0.5 - p)
            args = f"{vlib.rlit(dist)} {vlib.rlit(R)} {vlib.rlit(w_eff)}"
            goals.append((f"diffuse_profile(dist={dist}, R={R}, w={w_eff})", f"diffuse_profile {args}", float(raw[i]),
                          4e-15))
            s = max(1.0, abs(vmin), abs(vmax), abs(vmax - vmin))
            goals.append((f"scale_value({vmin},{vmax}) o diffuse_profile(dist={dist}, R={R}, w={w_eff})",
                          f"scale_value {vlib.rlit(vmin)} {vlib.rlit(vmax)} (diffuse_profile {args})", float(sc[i]),
                          8e-15 * s))
            ctx.case(["sample", "diffuse", p, R, w, vmin, vmax, i])
            ctx.count("sample_goal", "diffuse_profile")
            ctx.count("sample_goal", "scale_value")
    g2 = CartesianGrid([(0, 4), (-1, 2)], [4, 3], periodic=[True, False])
    for j in range(n):
        pos = [dy(rng, 0, 4), dy(rng, -1, 2)]
        R = dy(rng, 0.25, 2)
        w = rng.choice([None, 0.25, 1.0, round(rng.uniform(0.05, 2), 3)])
        amps = [rng.choice([0.0, 0.25, -0.125, round(rng.uniform(-0.3, 0.3), 3)]) for _ in range(4)]
        d = PerturbedDroplet2D(pos, R, w, amps)
        w_eff = float(g2.typical_discretization) if w is None else w
        dist, phi = spherical.polar_coordinates(g2, origin=d.position, ret_angle=True)
        iface = d.interface_distance(phi)
        vmin, vmax = VPAIRS[(j + 3) % len(VPAIRS)]
        sc = np.asarray(d.get_phase_field(g2, vmin=vmin, vmax=vmax).data)
        raw = np.asarray(d._get_phase_field(g2))
        for idx in ((rng.randrange(4), rng.randrange(3)),):
            args = f"{vlib.rlit(float(dist[idx]))} {vlib.rlit(float(iface[idx]))} {vlib.rlit(w_eff)}"
            goals.append((f"perturbed_profile(dist={float(dist[idx])}, interface={float(iface[idx])}, w={w_eff})",
                          f"perturbed_profile {args}", float(raw[idx]), 4e-15))
            s = max(1.0, abs(vmin), abs(vmax), abs(vmax - vmin))
            goals.append((f"scale_value({vmin},{vmax}) o perturbed_profile(...)",
                          f"scale_value {vlib.rlit(vmin)} {vlib.rlit(vmax)} (perturbed_profile {args})",
                          float(sc[idx]), 8e-15 * s))
            ctx.case(["sample", "perturbed", pos, R, w, amps, vmin, vmax, list(idx)])
            ctx.count("sample_goal", "perturbed_profile")
            ctx.count("sample_goal", "scale_value")
    return goals


def run_sample_goals(ctx, rng):
    try:
        goals = sample_goal_list(ctx, rng)
    except Exception as e:
        ctx.broken.append(f"sample goals: the implementation raised {exc_kind(e)}: {e}")
        return
    ctx.sample({"sample_goal": f"Rabs ({goals[0][1]} - {vlib.rlit(goals[0][2])}) <= {goals[0][3]}"})
    req = "From Coq Require Import Reals. From PD Require Import Gen.Gen_shapes."  # one line (vlib maps line numbers)
    from concurrent.futures import ThreadPoolExecutor
    k = 8
    shards = [goals[i::k] for i in range(k)]
    with ThreadPoolExecutor(k) as ex:
        list(ex.map(lambda a: vlib.sample_goals(ctx, f"c03_{a[0]}", req, a[1],
                                                ["scale_value", "diffuse_profile", "perturbed_profile"]),
                    [(i, s) for i, s in enumerate(shards) if s]))


# =========================================================================================
# (c) D-layer correspondence
# =========================================================================================
HEADER_MASK = """From Coq Require Import ZArith QArith List Bool.
Import ListNotations.
From PD Require Import Model.Grid Model.Render.
Local Open Scope Q_scope.
Fixpoint beq_list (a b : list bool) : bool :=
  match a, b with
  | [], [] => true
  | x :: a', y :: b' => Bool.eqb x y && beq_list a' b'
  | _, _ => false
  end.
Definition ax (n : Z) (lo hi : Q) (p : bool) : axis := {| ncell := n; alo := lo; ahi := hi; aper := p |}.
Definition agree (c : grid * list (list Q * Q) * list bool) : bool :=
  let '(g, ds, m) := c in
  match ds with
  | [(ctr, r)] => beq_list (mask_sphere g ctr r) m && beq_list (mask_emulsion g ds) m
  | _ => beq_list (mask_emulsion g ds) m
  end.
"""


def grid_lit(gs):
    return vlib.listlit([f"ax {vlib.zlit(n)} {vlib.qlit(lo)} {vlib.qlit(hi)} {vlib.blit(p)}"
                         for (lo, hi), n, p in zip(gs["bounds"], gs["shape"], gs["periodic"])])


def mask_lit(m):
    return vlib.listlit([vlib.blit(bool(b)) for b in np.asarray(m).ravel()])


def cd_ok(gs) -> bool:
    """py-pde's cell centres are exactly lo + (i + 1/2) h for this grid (coarse-dyadic class)"""
    g = make_grid(gs)
    for (lo, hi), n, xs in zip(gs["bounds"], gs["shape"], g.axes_coords):
        h = (Fraction(hi) - Fraction(lo)) / n
        if [Fraction(float(x)) for x in xs] != [Fraction(lo) + (i + Fraction(1, 2)) * h for i in range(n)]:
            return False
    return True


MASK_CORPUS = [
    ({"family": "cartesian", "bounds": [[0, 8]], "shape": [8], "periodic": [True]}, [2.5], 2.0),
    ({"family": "cartesian", "bounds": [[0, 8]], "shape": [8], "periodic": [False]}, [2.5], 3.0),
    ({"family": "cartesian", "bounds": [[0, 2], [-1, 2]], "shape": [4, 3], "periodic": [True, False]}, [0.25, 0.5], 0.5),
    ({"family": "cartesian", "bounds": [[0, 2], [-1, 2]], "shape": [4, 3], "periodic": [True, False]}, [-3.75, 0.5], 1.0),
    ({"family": "cartesian", "bounds": [[0, 4]] * 3, "shape": [4, 4, 4], "periodic": [True, True, True]}, [1.5, 1.5, 1.5], 1.0),
    ({"family": "cartesian", "bounds": [[0, 4]] * 3, "shape": [4, 4, 4], "periodic": [True, False, True]}, [0.5, 1.5, 9.5], 2.0),
]


def render_mask(variant: int, gs, pos, radius, rng):
    """the implementation's sharp image through five different entry points"""
    from droplets.droplets import DiffuseDroplet, PerturbedDroplet2D, PerturbedDroplet3D, SphericalDroplet
    grid = make_grid(gs)
    pos = np.array(pos, dtype=float)
    if variant == 0:
        return np.asarray(SphericalDroplet(pos, radius)._get_phase_field(grid, dtype=bool)), None
    if variant == 1:
        f = np.asarray(SphericalDroplet(pos, radius).get_phase_field(grid).data)
        return f > 0.5, f
    if variant == 2:
        f = np.asarray(DiffuseDroplet(pos, radius, 0.0).get_phase_field(grid, vmin=-1, vmax=3).data)
        return f > 1.0, (f + 1) / 4
    if variant == 3:
        return np.asarray(DiffuseDroplet(pos, radius, 0.5)._get_phase_field(grid, dtype=bool)), None
    if len(pos) == 2:
        f = np.asarray(PerturbedDroplet2D(pos, radius, 0.0, [0.0, 0.0])._get_phase_field(grid))
        return f > 0.5, f
    if len(pos) == 3:
        f = np.asarray(PerturbedDroplet3D(pos, radius, 0.0, [0.0, 0.0, 0.0])._get_phase_field(grid))
        return f > 0.5, f
    return np.asarray(DiffuseDroplet(pos, radius, None)._get_phase_field(grid, dtype=bool)), None


def correspondence_masks(ctx, rng):
    from droplets.emulsions import Emulsion
    from droplets.droplets import DiffuseDroplet, SphericalDroplet
    n = ctx.scale(1000, 8000)
    specs = [(g, p, r) for g, p, r in MASK_CORPUS]
    allper = {d: list(itertools.product([False, True], repeat=d)) for d in (1, 2, 3)}
    for i in range(n):
        d = (1, 2, 2, 3)[i % 4]
        per = allper[d][(i // 4) % len(allper[d])]  # all periodicity masks in turn
        gs = gen_cart_grid(rng, d, True, max_n=8 if d < 3 else (8 if i % 16 == 3 else 5), periodic=per)
        pos = gen_centre(rng, gs, True)
        specs.append((gs, pos, gen_radius(rng, gs, pos, True)))
    lits, metas = [], []
    for j, (gs, pos, r) in enumerate(specs):
        if not cd_ok(gs):
            ctx.count("mask_case_skipped", "cell centres not exactly dyadic")
            continue
        variant = j % 5
        try:
            m, f = render_mask(variant, gs, pos, r, rng)
        except Exception as e:
            ctx.count("exception", "mask:" + exc_kind(e))
            ctx.violations.append({"what": f"sharp rendering raised {exc_kind(e)}: {e}", "check": "mask",
                                   "input": {"grid": gs, "position": pos, "radius": r, "variant": variant},
                                   "found": True})
            continue
        meta = {"grid": gs, "position": pos, "radius": r, "variant": variant}
        if f is not None and not np.all((f == 0.0) | (f == 1.0)):
            ctx.violations.append({"what": "sharp droplet has values other than the two levels", "check": "mask",
                                   "input": meta, "found": True})
        kn = [0]
        ex = exact_mask(gs, pos, r, kn)
        ctx.count("mask_cells_exactly_on_the_interface", "cells", kn[0])
        ctx.count("mask_cases_with_a_cell_exactly_on_the_interface", kn[0] > 0)
        if not np.array_equal(ex, np.asarray(m, bool)):
            idx = tuple(int(t) for t in np.argwhere(ex != np.asarray(m, bool))[0])
            ctx.violations.append({"what": "sharp image is not the indicator of `distance < radius` (exact rational "
                                           "evaluation; strict inequality)", "check": "mask", "input": meta,
                                   "cell": idx, "image": bool(np.asarray(m)[idx]), "expected": bool(ex[idx]),
                                   "found": True})
        lits.append(f"({grid_lit(gs)}, [({vlib.listlit(pos, vlib.qlit)}, {vlib.qlit(r)})], {mask_lit(m)})")
        metas.append(meta)
        ctx.case(["mask", gs, pos, r, variant], nontrivial=bool(np.any(m) and not np.all(m)))
        ctx.count("mask_dim", len(gs["shape"]))
        ctx.count("mask_periodic", "".join("P" if p else "-" for p in gs["periodic"]))
        nc = int(np.prod(gs["shape"]))
        ctx.count("mask_cells", "<=8" if nc <= 8 else ("9..64" if nc <= 64 else ("65..216" if nc <= 216 else "217..512")))
        ctx.count("mask_variant", ["Spherical bool", "Spherical float", "Diffuse w=0 scaled", "Diffuse w>0 bool",
                                   "Perturbed zero-amplitude w=0"][variant])
        ctx.count("mask_fill", "empty" if not np.any(m) else ("full" if np.all(m) else "partial"))
    # emulsions of sharp droplets: cellwise OR
    ne = ctx.scale(160, 1200)
    for i in range(ne):
        d = (1, 2, 2, 3)[i % 4]
        gs = gen_cart_grid(rng, d, True, max_n=8 if d < 3 else 5)
        if not cd_ok(gs):
            continue
        k = rng.choice([0, 1, 2, 2, 3, 4]) if i else 0
        members = []
        for _ in range(k):
            pos = gen_centre(rng, gs, True)
            members.append((pos, gen_radius(rng, gs, pos, True)))
        try:
            grid = make_grid(gs)
            if i % 2:
                drops = [SphericalDroplet(np.array(p, float), r) for p, r in members]
            else:
                drops = [DiffuseDroplet(np.array(p, float), r, 0.0) for p, r in members]
            f = np.asarray(Emulsion(drops).get_phasefield(grid).data)
        except Exception as e:
            ctx.count("exception", "mask-emulsion:" + exc_kind(e))
            ctx.violations.append({"what": f"emulsion rendering raised {exc_kind(e)}: {e}", "check": "mask",
                                   "input": {"grid": gs, "members": members}, "found": True})
            continue
        meta = {"grid": gs, "members": members}
        if not np.all((f == 0.0) | (f == 1.0)):
            ctx.violations.append({"what": "emulsion of sharp droplets has values other than 0 and 1", "check": "mask",
                                   "input": meta, "found": True})
        m = f > 0.5
        ex = np.zeros(gs["shape"], bool)
        for p, r in members:
            ex |= exact_mask(gs, p, r)
        if not np.array_equal(ex, m):
            ctx.violations.append({"what": "emulsion of sharp droplets is not the union of the droplets' indicators",
                                   "check": "mask", "input": meta, "found": True})
        ds_lit = vlib.listlit([f"({vlib.listlit(p, vlib.qlit)}, {vlib.qlit(r)})" for p, r in members])
        lits.append(f"({grid_lit(gs)}, {ds_lit}, {mask_lit(m)})")
        metas.append(meta)
        ctx.case(["mask-emulsion", gs, members], nontrivial=bool(np.any(m) and not np.all(m)))
        ctx.count("mask_emulsion_members", k)
    ctx.sample({"mask_case": lits[2][:400]})
    bad = vlib.run_cases(ctx, "mask", HEADER_MASK, lits, "agree", shard=ctx.scale(40, 120))
    if bad:
        ctx.broken.append(f"correspondence sharp masks: Model/Render.mask_sphere and the implementation differ on "
                          f"{len(bad)} case(s), first: {json.dumps(metas[bad[0]])[:300]}")
        ctx.extra["mask_disagreements"] = [metas[b] for b in bad[:5]]
    return [metas[b] for b in bad]


HEADER_ANGLE = """From Coq Require Import ZArith QArith Qabs List Bool.
Import ListNotations.
From PD Require Import Model.Grid Model.Render.
Local Open Scope Q_scope.
(* case: difference vector and distance as computed by the implementation (exact), is the angle finite?,
   cos(theta) resp. the 1-d sign as computed by the implementation *)
Definition agree (c : list Q * Q * bool * Q) : bool :=
  let '(diff, dist, finite, val) := c in
  match polar_angles diff dist with
  | Some (Sign1 s) => finite && Qeq_bool (inject_Z s) val
  | Some (Polar2 _ _) => finite
  | Some (Spher3 ct _ _) => finite && Qle_bool (Qabs (ct - val)) (1 # 1000000000)
  | None => negb finite
  end.
"""


def correspondence_angles(ctx, rng):
    """polar_coordinates(ret_angle=True) vs Model/Render.polar_angles on cells whose distance is rational"""
    from droplets.tools import spherical
    lits, metas = [], []
    n = ctx.scale(30, 200)
    for i in range(n):
        d = (1, 2, 3, 3)[i % 4]
        gs = gen_cart_grid(rng, d, True, max_n=6 if d < 3 else 4)
        gs["bounds"] = [[lo, hi] for lo, hi in gs["bounds"]]
        pos = [lo + (rng.randrange(nn) + 0.5) * (hi - lo) / nn for (lo, hi), nn in zip(gs["bounds"], gs["shape"])]
        if i % 3 == 0:
            pos = gen_centre(rng, gs, True)
        try:
            grid = make_grid(gs)
            origin = np.array(pos, float)
            with np.errstate(all="ignore"):
                res = spherical.polar_coordinates(grid, origin=origin, ret_angle=True)
                diff = grid.difference_vector(grid.transform(origin, source="cartesian", target="grid"), grid.cell_coords)
        except Exception as e:
            ctx.count("exception", "angles:" + exc_kind(e))
            ctx.violations.append({"what": f"polar_coordinates raised {exc_kind(e)}: {e}", "check": "angles",
                                   "input": {"grid": gs, "position": pos}, "found": True})
            continue
        dist = np.asarray(res[0])
        for idx in itertools.product(*[range(s) for s in gs["shape"]]):
            dv = [float(x) for x in diff[idx]]
            dq = Fraction(float(dist[idx]))
            if dq * dq != sum(Fraction(x) ** 2 for x in dv):
                continue  # irrational distance: outside the rational model
            angs = [float(a[idx]) for a in res[1:]]
            finite = all(math.isfinite(a) for a in angs)
            val = Fraction(0)
            if finite and d == 1:
                val = Fraction(angs[0])
            elif finite and d == 3:
                val = Fraction(math.cos(angs[0]))
            lits.append(f"({vlib.listlit(dv, vlib.qlit)}, {vlib.qlit(dq)}, {vlib.blit(finite)}, {vlib.qlit(val)})")
            metas.append({"grid": gs, "position": pos, "cell": list(idx), "angles": [str(a) for a in angs]})
            ctx.case(["angle", gs, pos, list(idx)], nontrivial=True)
            ctx.count("angle_case_dim", d)
            ctx.count("angle_case_dist", "zero" if dq == 0 else "rational>0")
    bad = vlib.run_cases(ctx, "angles", HEADER_ANGLE, lits, "agree", shard=400)
    for b in bad[:3]:
        ctx.violations.append({"what": "polar_coordinates: angle not finite / differs from the guarded model "
                                       "(defined for every cell, cos(theta) in [-1, 1])", "check": "angles",
                               "input": metas[b], "found": True})
    if bad:
        ctx.broken.append(f"correspondence angles: Model/Render.polar_angles and polar_coordinates differ on {len(bad)} cell(s)")


HEADER_EMQ = """From Coq Require Import ZArith QArith Qabs List Bool.
Import ListNotations.
From PD Require Import Gen.Gen_shapes.
Local Open Scope Q_scope.
(* member values at one cell (exact), value of Emulsion.get_phasefield at that cell *)
Definition agree (c : list Q * Q) : bool :=
  let '(members, v) := c in Qle_bool (Qabs (emulsion_cell_Q members - v)) (1 # 1000000000000).
"""


def correspondence_emulsion_q(ctx, rng, cases):
    """generated sum/clip (on rationals) vs Emulsion.get_phasefield, cell by cell"""
    from droplets.emulsions import Emulsion
    lits = []
    for case in cases:
        try:
            grid = make_grid(case["grid"])
            drops = [make_droplet(d) for d in case["droplets"]]
            f = np.asarray(Emulsion(drops).get_phasefield(grid).data, dtype=float)
            members = [np.asarray(d.get_phase_field(grid).data, dtype=float) for d in drops]
        except Exception:
            continue  # reported by the oracle
        if not np.all(np.isfinite(f)) or not all(np.all(np.isfinite(m)) for m in members):
            continue
        flat = [m.ravel() for m in members]
        cells = list(range(f.size))
        rng.shuffle(cells)
        tot = sum(flat) if flat else np.zeros(f.size)
        pick = cells[:3] + ([int(np.argmax(tot))] if f.size else [])
        for c in pick:
            lits.append(f"({vlib.listlit([float(m[c]) for m in flat], vlib.qlit)}, {vlib.qlit(float(f.ravel()[c]))})")
    if not lits:
        return
    bad = vlib.run_cases(ctx, "emq", HEADER_EMQ, lits, "agree", shard=500)
    ctx.count("emulsion_cells_compared_in_coq", "n", len(lits))
    if bad:
        ctx.broken.append(f"correspondence emulsion: generated sum/clip and Emulsion.get_phasefield differ on "
                          f"{len(bad)} cell(s), first: {lits[bad[0]][:200]}")


# =========================================================================================
# check / replay
# =========================================================================================
def _strip(case):
    return {k: v for k, v in case.items() if not k.startswith("_")}


def run_oracle(ctx, rng, scale_q, scale_t, record=True):
    """the property oracle over the implementation; returns failures (dicts)"""
    fails = []
    hist = ctx.count if record else None
    render_cases = gen_render_cases(rng, ctx.scale(scale_q, scale_t))
    for case in render_cases:
        fs = check_render(case, hist)
        fails += [{**f, "input": _strip(f["input"])} for f in fs]
        if record:
            ds, gs = case["droplet"], case["grid"]
            fam = gs["family"] + (str(len(gs["shape"])) if gs["family"] == "cartesian" else "")
            ctx.case(["render", _strip(case)], nontrivial=case.get("_nontrivial", False))
            ctx.count("class", ds["cls"])
            ctx.count("grid_family", fam)
            ctx.count("class_x_grid", ds["cls"] + " on " + fam)
            if gs["family"] == "cartesian":
                ctx.count("periodic_mask", "".join("P" if p else "-" for p in gs["periodic"]))
            elif gs["family"] == "cylindrical":
                ctx.count("periodic_mask", "cyl_periodic_z" if gs["periodic_z"] else "cyl_open_z")
            w = ds.get("width", "n/a")
            ctx.count("width", "None" if w is None else ("0" if w == 0 else ("n/a" if w == "n/a" else "positive")))
            ctx.count("radius", "0" if ds["radius"] == 0 else ("tiny" if ds["radius"] <= 2 ** -6 else "regular"))
            ctx.count("nonzero_amplitudes", sum(1 for a in ds.get("amplitudes", []) if a != 0))
            v0, v1 = case["vmin"], case["vmax"]
            ctx.count("vmin_vs_vmax", "<" if v0 < v1 else (">" if v0 > v1 else "="))
    if record and render_cases:
        ctx.sample({"render_case": _strip(render_cases[len(CORPUS_RENDER)])})
    for case in gen_roll_cases(rng, ctx.scale(scale_q // 4, scale_t // 4)):
        fs = check_roll(case, hist)
        fails += [{**f, "input": _strip(f["input"])} for f in fs]
        if record:
            ctx.case(["roll", _strip(case)], nontrivial=case.get("_nontrivial", False))
            ctx.count("roll", f"{case['droplet']['cls']} exact={case['exact']}")
            ctx.count("roll_k", case["k"])
    em_cases = gen_emulsion_cases(rng, ctx.scale(scale_q // 8, scale_t // 8))
    nclip = 0
    for case in em_cases:
        fs = check_emulsion(case, hist)
        fails += [{**f, "input": _strip(f["input"])} for f in fs]
        nclip += bool(case.get("_clipped"))
        if record:
            ctx.case(["emulsion", _strip(case)], nontrivial=case.get("_nontrivial", False))
            ctx.count("emulsion_members", len(case["droplets"]))
    if record:
        ctx.count("emulsion_cases_where_clip_matters", "n", nclip)
        ctx.sample({"emulsion_case": _strip(em_cases[2])})
    for case in gen_mismatch_cases(rng):
        fs = check_mismatch(case, hist)
        fails += fs
        if record:
            ctx.case(["mismatch", case], nontrivial=True)
    return fails, em_cases


def check(ctx: vlib.Ctx) -> int:
    import droplets
    ctx.extra["implementation"] = str(droplets.__file__)
    ok, fresh = prove_with_fallback(ctx)
    gen_ok = not any("translator failed closed" in n for n in ctx.notes)
    if not gen_ok:
        ctx.extra["translator_failed_closed"] = [n for n in ctx.notes if "translator failed closed" in n]
    # (b) interval sample goals: generated (or golden) expressions vs the implementation's values
    if ok:
        run_sample_goals(ctx, random.Random(ctx.seed + 1))
    # (c) correspondence inside Coq
    correspondence_masks(ctx, random.Random(ctx.seed + 2))
    correspondence_angles(ctx, random.Random(ctx.seed + 3))
    # (d) property oracle over the implementation (always; larger stream when something no longer checks)
    big = bool(ctx.broken) or not fresh
    fails, em_cases = run_oracle(ctx, random.Random(ctx.seed + 4), 4000 if not big else 8000, 48000)
    if ok:
        correspondence_emulsion_q(ctx, random.Random(ctx.seed + 5), em_cases)
    # a short, deterministic list of violations: at most two failing inputs per kind of failure
    cand = list(ctx.violations) + [{**f, "found": True} for f in fails]
    ctx.violations, seen = [], {}
    for v in cand:
        key = (v.get("check"), v["what"].split(":")[0][:60])
        seen[key] = seen.get(key, 0) + 1
        if seen[key] <= 2 and len(ctx.violations) < 10:
            ctx.violations.append({**v, "broken": ctx.broken[:3]})
    ctx.extra["oracle_failures_total"] = len(fails)
    ctx.extra["failure_kinds"] = {f"{k[0]}: {k[1]}": n for k, n in seen.items()}
    # known finding F19 (periodic cylindrical grids are never wrapped in z by py-pde 0.58.0): replay the
    # recorded input; print KNOWN-FINDING while it still fails and the entry is listed
    if any(e.get("id") == "F19" and e.get("kind") == "finding" for e in vlib.load_known()):
        msg = f19_replay()
        if msg:
            ctx.known_printed.append(msg)
    return vlib.finish(ctx, "", TRUSTED, ASSUME, RULE)


def f19_replay():
    """SphericalDroplet([0,0,0.5],1.25) on CylindricalSymGrid(2,(0,4),(2,4),periodic_z=True): the row r=0.5
    should be [1,1,0,1] under the z-periodic metric; returns a description while it is not."""
    from pde import CylindricalSymGrid
    from droplets import SphericalDroplet
    g = CylindricalSymGrid(2, (0, 4), (2, 4), periodic_z=True)
    row = SphericalDroplet([0, 0, 0.5], 1.25).get_phase_field(g).data[0].tolist()
    if row != [1.0, 1.0, 0.0, 1.0]:
        return ("rendering on a periodic CylindricalSymGrid does not use the z-periodic metric (py-pde 0.58.0 "
                f"difference_vector never wraps z): SphericalDroplet([0,0,0.5],1.25) on CylindricalSymGrid(2,(0,4),(2,4),"
                f"periodic_z=True) renders row r=0.5 as {row}, periodic metric gives [1,1,0,1]; roll property fails likewise")
    return None


def replay(path: str) -> int:
    obj = json.load(open(path))
    print(json.dumps(obj, indent=1)[:3000])
    kind, inp = obj.get("check"), obj.get("input")
    if kind in CHECKS and inp is not None:
        fs = CHECKS[kind](inp)
        print(f"oracle `{kind}` on the stored input, current tree: {len(fs)} failure(s)")
        for f in fs[:5]:
            print("  ", {k: v for k, v in f.items() if k != "input"})
        return 1 if fs else 0
    if kind == "mask" and inp is not None and "radius" in inp:
        m, f = render_mask(inp["variant"], inp["grid"], inp["position"], inp["radius"], random.Random(0))
        ex = exact_mask(inp["grid"], inp["position"], inp["radius"])
        print("implementation:", np.asarray(m, int).ravel().tolist())
        print("exact d2 < r2 :", ex.astype(int).ravel().tolist())
        levels = f is None or bool(np.all((f == 0.0) | (f == 1.0)))
        print("only the two levels occur:", levels)
        return 0 if (np.array_equal(np.asarray(m, bool), ex) and levels) else 1
    if kind == "mask" and inp is not None and "members" in inp:
        from droplets.droplets import DiffuseDroplet
        from droplets.emulsions import Emulsion
        drops = [DiffuseDroplet(np.array(p, float), r, 0.0) for p, r in inp["members"]]
        f = np.asarray(Emulsion(drops).get_phasefield(make_grid(inp["grid"])).data)
        ex = np.zeros(inp["grid"]["shape"], bool)
        for p, r in inp["members"]:
            ex |= exact_mask(inp["grid"], p, r)
        good = bool(np.all((f == 0.0) | (f == 1.0))) and np.array_equal(f > 0.5, ex)
        print("emulsion of sharp droplets is the union of the indicators:", good)
        return 0 if good else 1
    if kind == "angles" and inp is not None:
        from droplets.tools import spherical
        res = spherical.polar_coordinates(make_grid(inp["grid"]), origin=np.array(inp["position"], float), ret_angle=True)
        fin = all(np.all(np.isfinite(a)) for a in res)
        print("all angles finite on the current tree:", fin)
        return 0 if fin else 1
    ctx = vlib.Ctx("C03", "quick", 0)
    fails, _ = run_oracle(ctx, random.Random(4), 400, 400, record=False)
    print("no stored input; oracle failures on a fresh stream:", len(fails))
    for f in fails[:5]:
        print("  ", f["what"])
    return 1 if fails else 0
