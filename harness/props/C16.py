"""C16 -- the structure factor is a normalised, symmetry-invariant power spectrum."""
from __future__ import annotations

import json
import math
import random

import numpy as np

import spectrum_common as sc
import vlib

TRUSTED = [
    "Coq 8.16.1 kernel + vm_compute (no native_compute)",
    "harness/gen_spectrum.py + harness/translate.py (Python-ast translator of get_structure_factor; validated on every "
    "run by interval sample goals and by the correspondence run)",
    "Interval tactic (sample goals only)",
    "oracle numpy.fft.fftn(norm='ortho') computes the mathematical DFT up to rounding: the transform itself is DEFINED in "
    "Coq for every shape (Model.Spectrum.dftc / dft_math, iterated 1-d transforms over pairs of reals) and PROVED to satisfy "
    "dft_spec (character orthogonality, Parseval in n dimensions, zero mode, homogeneity, cyclic shift, reflection, axis "
    "transposition); the C16_math_* theorems carry no DFT premise.  Per sample numpy is compared with a direct O(N^2) "
    "evaluation of the definition (arrays of at most 96 cells) and with the identities of dft_spec (all sizes), 1e-12",
    "oracle models numpy.fft.fftfreq / max / linspace and pde.tools.math.SmoothData1D (Model/Spectrum.v, modelled after "
    "numpy 2.x / py-pde 0.58.0; compared with the libraries on every sample)",
    "real-number model: floating-point evaluation differs by rounding (tolerances stated in the rule)",
]
ASSUME = [
    "theorems are over Coq's R; the implementation computes in binary64 (float32 fields: single precision)",
    "the generic theorems keep the visible premise dft_spec dom F (satisfied by the executable N = 4 and small-shape "
    "instances and by the mathematical DFT); the C16_math_* theorems are their instances for the mathematical DFT",
    "numpy broadcasting (np.add.outer, .flat order = C order) is modelled by all_idx / k2s",
    "field non-zero (sum of squares <> 0), positive axis lengths, Cartesian grid (periodicity flags only produce a warning)",
]
RULE = ("cases: fields generated from random.Random(seed) on periodic Cartesian grids, d = 1-3, even/odd shapes, "
        "anisotropic dyadic spacings and origins; kinds noise / plane waves / droplets / constant+noise; per case the "
        "implementation is run on the field and on its variants scaled by every factor of spectrum_common.SCALE_FACTORS (-3.5 .. +-1e-9, 1e-11, 1e-130, +-1e9, 1e145; 1e-150 excluded: gradual underflow of the squares), rolled, flipped, axis-permuted and stretched, "
        "smoothing None / explicit / auto, add_zero on/off; compared with (i) the model assembled from the generated "
        "lines (rel 1e-12), (ii) the property-text formulas (wave numbers rel 1e-12, values rel 1e-9 + 1e-12, "
        "(k, sf) multisets); SEQUENCES: grids sharing the shape and an aggregate (swapped spacings, mean spacing, "
        "volume, longest side, shape only) analysed interleaved, repeated and after raising calls -- every result must equal "
        "the first result in a fresh interpreter; numpy's fftn is checked against dft_spec to 1e-12 on every sample; distinct = distinct "
        "case descriptions, all non-trivial (non-constant field, at least 2 cells)")

SCALES = [0.03125, 0.25, 0.5, 2.0, 8.0, 32.0]


class WrongKind(Exception):
    """the implementation returned something that is not a pair of real 1-d arrays of equal length"""


def gsf(field, **kw):
    from droplets.image_analysis import get_structure_factor
    res = get_structure_factor(field, **kw)
    if not (isinstance(res, tuple) and len(res) == 2):
        raise WrongKind(f"result is {type(res).__name__}, not a pair")
    k, sf = (np.asarray(v) for v in res)
    for name, v in (("wave numbers", k), ("structure factor", sf)):
        if np.iscomplexobj(v) and np.any(v.imag != 0):
            raise WrongKind(f"{name} are complex")
        if v.ndim != 1:
            raise WrongKind(f"{name} have {v.ndim} dimensions")
    if k.shape != sf.shape:
        raise WrongKind(f"wave numbers and structure factor have different lengths {k.shape}, {sf.shape}")
    return np.asarray(k.real, dtype=float), np.asarray(sf.real, dtype=float)


def _variants(c, data, rng):
    """(name, field data, perm, stretch) variants under which the result must not change"""
    d = data.ndim
    data64 = data.astype(float)  # exact for float32 / int64 data; the factors must not be rounded to the data's dtype
    out = [(f"scale by {cc:g}", cc * data64, None, 1.0) for cc in sc.SCALE_FACTORS]
    out += [("shift", np.roll(data, [rng.randrange(0, n) for n in data.shape], axis=tuple(range(d))), None, 1.0),
           ("reflect", np.flip(data, axis=rng.randrange(d)), None, 1.0)]
    if d > 1:
        p = list(range(d))
        while p == list(range(d)):
            rng.shuffle(p)
        out.append(("permute", np.transpose(data, p), p, 1.0))
    out.append(("stretch", data, None, rng.choice(SCALES + [3.0, 0.1])))
    return out


WN_FORMS = ["sorted list", "tuple", "array", "unsorted list", "with zero", "beyond k_max", "single"]
SIGMA_FORMS = ["float", "numpy float64", "0-d array", "int"]
PROVENANCE = ["fresh", "copy()", "deepcopy", "pickle"]
OFF_SPELLINGS = [None, "none", 0, 0.0]


def _wave_numbers(rng, kmax: float, form: str):
    vals = sorted(kmax * (0.05 + 0.95 * rng.random()) for _ in range(5))
    if form == "tuple":
        return tuple(vals)
    if form == "array":
        return np.array(vals)
    if form == "unsorted list":
        return [vals[3], vals[0], vals[4], vals[1], vals[1]]  # with a repeated entry
    if form == "with zero":
        return [0.0] + vals[1:]
    if form == "beyond k_max":
        return vals[:3] + [1.5 * kmax, 40.0 * kmax]
    if form == "single":
        return [vals[2]]
    return vals


def _sigma(rng, kmax: float, form: str):
    if form == "int":  # an integer width (in wave-number units): at least 1
        return max(1, int(round(0.3 * kmax)))
    s = rng.choice([0.1, 0.3]) * kmax
    return {"float": s, "numpy float64": np.float64(s), "0-d array": np.array(s)}[form]


def _provenance(f, how: str):
    import copy
    import pickle
    if how == "copy()":
        return f.copy()
    if how == "deepcopy":
        return copy.deepcopy(f)
    if how == "pickle":
        return pickle.loads(pickle.dumps(f))
    return f


def prop_c16(c: dict, rng: random.Random, ctx=None) -> list[dict]:
    """Executable form of the property text over the implementation; returns failures."""
    fails = []

    def fail(what, **kw):
        fails.append({"what": what, "input": sc.canon(c), **sc.json_safe(kw)})

    def count(key, val):
        if ctx is not None:
            ctx.count(key, val)

    tol = sc.tols(c)
    R, A = tol["rel"], tol["abs"]
    data = sc.build(c)
    data0 = data.copy()
    how = rng.choice(PROVENANCE)
    count("provenance", how)
    f = _provenance(sc.make_field(c, data), how)
    disc = np.asarray(f.grid.discretization, dtype=float)
    N = data.size
    d64 = data.astype(float)
    sumsq = float(np.sum(d64 * d64))
    k, sf = gsf(f, smoothing=None)
    tk, tsf = sc.truth_raw(data, disc)
    if k.shape != (N - 1,) or sf.shape != (N - 1,):
        fail("unsmoothed result does not have one entry per non-zero mode", got=[list(k.shape), list(sf.shape)], cells=N)
        return fails
    if not np.all(np.isfinite(sf)) or sf.min() < 0:
        fail("structure factor negative or not finite", min=float(np.nanmin(sf)))
    want = 1 - float(np.sum(d64)) ** 2 / (N * sumsq)
    if not abs(float(sf.sum()) - want) <= tol["parseval"]:
        fail("Parseval: sum of the structure factor is not 1 - N*mean^2/sum(x^2)", got=float(sf.sum()), want=want)
    # mode by mode, in the C order of the transform: entry j belongs to multi-index unravel(j + 1)
    if not sc.close_arrays(k, tk, rel=1e-12, abs_=0.0):
        j = int(np.argmax(np.abs(k - tk)))
        fail("wave numbers are not 2*pi*fftfreq of the grid (mode by mode)", mode=list(np.unravel_index(j + 1, data.shape)),
             got=k[j], want=tk[j])
    if not sc.close_arrays(sf, tsf, rel=R, abs_=A):
        j = int(np.argmax(np.abs(sf - tsf)))
        fail("values are not |orthonormal DFT|^2 / sum(x^2) without the zero mode (mode by mode)",
             mode=list(np.unravel_index(j + 1, data.shape)), got=sf[j], want=tsf[j])
    # every spelling of "no smoothing" returns the raw arrays (wave numbers are then only warned about)
    for sp in OFF_SPELLINGS[1:]:
        k_o, sf_o = gsf(f, smoothing=sp)
        if not (np.array_equal(k_o, k) and np.array_equal(sf_o, sf)):
            fail("spellings of 'no smoothing' give different results", smoothing=repr(sp))
    kmax = float(tk.max())
    # requested wave numbers / smoothing widths for the smoothed variant, in every accepted form
    wn_form, sg_form = rng.choice(WN_FORMS), rng.choice(SIGMA_FORMS)
    count("wave_numbers_form", wn_form)
    count("sigma_form", sg_form)
    wn_arg = _wave_numbers(rng, kmax, wn_form)
    wn = [float(w) for w in wn_arg]
    wn_before = list(wn)
    sigma_arg = _sigma(rng, kmax, sg_form)
    sigma = float(sigma_arg)
    k_n, sf_n = gsf(f, smoothing=rng.choice(OFF_SPELLINGS), wave_numbers=wn_arg)
    if not (np.array_equal(k_n, k) and np.array_equal(sf_n, sf)):
        fail("without smoothing the requested wave numbers must be ignored", wave_numbers=wn)
    k_r, sf_r = gsf(f, smoothing=sigma_arg, wave_numbers=wn_arg)
    if not np.array_equal(k_r, np.array(wn)):
        fail("smoothed variant does not return the requested wave numbers", got=k_r.tolist(), want=wn, form=wn_form)
    if [float(w) for w in wn_arg] != wn_before:
        fail("the caller's wave_numbers were modified", form=wn_form)
    k_f, sf_f = gsf(f, smoothing=sigma, wave_numbers=wn)
    if not (np.array_equal(k_f, k_r) and np.array_equal(sf_f, sf_r)):
        fail("the form of the arguments (list / tuple / array, float / numpy scalar / int) changes the result",
             wave_numbers_form=wn_form, sigma_form=sg_form)
    if not np.all(np.isfinite(sf_r)) or sf_r.min() < -A:
        fail("smoothed structure factor negative or not finite", min=float(np.nanmin(sf_r)))
    k_a, sf_a = gsf(f)
    for kw in ({"smoothing": "auto"}, {"wave_numbers": "auto"}, {"wave_numbers": None}, {"smoothing": "auto", "wave_numbers": None}):
        k_b, sf_b = gsf(f, **kw)
        if not (np.array_equal(k_b, k_a) and np.array_equal(sf_b, sf_a)):
            fail("spelling out the defaults changes the result", kwargs={k_: repr(v) for k_, v in kw.items()})
    for name, vdata, perm, s in _variants(c, data, rng):
        g = sc.make_field(c, vdata, scale=s, perm=perm)
        k2, sf2 = gsf(g, smoothing=None)
        if name.startswith("scale") or name == "shift":
            if not (sc.close_arrays(k2, k, 1e-12, 0.0) and sc.close_arrays(sf2, sf, R, A)):
                fail(f"unsmoothed structure factor changes under {name}", variant=name)
        elif name in ("reflect", "permute"):
            if not sc.same_pairs(k2, sf2, k, sf, rel=R, abs_sf=A):
                fail(f"(k, sf) pairs are not permuted under {name}", variant=name, perm=perm)
        else:
            if not sc.close_arrays(k2 * s, k, 1e-12, 0.0):
                fail("wave numbers do not scale inversely with the grid size", stretch=s,
                     got=(k2[:3] * s).tolist(), want=k[:3].tolist())
            if not sc.close_arrays(sf2, sf, R, A):
                fail("structure factor changes when the grid is stretched", stretch=s)
        k3, sf3 = gsf(g, smoothing=sigma / s, wave_numbers=[w / s for w in wn])
        if not (np.array_equal(k3, np.array([w / s for w in wn])) and sc.close_arrays(sf3, sf_r, R, A)):
            fail(f"smoothed structure factor (requested wave numbers) changes under {name}", variant=name, stretch=s)
        k4, sf4 = gsf(g)
        if not (sc.close_arrays(k4 * s, k_a, 1e-12, 0.0) and sc.close_arrays(sf4, sf_a, R, A)):
            fail(f"smoothed structure factor (automatic) changes under {name}", variant=name, stretch=s)
    for kw, (k0, s0) in (({"smoothing": None}, (k, sf)), ({"smoothing": sigma, "wave_numbers": wn}, (k_r, sf_r)),
                         ({}, (k_a, sf_a))):
        kz, sz = gsf(f, add_zero=True, **kw)
        if not (len(kz) == len(k0) + 1 and kz[0] == 0 and sz[0] == 1 and np.array_equal(kz[1:], k0)
                and np.array_equal(sz[1:], s0)):
            fail("add_zero does not prepend the pair (0, 1)", kwargs={k_: str(v) for k_, v in kw.items()},
                 got=[float(kz[0]), float(sz[0])], lengths=[len(kz), len(k0)])
    if not (np.array_equal(f.data, data0) and f.data.dtype == data0.dtype):
        fail("the field passed in was modified")
    # the grid's periodicity flags only produce a warning: same numbers as on the fully periodic grid
    if not all(c.get("periodic", [True])):
        k_p, sf_p = gsf(sc.make_field({**c, "periodic": [True] * len(c["shape"])}, data), smoothing=None)
        if not (np.array_equal(k_p, k) and np.array_equal(sf_p, sf)):
            fail("result depends on the periodicity flags of the grid")
    return fails


def corr_c16(c: dict, rng: random.Random, py: dict, consts: dict) -> list[str]:
    """implementation == model assembled from the generated lines (binary64, same operations)"""
    bad = []
    data = sc.build(c)
    f = sc.make_field(c, data)
    disc = np.asarray(f.grid.discretization, dtype=float)
    k, sf = gsf(f, smoothing=None)
    mk, msf = sc.model_raw(data, disc, py, consts)
    f32 = c.get("dtype") == "float32"  # same operations in single precision: compare at single-precision resolution
    if not (sc.close_arrays(k, mk, 1e-12, 0.0) and sc.close_arrays(sf, msf, 1e-5 if f32 else 1e-12, 1e-9 if f32 else 1e-300)):
        bad.append("raw spectrum")
    if not bad:
        size_max = float(f.grid.cuboid.size.max())
        wn = sorted(float(mk.max()) * (0.05 + 0.95 * rng.random()) for _ in range(4))
        sigma = 0.2 * float(mk.max())
        for on, auto, nowave, az in [(True, False, False, False), (True, True, True, False), (True, True, False, True),
                                     (False, False, True, True), (True, False, True, True)]:
            kw = {"smoothing": ("auto" if auto else sigma) if on else None, "add_zero": az}
            if not nowave:
                kw["wave_numbers"] = wn
            ik, isf = gsf(f, **kw)
            tk, tsf = sc.model_tail(mk, msf, on, auto, nowave, az, sigma, size_max, wn, py, consts)
            if not (sc.close_arrays(ik, tk, 1e-12, 0.0) and sc.close_arrays(isf, tsf, 1e-5 if f32 else 1e-9, 1e-9 if f32 else 1e-13)):
                bad.append(f"control flow on={on} auto={auto} nowave={nowave} add_zero={az}")
    return bad


def _sample_goals(ctx, rng, py, consts):
    """translator validation: generated closed formulas vs values computed by the implementation / by the
    Python interpreter on the same source expression (interval arithmetic inside Coq)"""
    from pde import ScalarField  # noqa: F401
    goals = []
    for _ in range(ctx.scale(3, 10)):
        c = sc.gen_case(rng, dim=rng.choice([1, 2]), kind="noise", dtype="float64")
        data = sc.build(c)
        f = sc.make_field(c, data)
        disc = [float(v) for v in f.grid.discretization]
        k, sf = gsf(f, smoothing=None)
        F = np.fft.fftn(data, norm=consts["norm"]) if consts["norm"] else np.fft.fftn(data)
        absf = np.abs(F.flat[consts["drop_first"]:])
        sumsq = float(np.dot(data.ravel(), data.ravel()))
        nmodel = data.size - consts["drop_first"]
        if len(sf) != nmodel or len(k) != data.size - consts["drop_first_k"]:
            # the goals cannot even be stated: the returned arrays do not have the model's length
            ctx.obligations += 1
            ctx.broken.append(f"sample goals: get_structure_factor returns arrays of lengths {len(k)}, {len(sf)} where the model "
                              f"has {data.size - consts['drop_first_k']}, {nmodel} on {json.dumps(sc.canon(c))[:200]}")
            continue
        for j in sorted({0, len(sf) // 2, len(sf) - 1}):
            goals.append((f"sf_norm@{c['shape']}[{j}]", f"sf_norm {vlib.rlit(float(absf[j]))} {vlib.rlit(sumsq)}",
                          float(sf[j]), 1e-12 * abs(float(sf[j])) + 1e-300))
        # wave numbers: np_fftfreq unfolded with numpy's integer frequency, the generated fftfreq_d inside
        idx = list(np.ndindex(*data.shape))[consts["drop_first_k"]:]
        for j in sorted({0, len(k) // 2, len(k) - 1}):
            comps = "; ".join(f"(IZR ({int(sc.int_freq(n)[m])}) * (1 / (INR {n} * fftfreq_d {vlib.rlit(h)}))) ^ 2"
                              for n, h, m in zip(data.shape, disc, idx[j]))
            goals.append((f"k_mag@{c['shape']}{list(idx[j])}", f"k_mag_of [{comps}]", float(k[j]),
                          1e-12 * abs(float(k[j])) + 1e-300))
        size_max = float(f.grid.cuboid.size.max())
        ka, _ = gsf(f)
        goals.append((f"sf_auto_k_min({size_max})", f"sf_auto_k_min {vlib.rlit(size_max)}", float(ka[0]),
                      1e-13 * abs(float(ka[0]))))
        kmax = float(k.max())
        v = float(py["sf_auto_smoothing"](k_max=kmax))
        goals.append((f"sf_auto_smoothing({kmax})", f"sf_auto_smoothing {vlib.rlit(kmax)}", v, 1e-13 * abs(v)))
        ctx.case(["sample-goals", sc.canon(c)])
    if not goals:
        return
    ctx.sample({"goal": f"Rabs ({goals[0][1]} - {vlib.rlit(goals[0][2])}) <= tol", "impl_value": goals[0][2]})
    sc.sample_goal_shards(ctx, "c16", goals,
                          ["sf_norm", "k_mag_of", "rsum", "fold_right", "fftfreq_d", "sf_auto_k_min", "sf_auto_smoothing", "INR"])


def _fftfreq_cases(ctx):
    """numpy's integer frequencies vs Model.Spectrum.wrap_freq, compared inside Coq (vm_compute)"""
    cases = []
    for n in range(1, ctx.scale(33, 65)):
        fr = np.rint(np.fft.fftfreq(n, d=1.0 / n)).astype(int)
        for m in range(n):
            cases.append(f"({n}%nat, {m}%nat, {vlib.zlit(int(fr[m]))})")
    header = ("From Coq Require Import ZArith List Bool.\nImport ListNotations.\nFrom PD Require Import Model.Spectrum.\n"
              "Definition agree (c : nat * nat * Z) : bool := let '(n, m, z) := c in Z.eqb (wrap_freq n m) z.\n")
    bad = vlib.run_cases(ctx, "fftfreq", header, cases, "agree", shard=2500)
    if bad:
        ctx.broken.append(f"oracle-spec:fftfreq model wrap_freq differs from numpy on cases {bad[:5]}")
    ctx.count("fftfreq_lengths", f"1..{ctx.scale(32, 64)}", len(cases))


def check(ctx: vlib.Ctx) -> int:
    sc.quiet()
    rng = random.Random(ctx.seed)
    ok, fresh = vlib.prove_with_fallback(ctx, ["Proofs/C16.vo", "Proofs/SpectrumDFTSmall.vo", "Proofs/SpectrumMathInst.vo", "Model/Samples.vo"],
                                         gens=["Gen_spectrum"])
    fell_back = bool(ctx.extra.get("translator_fell_back"))
    ctx.tie.append(("translator (Gen_spectrum regenerated from the current source: norm keyword, .flat slices, normalisation, "
                    "wave-number lines, control flow of get_structure_factor), validated by interval sample goals and the "
                    "correspondence on get_structure_factor") if fresh else
                   ("correspondence on get_structure_factor (implementation vs the GOLDEN model of Gen_spectrum: interval "
                    "sample goals inside Coq against implementation values, raw spectrum / wave numbers / control flow "
                    "compared per case)"))
    py, consts = sc.load_models(ctx, fresh)
    gen_ok = py is not None
    if not gen_ok:
        ctx.broken.append("model of Gen_spectrum unavailable on the Python side: " + "; ".join(ctx.notes[-1:]))
    if gen_ok and ok:
        _sample_goals(ctx, rng, py, consts)
        _fftfreq_cases(ctx)
    # --- sequence dimension: reference interpreters run concurrently with the streams below
    seq_groups = sc.collision_groups(rng, ctx.scale(5, 15))
    seq_procs = sc.start_fresh_references(seq_groups, "structure factor")
    # --- correspondence, oracle-spec and property oracle on generated fields
    n = ctx.scale(120, 1200)
    if ctx.broken or fell_back:
        n = max(n, 200)  # search for a failing input / full-strength correspondence against the golden model
    failures = []
    corr_bad = []
    spec_bad = {}
    for i in range(n):
        c = sc.gen_case(rng, big=(not ctx.quick and i % 4 == 3), constant=True)
        data = sc.build(c)
        if not np.any(data):
            ctx.case(sc.canon(c), nontrivial=False)
            ctx.count("skipped", "zero field (outside the property: non-zero fields)")
            continue
        ctx.case(sc.canon(c), nontrivial=float(np.ptp(data)) != 0.0)
        sc.count_case(ctx, c)
        ctx.count("cells_log2", int(math.log2(data.size)))
        ctx.count("variance", "zero (constant field)" if float(np.ptp(data)) == 0.0 else "positive")
        if i < 3:
            ctx.sample(sc.canon(c))
        d64 = data.astype(float)
        ctx.count("fftn_vs_definition", "direct O(N^2) evaluation" if data.size <= 96 else "identities only")
        for name in sc.check_fftn_spec(d64, rng):
            spec_bad.setdefault(name, sc.canon(c))
        for name in sc.check_numpy_helpers(int(c["shape"][0]), float(c["h"][0])):
            spec_bad.setdefault(name, sc.canon(c))
        # a result of the wrong kind or an exception on a valid input is a failure with that input, not a crash
        try:
            if gen_ok:
                for b in corr_c16(c, rng, py, consts):
                    corr_bad.append((b, sc.canon(c)))
            failures.extend(prop_c16(c, rng, ctx))
        except Exception as e:  # noqa: BLE001
            failures.append({"what": f"get_structure_factor raises or returns a result of the wrong kind: {type(e).__name__}",
                             "input": sc.canon(c), "error": str(e)[:300]})
    failures.extend(sc.sequence_oracle(ctx, rng, seq_groups, seq_procs, "C16", "structure factor"))
    for name, c in spec_bad.items():
        ctx.broken.append(f"oracle-spec:{'fftn' if name not in ('fftfreq', 'linspace') else name} "
                          f"{'numpy differs from the mathematical DFT (direct evaluation)' if name == 'definition' else 'premise ' + name} fails "
                          f"on {json.dumps(c)[:300]}")
    if corr_bad:
        ctx.broken.append(f"correspondence get_structure_factor: {'generated' if fresh else 'golden'} model and "
                          f"implementation differ ({corr_bad[0][0]}) on {json.dumps(corr_bad[0][1])[:300]} "
                          f"(+{len(corr_bad) - 1} more)")
        if fell_back:  # the correspondence is the tie: its disagreement is the violation, with that input
            b, c0 = min(corr_bad, key=lambda bc: int(np.prod(bc[1]["shape"])))
            ctx.violations.append({"what": f"get_structure_factor differs from the golden model ({b})", "input": c0,
                                   "found": True, "broken": ctx.broken[:3]})
    # report the smallest failing inputs, one per kind of failure
    seen = set()
    for f in sorted(failures, key=lambda f: int(np.prod(f["input"]["shape"]))):
        if f["what"] in seen or len(seen) >= 3:
            continue
        seen.add(f["what"])
        ctx.violations.append({**f, "found": True, "broken": ctx.broken[:3]})
    ctx.extra["oracle_failures"] = len(failures)
    return vlib.finish(ctx, "", TRUSTED, ASSUME, RULE)


def replay(path: str) -> int:
    sc.quiet()
    obj = json.load(open(path))
    print(json.dumps(obj, indent=1)[:3000])
    c = obj.get("input")
    if not isinstance(c, dict) or "shape" not in c:
        print("no stored input; running the oracle on a fresh stream")
        rng = random.Random(0)
        fails = [f for _ in range(40) for f in prop_c16(sc.gen_case(rng), rng)]
    else:
        fails = [f for seed in range(8) for f in prop_c16(c, random.Random(seed))]
    print("oracle failures on current tree:", len(fails))
    for f in fails[:5]:
        print("  ", f["what"], {k: v for k, v in f.items() if k not in ("what", "input")})
    return 1 if fails else 0
