"""C15 -- results do not depend on the number of worker processes or on scheduling.

prove:       Proofs/C15.vo (Proofs/Parallel.vo) over Gen_glue.v (regenerated from the current
             image_analysis.refine_droplets and emulsions.EmulsionTimeCourse.from_storage).
correspond:  refine_droplets / locate_droplets(refine=True) / from_storage run serially and with 2, 3,
             "auto" worker processes while per-task delays (injected through the worker function as seen
             from droplets.image_analysis; the pool forks, so the patched module state reaches the
             workers) force reversed and interleaved completion orders.  The serial per-task results, the
             schedule and the gathered lists are written as Coq literals and compared with
             Model/Parallel.v INSIDE Coq.
oracle:      the property text in Python: same droplets, bit-identical parameters, same order, for every
             process count and schedule; repeating an analysis returns the identical result (run-to-run
             determinism: OBSERVED ON SAMPLES ONLY, no theorem).
"""
from __future__ import annotations

import json
import os
import random
import time
import warnings

import numpy as np

import vlib

# progress bars requested through the documented `progress` argument are not drawn (display only: tqdm still
# iterates its argument in order; read by tqdm when it is first imported)
os.environ.setdefault("TQDM_DISABLE", "1")

TRUSTED = [
    "Coq 8.16.1 kernel + vm_compute (no native_compute)",
    "harness/gen_glue.py (Python-ast reader of refine_droplets / from_storage: executor.map vs as_completed, "
    "iterated argument, max_workers rule, serial test; fails closed)",
    "concurrent.futures.ProcessPoolExecutor.map yields results by submission index; max_workers=None means "
    "os.process_cpu_count(); max_workers <= 0 raises ValueError (modelled by Model/Parallel.v, observed per sample "
    "under forced completion orders)",
    "pickling a droplet / field / emulsion to and from a worker process preserves its bytes (observed per sample)",
]
ASSUME = [
    "PARTIAL: run-to-run determinism of the numpy/scipy kernels (same input -> bit-identical output, in this "
    "process and in forked workers) is runtime behaviour: observed on the samples of this run, not proved; in the "
    "theorems it is the premise that the worker is a function",
    "the serial branch refines the candidate objects in place while the parallel branch refines pickled copies: "
    "the RETURNED droplets are equal (the property), the caller's candidate list is modified only serially",
]
RULE = ("one case = one (input, process count, injected delay pattern) run of refine_droplets / "
        "locate_droplets(refine=True) / EmulsionTimeCourse.from_storage compared bit for bit with the serial run; "
        "distinct = distinct (input, configuration) descriptions; all non-trivial unless the candidate list is empty")

# ---------------------------------------------------------------------------------------
# delay injection: module-level state and functions (picklable by reference, inherited by fork)
# ---------------------------------------------------------------------------------------
_STATE = {"delays": {}, "drop": set(), "index": {}, "orig_refine": None, "orig_locate": None, "log": None}


def _log(idx):
    if _STATE["log"] is not None:
        fd = os.open(_STATE["log"], os.O_WRONLY | os.O_APPEND | os.O_CREAT)
        try:
            os.write(fd, f"{idx}\n".encode())
        finally:
            os.close(fd)


def _delayed_refine(phase_field, droplet, **kwargs):
    key = np.asarray(droplet.position, dtype=float).tobytes()
    d = _STATE["delays"].get(key, 0.0)
    if d:
        time.sleep(d)
    if key in _STATE["drop"]:
        result = None  # "the fit produced nothing": exercises the `is not None` filter of both branches
    else:
        with warnings.catch_warnings():
            warnings.simplefilter("ignore")
            result = _STATE["orig_refine"](phase_field, droplet, **kwargs)
    _log(_STATE["index"].get(key, -1))
    return result


def _delayed_locate(phase_field, *args, **kwargs):
    key = np.ascontiguousarray(phase_field.data).tobytes()
    d = _STATE["delays"].get(key, 0.0)
    if d:
        time.sleep(d)
    with warnings.catch_warnings():
        warnings.simplefilter("ignore")
        result = _STATE["orig_locate"](phase_field, *args, **kwargs)
    _log(_STATE["index"].get(key, -1))
    return result


class patched:
    """Install the delaying wrappers as `droplets.image_analysis.refine_droplet` / `.locate_droplets`."""

    def __init__(self, refine_keys=None, locate_keys=None, delays=None, drop=None, log=None):
        self.refine_keys, self.locate_keys = refine_keys, locate_keys
        self.delays, self.drop, self.log = delays or [], drop or [], log

    def __enter__(self):
        import droplets.image_analysis as ia
        self.ia = ia
        self.saved = (ia.refine_droplet, ia.locate_droplets)
        _STATE["orig_refine"], _STATE["orig_locate"] = self.saved
        keys = self.refine_keys if self.refine_keys is not None else self.locate_keys
        _STATE["index"] = {k: i for i, k in enumerate(keys)}
        _STATE["delays"] = {k: d for k, d in zip(keys, self.delays) if d}
        _STATE["drop"] = {keys[i] for i in self.drop}
        _STATE["log"] = self.log
        if self.log is not None and os.path.exists(self.log):
            os.remove(self.log)
        if self.refine_keys is not None:
            ia.refine_droplet = _delayed_refine
        if self.locate_keys is not None:
            ia.locate_droplets = _delayed_locate
        return self

    def __exit__(self, *a):
        self.ia.refine_droplet, self.ia.locate_droplets = self.saved
        _STATE.update({"delays": {}, "drop": set(), "index": {}, "log": None})

    def completion_order(self):
        if self.log is None or not os.path.exists(self.log):
            return None
        with open(self.log) as fp:
            return [int(x) for x in fp.read().split()]


def delay_pattern(name: str, n: int, unit: float):
    """Per-task delays (seconds) by submission index, and the speed ranking sigma they aim at."""
    if name == "none":
        return [0.0] * n, list(range(n))
    if name == "reversed":  # the first task sleeps longest
        return [unit * (n - 1 - i) for i in range(n)], list(range(n - 1, -1, -1))
    if name == "interleaved":  # even tasks are slow
        d = [unit * (1 + i // 2) if i % 2 == 0 else 0.0 for i in range(n)]
        return d, [i for i in range(n) if i % 2 == 1] + [i for i in range(n) if i % 2 == 0]
    if name == "first_slow":
        return [unit * 2 if i == 0 else 0.0 for i in range(n)], list(range(1, n)) + [0]
    raise ValueError(name)


# ---------------------------------------------------------------------------------------
# inputs
# ---------------------------------------------------------------------------------------
def gen_field_spec(rng: random.Random, kmin=2, kmax=6):
    shape = [16, rng.choice([14, 16])]
    periodic = rng.random() < 0.6
    k = rng.randint(kmin, kmax)
    # droplets on a coarse lattice of sites, far enough apart that every droplet is located separately
    sites = [(x, y) for x in (1 / 6, 1 / 2, 5 / 6) for y in (1 / 6, 1 / 2, 5 / 6)]
    rng.shuffle(sites)
    drops = []
    for (sx, sy) in sites[:k]:
        pos = [round(sx * shape[0] * 4) / 4 + rng.choice([0, 0.25]), round(sy * shape[1] * 4) / 4 + rng.choice([0, 0.25])]
        drops.append([pos, rng.choice([1.25, 1.5, 1.75]), rng.choice([0.5, 0.75])])
    return {"shape": shape, "periodic": periodic, "droplets": drops,
            "noise": rng.choice([0.0, 0.0, 0.02]), "seed": rng.randrange(10 ** 6),
            "dtype": rng.choice([None, None, None, None, "float32", "int"])}


def make_field(spec):
    from pde import ScalarField, UnitGrid
    from droplets import DiffuseDroplet, Emulsion
    grid = UnitGrid(spec["shape"], periodic=spec["periodic"])
    if spec["droplets"]:
        f = Emulsion([DiffuseDroplet(d[0], d[1], d[2]) for d in spec["droplets"]]).get_phasefield(grid)
    else:
        f = ScalarField(grid, 0.0)
    if spec["noise"]:
        f.data += np.random.default_rng(spec["seed"]).normal(0, spec["noise"], grid.shape)
    dt = spec.get("dtype")
    if dt == "float32":
        f = ScalarField(grid, f.data.astype(np.float32), dtype=np.float32)
    elif dt == "int":  # grey levels 0..4
        f = ScalarField(grid, np.rint(np.clip(f.data, 0, 1) * 4).astype(int), dtype=int)
    return f


def realise(v):
    """JSON-friendly values -> the Python objects handed to the implementation ({"__np__": "int64", "v": 2})."""
    if isinstance(v, dict) and "__np__" in v:
        return getattr(np, v["__np__"])(v["v"])
    return v


def make_storage(case, fields, tmpdir=None):
    """MemoryStorage, or a FileStorage (HDF5) written to the case directory and reopened read-only."""
    from pde import FileStorage, MemoryStorage
    if not fields:
        return MemoryStorage(times=[], data=[]), None
    if case.get("storage") == "file" and tmpdir is not None:
        path = os.path.join(tmpdir, "c15_storage.hdf5")
        if os.path.exists(path):
            os.remove(path)
        w = FileStorage(path, write_mode="truncate")
        w.start_writing(fields[0])
        for f, t in zip(fields, case["times"]):
            w.append(f, t)
        w.end_writing()
        w.close()
        return FileStorage(path, write_mode="read_only"), path
    return MemoryStorage.from_fields(case["times"], fields), None


def release_storage(storage, path):
    if path is not None:
        try:
            storage.close()
        finally:
            if os.path.exists(path):
                os.remove(path)


def fresh(x):
    """A fresh, equal copy of caller-supplied options (one per analysis, as a user would write them)."""
    import copy
    return copy.deepcopy(x)


def deep_equal(a, b) -> bool:
    if isinstance(a, dict) and isinstance(b, dict):
        return list(a.keys()) == list(b.keys()) and all(deep_equal(a[k], b[k]) for k in a)
    if isinstance(a, (list, tuple)) and isinstance(b, (list, tuple)):
        return type(a) is type(b) and len(a) == len(b) and all(deep_equal(x, y) for x, y in zip(a, b))
    if isinstance(a, np.ndarray) or isinstance(b, np.ndarray):
        return isinstance(a, np.ndarray) and isinstance(b, np.ndarray) and a.shape == b.shape and \
            a.tobytes() == b.tobytes()
    return type(a) is type(b) and (a == b or (a != a and b != b))


def describe_options(x):
    if isinstance(x, dict):
        return {k: describe_options(v) for k, v in x.items()}
    if isinstance(x, np.ndarray):
        return "array" + repr(x.tolist())
    return x


def mutation_of(before, after, tolerance=None):
    """None if the caller's option dicts are unchanged by the call.  Otherwise ('tolerance-defaults', text) when
    the only change is that ftol/xtol/gtol := the `tolerance` the caller passed were written into the caller's
    least_squares_params (value does not depend on the analysed data), else ('other', text)."""
    if deep_equal(before, after):
        return None
    text = f"caller's options {describe_options(before)} became {describe_options(after)}"

    def holder(d):  # the dict that carries `least_squares_params` (refine_droplet keywords or refine_args)
        if isinstance(d.get("least_squares_params"), dict):
            return d
        if isinstance(d.get("refine_args"), dict) and isinstance(d["refine_args"].get("least_squares_params"), dict):
            return d["refine_args"]
        return None

    stripped = fresh(after)
    hb, ha = holder(before), holder(stripped)
    if hb is not None and ha is not None and ha.get("tolerance") is not None:
        for k in ("ftol", "xtol", "gtol"):
            if k not in hb["least_squares_params"] and ha["least_squares_params"].get(k) == ha["tolerance"]:
                del ha["least_squares_params"][k]
        if deep_equal(before, stripped):
            return ("tolerance-defaults", text)
    return ("other", text)


def canon_droplets(lst):
    return [None if d is None else (type(d).__name__, str(d.data.dtype), d._data_array.tobytes()) for d in lst]


def canon_tc(tc):
    return {"times": list(tc.times), "emulsions": [canon_droplets(e) for e in tc.emulsions]}


def floats(c):
    return None if c is None else (c[0], [float(x) for x in np.frombuffer(c[2], dtype="<f8")])


def pos_key(d):
    return np.asarray(d.position, dtype=float).tobytes()


# keyword arguments of refine_droplet (= refine_args of locate_droplets), incl. explicit option dicts
REFINE_KWARGS = [
    {}, {"vmin": None, "vmax": None}, {"tolerance": 1e-4}, {"adjust_values": True, "vmin": 0.0, "vmax": 1.0},
    {"adjust_values": True, "least_squares_params": {"max_nfev": 4}},
    {"adjust_values": True, "vmin": None, "vmax": None, "least_squares_params": {"max_nfev": 6}, "tolerance": 1e-3},
    {"least_squares_params": {"max_nfev": 5}},
    {"tolerance": 1e-3, "least_squares_params": {}},
    {"adjust_values": True, "least_squares_params": {"max_nfev": 8, "xtol": 1e-6}, "tolerance": 1e-4},
]

CONFIGS_REFINE = [(2, "reversed"), (3, "interleaved"), ("auto", "reversed"), (2, "first_slow"), (3, "reversed"),
                  ("auto", "interleaved"), (2, "none")]


def gen_refine_case(rng: random.Random, k: int):
    spec = gen_field_spec(rng)
    kwargs = rng.choice(REFINE_KWARGS)
    if "least_squares_params" in kwargs and len(spec["droplets"]) < 3:
        spec = gen_field_spec(rng, 3, 6)  # several different droplets share (or do not share) the option dicts
    n = len(spec["droplets"])
    drop = [rng.randrange(n)] if rng.random() < 0.4 else []
    np_, pattern = CONFIGS_REFINE[k % len(CONFIGS_REFINE)]
    return {"call": "refine_droplets", "field": spec, "kwargs": kwargs, "drop": drop,
            "candidate_kind": rng.choice(["located", "located", "perturbed", "diffuse", "diffuse_unset", "perturbed2d",
                                          "unpickled", "refined"]),
            "container": CONTAINERS[(k * 3 + k // len(CONFIGS_REFINE)) % len(CONTAINERS)], "num_processes": np_,
            "delays": pattern}


def candidates_of(case, field):
    """The candidate list of a refine_droplets case (fresh objects on every call)."""
    from droplets import DiffuseDroplet
    from droplets.image_analysis import locate_droplets
    with warnings.catch_warnings():
        warnings.simplefilter("ignore")
        cands = list(locate_droplets(field, threshold=0.5, minimal_radius=0.5))
    kind = case["candidate_kind"]
    if kind == "perturbed":
        r = np.random.default_rng(case["field"]["seed"] + 1)
        for c in cands:
            c.position = c.position + r.choice([-0.25, 0.0, 0.25], size=2)
            c.radius = float(c.radius) * float(r.choice([0.875, 1.0, 1.125]))
    elif kind == "diffuse":
        cands = [DiffuseDroplet(c.position, c.radius, 1.0) for c in cands]
    elif kind == "diffuse_unset":  # interface width not set: refine_droplet starts from the grid spacing
        cands = [DiffuseDroplet(c.position, c.radius) for c in cands]
    elif kind == "perturbed2d":
        from droplets.droplets import PerturbedDroplet2D
        cands = [PerturbedDroplet2D(c.position, c.radius, 1.0, [0.0, 0.0]) for c in cands]
    elif kind == "unpickled":  # what a worker process / a file hands back
        import pickle
        cands = [pickle.loads(pickle.dumps(DiffuseDroplet(c.position, c.radius))) for c in cands]
    elif kind == "refined":  # results of a previous refinement, deep-copied
        import copy
        from droplets.image_analysis import refine_droplet
        with warnings.catch_warnings():
            warnings.simplefilter("ignore")
            cands = [copy.deepcopy(_STATE["orig_refine"](field, c) if _STATE["orig_refine"] else refine_droplet(field, c))
                     for c in cands]
    if "take" in case:  # only the first k candidates (edge cases: 0, 1, 2 tasks)
        cands = cands[:case["take"]]
    return cands


CONTAINERS = ["list", "tuple", "emulsion", "ndarray", "generator", "iter", "filter", "map", "dict_values", "oneshot"]
ONE_SHOT = ["generator", "iter", "filter", "map", "oneshot"]


class OneShot:
    """An iterable that can be traversed only once (a stream): a second `iter()` is an error of the consumer."""

    def __init__(self, items):
        self._items, self._used = list(items), False

    def __iter__(self):
        if self._used:
            raise RuntimeError("one-shot iterable traversed a second time")
        self._used = True
        return iter(self._items)


def _identity(d):
    return d


def _always(d):
    return True


def container_of(case, cands):
    """What the caller hands to refine_droplets (annotated Iterable[DiffuseDroplet]): the SAME droplet objects in a
    list, tuple, the caller's Emulsion, a numpy object array, or a one-shot iterable (generator, iter(list),
    filter / map object, a stream class), or a dict view."""
    kind = case.get("container", "list")
    if kind == "list":
        return cands
    if kind == "tuple":
        return tuple(cands)
    if kind == "emulsion":
        from droplets import Emulsion
        return Emulsion(cands, copy=False) if cands else cands
    if kind == "ndarray":
        arr = np.empty(len(cands), dtype=object)
        for i, c in enumerate(cands):
            arr[i] = c
        return arr
    if kind == "generator":
        return (c for c in cands)
    if kind == "iter":
        return iter(cands)
    if kind == "filter":
        return filter(_always, cands)
    if kind == "map":
        return map(_identity, cands)
    if kind == "dict_values":
        return {i: c for i, c in enumerate(cands)}.values()
    if kind == "oneshot":
        return OneShot(cands)
    raise ValueError(kind)


def refine_call(ia, field, case, np_, kw):
    """One call of refine_droplets on freshly built candidates: (canonical results, caller-visible state of the
    candidates afterwards: changed? per candidate, result-aliases-a-candidate? per result)."""
    cands = candidates_of(case, field)  # the caller keeps these objects; the container holds the same objects
    before = canon_droplets(cands)
    res = ia.refine_droplets(field, container_of(case, cands), num_processes=np_, **kw)
    after = canon_droplets(cands)
    state = {"changed": [a != b for a, b in zip(before, after)], "after": after, "before": before,
             "aliased": [any(r is c for c in cands) for r in res if r is not None],
             "length": (len(before), len(after))}
    return canon_droplets(res), state


def run_refine_case(case, log=None, unit=0.12):
    """Serial run, serial rerun, per-candidate direct calls, parallel run under the delay pattern."""
    import droplets.image_analysis as ia
    field = make_field(case["field"])
    keys = [pos_key(c) for c in candidates_of(case, field)]
    n = len(keys)
    delays, sigma = delay_pattern(case["delays"], n, unit)
    drop = sorted({i % n for i in case["drop"]}) if n else []
    out = {"n": n, "sigma": sigma}
    with warnings.catch_warnings():
        warnings.simplefilter("ignore")
        with patched(refine_keys=keys, drop=drop):
            # every analysis gets a FRESH, equal copy of the caller's options; afterwards the copy is compared
            # with the original (an analysis that writes into caller-supplied dicts couples the tasks of the
            # serial branch but not those of the pool, whose workers receive pickled copies)
            tol = case["kwargs"].get("tolerance")
            kw = fresh(case["kwargs"])
            ser1, out["candidates_serial"] = refine_call(ia, field, case, 1, kw)
            out["mutation_serial"] = mutation_of(case["kwargs"], kw, tol)
            # ... once more with the SAME (possibly modified) dict object, and once more with a fresh one
            ser3 = canon_droplets(ia.refine_droplets(field, candidates_of(case, field), num_processes=1, **kw))
            ser2 = canon_droplets(ia.refine_droplets(field, candidates_of(case, field), num_processes=1,
                                                     **fresh(case["kwargs"])))
            direct = canon_droplets([ia.refine_droplet(field, c, **fresh(case["kwargs"]))
                                     for c in candidates_of(case, field)])
            out["serial_reused_options"] = ser3
        with patched(refine_keys=keys, delays=delays, drop=drop, log=log) as p:
            try:
                kw = fresh(case["kwargs"])
                res, out["candidates_parallel"] = refine_call(ia, field, case, case["num_processes"], kw)
                par = ("ok", res)
                out["mutation_parallel"] = mutation_of(case["kwargs"], kw, tol)
            except Exception as e:  # noqa
                par = ("err", type(e).__name__)
            out["completed"] = p.completion_order()
    out.update(serial=ser1, serial_again=ser2, direct=direct, parallel=par)
    return out


def judge_lists(a, b, what_a, what_b):
    if len(a) != len(b):
        return f"{what_a} returns {len(a)} droplets, {what_b} returns {len(b)}"
    for i, (x, y) in enumerate(zip(a, b)):
        if x != y:
            same_set = sorted(map(repr, a)) == sorted(map(repr, b))
            return (f"droplet {i} differs ({'same droplets in a different order' if same_set else 'different parameters'}): "
                    f"{what_a} {floats(x)} vs {what_b} {floats(y)}")
    return None


def judge_refine_case(case, obs):
    fails = []
    m = judge_lists(obs["serial"], obs["serial_again"], "serial run", "repeated serial run")
    if m:
        fails.append("run-to-run: " + m)
    if obs["parallel"][0] != "ok":
        fails.append(f"parallel run (num_processes={case['num_processes']}) raised {obs['parallel'][1]}")
    else:
        m = judge_lists(obs["serial"], obs["parallel"][1], "num_processes=1",
                        f"num_processes={case['num_processes']} (delays: {case['delays']})")
        if m:
            fails.append(m)
    want = [d for d in obs["direct"] if d is not None]
    m = judge_lists(obs["serial"], want, "refine_droplets serial", "[refine_droplet(c) for c in candidates if not None]")
    if m:
        fails.append(m)
    fails += judge_options(case["kwargs"], obs, "refine_droplets")
    # the caller's candidate objects after the call must not depend on the number of processes (F32: fitted in
    # place serially, untouched by the pool), and a result must not be one of the caller's objects in one branch only
    cs, cp = obs.get("candidates_serial"), obs.get("candidates_parallel")
    if cs is not None and cp is not None:
        if cs["after"] != cp["after"] or cs["length"] != cp["length"]:
            i = next((i for i, (a, b) in enumerate(zip(cs["after"], cp["after"])) if a != b), 0)
            fails.append(f"the caller's candidates ({case.get('container', 'list')} of {case['candidate_kind']}) after the call "
                         f"depend on the number of processes: candidate {i} was {floats(cs['before'][i]) if cs['before'] else None}, is "
                         f"{floats(cs['after'][i]) if cs['after'] else None} after num_processes=1 and "
                         f"{floats(cp['after'][i]) if cp['after'] else None} after num_processes={case['num_processes']}; a later "
                         "analysis that reuses the candidates depends on how this one was scheduled")
        elif cs["aliased"] != cp["aliased"]:
            fails.append(f"results of num_processes=1 are the caller's candidate objects themselves "
                         f"(aliased: {cs['aliased']}), results of num_processes={case['num_processes']} are new objects")
    return fails


def judge_options(options, obs, what):
    """Caller-supplied option dicts: unchanged after the call; reusing the dict object gives the same result."""
    fails = []
    # what the caller can observe after the call must not depend on the number of processes: a dict that the
    # serial branch writes into and the pool (pickled copies) does not makes the NEXT analysis that reuses the
    # dict differ by schedule (defect F31, repaired: corpus/defects.py F31 shows the bit-level difference)
    if "mutation_serial" in obs and "mutation_parallel" in obs and obs["mutation_serial"] != obs["mutation_parallel"]:
        ms, mp = obs["mutation_serial"], obs["mutation_parallel"]
        fails.append(f"{what}: the caller's option dicts after the call depend on the number of processes "
                     f"(serial: {ms[1] if ms else 'unchanged'}; with workers: {mp[1] if mp else 'unchanged'}), "
                     "so a later analysis reusing them depends on how this one was scheduled")
    if "serial_reused_options" in obs:
        m = judge_lists(obs["serial"], obs["serial_reused_options"], "first analysis",
                        "repeated analysis with the same options object") \
            if isinstance(obs["serial"], list) else (None if obs["serial"] == obs["serial_reused_options"] else
                                                     "repeated analysis with the same options object differs")
        if m:
            fails.append("repeating with the same options: " + m)
    return fails


# ---- locate_droplets(refine=True, num_processes=...) ----------------------------------------
def gen_locate_case(rng: random.Random, k: int):
    spec = gen_field_spec(rng)
    opts = rng.choice([{}, {"threshold": "extrema"}, {"minimal_radius": 1.0}, {"modes": 2},
                       {"modes": 1, "interface_width": 1.0}, {"interface_width": 0.75},
                       {"refine_args": {"vmin": None, "vmax": None}}, {"threshold": 0.4, "minimal_radius": 0.5},
                       {"refine_args": None}, {"refine_args": {}},
                       {"refine_args": {"adjust_values": True, "least_squares_params": {"max_nfev": 4}}},
                       {"refine_args": {"adjust_values": True, "tolerance": 1e-3, "least_squares_params": {"max_nfev": 6}},
                        "minimal_radius": 0.5}])
    if "least_squares_params" in (opts.get("refine_args") or {}):
        spec = gen_field_spec(rng, 3, 6)
    np_, pattern = [(2, "reversed"), ("auto", "interleaved"), (3, "first_slow")][k % 3]
    return {"call": "locate_droplets", "field": spec, "options": opts, "num_processes": np_, "delays": pattern}


def run_locate_case(case, log=None, unit=0.12):
    import droplets.image_analysis as ia
    field = make_field(case["field"])
    opts = fresh(case["options"])
    tol = (case["options"].get("refine_args") or {}).get("tolerance")
    with warnings.catch_warnings():
        warnings.simplefilter("ignore")
        pre = ia.locate_droplets(field, **{k: v for k, v in opts.items() if k != "refine_args"})
        keys = [pos_key(c) for c in pre]
        delays, sigma = delay_pattern(case["delays"], len(keys), unit)
        ser1 = canon_droplets(ia.locate_droplets(field, refine=True, num_processes=1, **opts))
        mut_s = mutation_of(case["options"], opts, tol)
        ser3 = canon_droplets(ia.locate_droplets(field, refine=True, num_processes=1, **opts))
        ser2 = canon_droplets(ia.locate_droplets(field, refine=True, num_processes=1, **fresh(case["options"])))
        opts = fresh(case["options"])
        with patched(refine_keys=keys, delays=delays, log=log) as p:
            try:
                par = ("ok", canon_droplets(ia.locate_droplets(field, refine=True,
                                                               num_processes=case["num_processes"], **opts)))
            except Exception as e:  # noqa
                par = ("err", type(e).__name__)
            completed = p.completion_order()
    return {"n": len(keys), "sigma": sigma, "serial": ser1, "serial_again": ser2, "parallel": par,
            "completed": completed, "mutation_serial": mut_s, "mutation_parallel": mutation_of(case["options"], opts, tol),
            "serial_reused_options": ser3}


def judge_locate_case(case, obs):
    fails = []
    m = judge_lists(obs["serial"], obs["serial_again"], "serial run", "repeated serial run")
    if m:
        fails.append("run-to-run: " + m)
    if obs["parallel"][0] != "ok":
        fails.append(f"locate_droplets(num_processes={case['num_processes']}) raised {obs['parallel'][1]}")
    else:
        m = judge_lists(obs["serial"], obs["parallel"][1], "locate_droplets(num_processes=1)",
                        f"locate_droplets(num_processes={case['num_processes']}, delays: {case['delays']})")
        if m:
            fails.append(m)
    fails += judge_options(case["options"], obs, "locate_droplets")
    return fails


# ---- EmulsionTimeCourse.from_storage ----------------------------------------------------------
def gen_storage_case(rng: random.Random, k: int):
    n = rng.choice([2, 3, 4, 5])
    base = gen_field_spec(rng, 1, 4)
    frames = []
    for i in range(n):
        s = dict(base)
        # shrinking / vanishing droplets: a different emulsion in every frame (incl. an empty frame)
        s["droplets"] = [] if (i == n - 1 and rng.random() < 0.5) else \
            [[d[0], max(0.75, d[1] - 0.125 * i * (j + 1)), d[2]] for j, d in enumerate(base["droplets"])]
        s["seed"] = base["seed"] + i
        frames.append(s)
    opts = rng.choice([{}, {"refine": True}, {"minimal_radius": 1.0, "threshold": "extrema"},
                       {"refine": True, "modes": 1, "refine_args": {"vmin": None, "vmax": None}},
                       {"refine": True, "refine_args": {"adjust_values": True, "tolerance": 1e-3,
                                                        "least_squares_params": {"max_nfev": 4}}},
                       {"refine": True, "refine_args": None}, {"refine": True, "refine_args": {}}])
    dtype = rng.choice([None, None, None, "float32", "int"])
    if dtype:
        for f in frames:
            f["dtype"] = dtype
    np_, pattern = [(2, "first_slow"), (3, "reversed"), ("auto", "first_slow"), (1, "none"), (3, "interleaved")][k % 5]
    # the documented `progress` argument: None (default), False, True -- every value with every process count
    return {"call": "from_storage", "frames": frames, "times": [0.5 * i + 0.25 for i in range(n)], "options": opts,
            "num_processes": np_, "delays": pattern, "progress": [True, None, False][k % 3],
            "storage": ["memory", "file"][(k // 2) % 2]}


def gen_tracklist_case(rng: random.Random, k: int):
    case = gen_storage_case(rng, k)
    case["call"] = "tracklist_from_storage"
    case["options"] = {"refine": rng.random() < 0.5, "method": rng.choice(["overlap", "distance"])}
    case["num_processes"], case["delays"] = [(2, "first_slow"), ("auto", "reversed"), (3, "first_slow")][k % 3]
    case["progress"] = [True, None, False, True][k % 4]
    return case


def run_storage_case(case, log=None, unit=0.12):
    from pde import MemoryStorage
    import droplets.image_analysis as ia
    from droplets.emulsions import EmulsionTimeCourse
    fields = [make_field(s) for s in case["frames"]]
    storage, spath = make_storage(case, fields, os.path.dirname(log) if log else None)
    keys = [np.ascontiguousarray(f.data).tobytes() for f in storage]
    distinct = len(set(keys)) == len(keys)
    delays, sigma = delay_pattern(case["delays"], len(keys), unit)
    with warnings.catch_warnings():
        warnings.simplefilter("ignore")
        progress = case.get("progress", False)
        tol = (case["options"].get("refine_args") or {}).get("tolerance")
        kw = fresh(case["options"])
        ser1 = canon_tc(EmulsionTimeCourse.from_storage(storage, num_processes=1, progress=False, **kw))
        mut_s = mutation_of(case["options"], kw, tol)
        ser3 = canon_tc(EmulsionTimeCourse.from_storage(storage, num_processes=1, progress=False, **kw))
        ser2 = canon_tc(EmulsionTimeCourse.from_storage(storage, num_processes=1, progress=progress,
                                                        **fresh(case["options"])))
        direct = [canon_droplets(ia.locate_droplets(f, **fresh(case["options"]))) for f in storage]
        kw = fresh(case["options"])
        with patched(locate_keys=keys, delays=delays if distinct else None, log=log) as p:
            try:
                par = ("ok", canon_tc(EmulsionTimeCourse.from_storage(storage, num_processes=case["num_processes"],
                                                                      progress=progress, **kw)))
            except Exception as e:  # noqa
                par = ("err", type(e).__name__)
            completed = p.completion_order()
    release_storage(storage, spath)
    return {"n": len(keys), "sigma": sigma, "serial": ser1, "serial_again": ser2, "direct": direct, "parallel": par,
            "completed": completed, "mutation_serial": mut_s, "mutation_parallel": mutation_of(case["options"], kw, tol),
            "serial_reused_options": ser3}


def pairs(tc):
    """(time, emulsion) pairs: a time must stay with the frame it belongs to."""
    return list(zip(tc["times"], tc["emulsions"]))


def judge_storage_case(case, obs):
    fails = []
    cfg = f"num_processes={case['num_processes']}, progress={case.get('progress', False)}, delays: {case['delays']}"
    if pairs(obs["serial"]) != pairs(obs["serial_again"]):
        fails.append(f"from_storage(num_processes=1, progress=False) and from_storage(num_processes=1, "
                     f"progress={case.get('progress', False)}) differ (run-to-run / progress dependence)")
    if pairs(obs["serial"]) != list(zip(case["times"], obs["direct"])):
        fails.append("from_storage(num_processes=1) differs from [(t, locate_droplets(frame)) for t, frame in storage.items()]")
    if obs["parallel"][0] != "ok":
        fails.append(f"from_storage({cfg}) raised {obs['parallel'][1]}")
    else:
        par = obs["parallel"][1]
        if len(par["times"]) != len(par["emulsions"]) or len(par["emulsions"]) != len(obs["serial"]["emulsions"]):
            fails.append(f"from_storage({cfg}): {len(par['emulsions'])} frames, {len(par['times'])} times; serial has "
                         f"{len(obs['serial']['emulsions'])}")
        for i, (a, b) in enumerate(zip(pairs(obs["serial"]), pairs(par))):
            if a != b:
                moved = [j for j, e in enumerate(obs["serial"]["emulsions"]) if e == b[1]]
                fails.append(f"frame {i}: from_storage({cfg}) pairs time {b[0]} with "
                             f"{'the emulsion of frame ' + str(moved[0]) + ' (frames reordered, times not)' if moved and a[0] == b[0] else 'a different emulsion'}"
                             f": serial ({a[0]}, {[floats(x) for x in a[1]]}) vs ({b[0]}, {[floats(x) for x in b[1]]})")
                break
    fails += judge_options(case["options"], obs, "from_storage")
    return fails


def canon_tracks(tl):
    return [(list(map(float, tr.times)), canon_droplets(tr.droplets)) for tr in tl]


def run_tracklist_case(case, log=None, unit=0.12):
    from pde import MemoryStorage
    from droplets.droplet_tracks import DropletTrackList
    fields = [make_field(s) for s in case["frames"]]
    storage = MemoryStorage.from_fields(case["times"], fields)
    keys = [np.ascontiguousarray(f.data).tobytes() for f in storage]
    distinct = len(set(keys)) == len(keys)
    delays, sigma = delay_pattern(case["delays"], len(keys), unit)
    o = case["options"]
    with warnings.catch_warnings():
        warnings.simplefilter("ignore")
        ser = canon_tracks(DropletTrackList.from_storage(storage, method=o["method"], refine=o["refine"],
                                                         num_processes=1, progress=False))
        with patched(locate_keys=keys, delays=delays if distinct else None, log=log) as p:
            try:
                par = ("ok", canon_tracks(DropletTrackList.from_storage(
                    storage, method=o["method"], refine=o["refine"], num_processes=case["num_processes"],
                    progress=case["progress"])))
            except Exception as e:  # noqa
                par = ("err", type(e).__name__)
            completed = p.completion_order()
    return {"n": len(keys), "sigma": sigma, "serial": ser, "parallel": par, "completed": completed}


def judge_tracklist_case(case, obs):
    cfg = f"num_processes={case['num_processes']}, progress={case['progress']}, delays: {case['delays']}"
    if obs["parallel"][0] != "ok":
        return [f"DropletTrackList.from_storage({cfg}) raised {obs['parallel'][1]}"]
    if obs["parallel"][1] != obs["serial"]:
        a, b = obs["serial"], obs["parallel"][1]
        i = next((i for i, (x, y) in enumerate(zip(a, b)) if x != y), min(len(a), len(b)))
        return [f"DropletTrackList.from_storage({cfg}) differs from the serial result: {len(a)} vs {len(b)} tracks, "
                f"first difference at track {i}: serial {[(a[i][0], [floats(x) for x in a[i][1]])] if i < len(a) else None} "
                f"vs {[(b[i][0], [floats(x) for x in b[i][1]])] if i < len(b) else None}"]
    return []


# ---- edge cases: 0, 1, 2 tasks for every process count in all three entry points ---------------
EDGE_FULL = {"shape": [16, 16], "periodic": True, "noise": 0.0, "seed": 3,
             "droplets": [[[3.0, 3.0], 1.5, 0.75], [[8.25, 8.0], 1.75, 0.5], [[13.0, 3.0], 1.25, 0.75]]}
EDGE_EMPTY = {"shape": [16, 16], "periodic": True, "noise": 0.0, "seed": 3, "droplets": []}
EDGE_SINGLE_P = {"shape": [16, 16], "periodic": True, "noise": 0.0, "seed": 3, "droplets": [[[8.0, 8.0], 2.0, 0.75]]}
EDGE_SINGLE = {"shape": [16, 16], "periodic": False, "noise": 0.0, "seed": 3, "droplets": [[[8.0, 8.0], 2.0, 0.75]]}


def edge_cases(thorough=False):
    cases = []
    for np_ in (2, 3, "auto"):
        for take, kind, cont in ((0, "located", "list"), (1, "diffuse", "emulsion"), (2, "perturbed2d", "list")):
            cases.append({"call": "edge", "entry": "refine_droplets", "what": f"{take} candidates", "field": EDGE_FULL,
                          "take": take, "candidate_kind": kind, "container": cont, "kwargs": {},
                          "num_processes": np_, "delays": "none"})
        for what, spec, opts in (("frame without droplets", EDGE_EMPTY, {}),
                                 ("minimal_radius removes every candidate", EDGE_FULL, {"minimal_radius": 50.0}),
                                 ("frame with one droplet", EDGE_SINGLE, {"modes": 1})):
            cases.append({"call": "edge", "entry": "locate_droplets", "what": what, "field": spec, "options": opts,
                          "num_processes": np_, "delays": "none"})
        for nframes in (0, 1):
            cases.append({"call": "edge", "entry": "from_storage", "what": f"storage with {nframes} frame(s)",
                          "frames": [EDGE_FULL] * nframes, "times": [0.5] * nframes,
                          "options": {"refine": True, "minimal_radius": 0.5}, "progress": [None, True][nframes],
                          "num_processes": np_, "delays": "none"})
    # the kind of container of the candidates x process count (one-shot iterables with every count; the others
    # with one count each in the quick tier, all in the thorough tier), and empty / single-item one-shot containers
    for i, cont in enumerate(CONTAINERS):
        counts = (2, 3, "auto") if (cont in ONE_SHOT or thorough) else ((2, 3, "auto")[i % 3],)
        for np_ in counts:
            cases.append({"call": "edge", "entry": "refine_droplets", "what": f"3 candidates in a {cont}", "field": EDGE_FULL,
                          "take": 3, "candidate_kind": ["located", "diffuse", "perturbed2d"][i % 3], "container": cont,
                          "kwargs": {}, "num_processes": np_, "delays": "none"})
    for cont, take, np_ in (("generator", 0, "auto"), ("iter", 0, 2), ("oneshot", 1, 3), ("map", 1, "auto"), ("filter", 2, 2)):
        cases.append({"call": "edge", "entry": "refine_droplets", "what": f"{take} candidates in a {cont}", "field": EDGE_FULL,
                      "take": take, "candidate_kind": "located", "container": cont, "kwargs": {}, "num_processes": np_,
                      "delays": "none"})
    # num_processes as a numpy integer (valid: an integer), as the float 1.0 / 2.0, as None, 0 and negative
    # (documented: "int or 'auto'"): see judge_edge_case for what is demanded of each
    for v in ({"__np__": "int64", "v": 2}, {"__np__": "int64", "v": 1}, 2.0, 1.0, None, 0, -1):
        cases.append({"call": "edge", "entry": "refine_droplets", "what": "3 candidates", "field": EDGE_FULL, "take": 3,
                      "candidate_kind": "located", "container": "list", "kwargs": {}, "num_processes": v, "delays": "none"})
        cases.append({"call": "edge", "entry": "from_storage", "what": "storage with 2 frame(s)",
                      "frames": [EDGE_FULL, EDGE_SINGLE_P], "times": [0.5, 1.5], "options": {"refine": True},
                      "progress": None, "num_processes": v, "delays": "none"})
        if v in (0, -1) or isinstance(v, dict):
            cases.append({"call": "edge", "entry": "locate_droplets", "what": "frame with three droplets", "field": EDGE_FULL,
                          "options": {}, "num_processes": v, "delays": "none"})
    return cases


def run_edge_case(case):
    """The same call with num_processes=1 and with the case's process count: ('ok', result) | ('err', exception)."""
    from pde import MemoryStorage
    import droplets.image_analysis as ia
    from droplets.emulsions import EmulsionTimeCourse

    def call(np_):
        try:
            if case["entry"] == "refine_droplets":
                field = make_field(case["field"])
                res = ia.refine_droplets(field, container_of(case, candidates_of(case, field)), num_processes=np_,
                                         **fresh(case["kwargs"]))
                return ("ok", canon_droplets(res)), len(candidates_of(case, field))
            if case["entry"] == "locate_droplets":
                field = make_field(case["field"])
                res = ia.locate_droplets(field, refine=True, num_processes=np_, **fresh(case["options"]))
                return ("ok", canon_droplets(res)), len(res)
            fields = [make_field(f) for f in case["frames"]]
            storage = MemoryStorage.from_fields(case["times"], fields) if fields else MemoryStorage(times=[], data=[])
            tc = EmulsionTimeCourse.from_storage(storage, num_processes=np_, progress=case["progress"],
                                                 **fresh(case["options"]))
            return ("ok", canon_tc(tc)), len(fields)
        except Exception as e:  # noqa
            return ("err", type(e).__name__), 0

    with warnings.catch_warnings():
        warnings.simplefilter("ignore")
        (ser, n), (par, _) = call(1), call(realise(case["num_processes"]))
    return {"n": n, "sigma": [], "serial": ser, "parallel": par, "completed": None}


def judge_edge_case(case, obs):
    v = realise(case["num_processes"])
    if v is not None and not isinstance(v, str) and not isinstance(v, dict):
        if isinstance(v, (int, np.integer)) and not isinstance(v, bool) and v <= 0:
            # a non-positive process count cannot be honoured: every entry point must reject it the same way
            # (Model/Parallel.v: BadWorkerCount = ValueError of the pool) -- unless there is nothing to do in parallel
            if obs["parallel"] != ("err", "ValueError") and obs["n"] > 0:
                got = obs["parallel"][1] if obs["parallel"][0] == "err" else "a result"
                return [f"{case['entry']} ({case['what']}): num_processes={v} gives {got}, expected ValueError"]
            return []
        if isinstance(v, float):
            # not documented (int or "auto"): recorded; if it returns, the result must be the serial one
            if obs["parallel"][0] == "err":
                return []
    if obs["serial"] != obs["parallel"]:
        d = lambda r: r[1] if r[0] == "err" else ("returns " + (str(len(r[1])) + " droplets" if isinstance(r[1], list)  # noqa
                                                               else str(len(r[1]["times"])) + " frames"))
        return [f"{case['entry']} ({case['what']}): num_processes=1 {'raises ' if obs['serial'][0] == 'err' else ''}"
                f"{d(obs['serial'])}, num_processes={case['num_processes']} "
                f"{'raises ' if obs['parallel'][0] == 'err' else ''}{d(obs['parallel'])}"]
    return []


# ---------------------------------------------------------------------------------------
# known findings (known_findings.json, kind = "finding", property = "C15")
# ---------------------------------------------------------------------------------------
def unset_width_crosses_pool(case) -> bool:
    """A DiffuseDroplet (or subclass) whose interface width is unset is pickled to a worker."""
    if case["call"] == "edge":
        return False
    if case["call"] == "refine_droplets":
        return case["candidate_kind"] == "diffuse_unset"
    if case["call"] == "locate_droplets":
        return case["options"].get("modes", 0) > 0 and case["options"].get("interface_width") is None
    return False  # from_storage: the candidates are created inside the worker


def failure_class(case, obs, fails):
    """Descriptor matched against known_findings.json: only a case whose ONLY failure is the listed one."""
    if (len(fails) == 1 and obs["parallel"] == ("err", "TypeError") and unset_width_crosses_pool(case)):
        return {"failure": "parallel-raises-TypeError", "condition": "unset-interface-width-crosses-pool"}
    return None


def known_match(desc):
    if desc is None:
        return None
    for e in vlib.load_known():
        m = e.get("match", {})
        if (e.get("property") == "C15" and e.get("kind") == "finding" and m.get("failure") == desc["failure"]
                and m.get("condition") == desc["condition"]):
            return e
    return None


def corpus_cases():
    """Inputs of past findings: always run."""
    spec = {"shape": [16, 14], "periodic": True, "noise": 0.0, "seed": 1,
            "droplets": [[[3.0, 2.25], 1.5, 0.75], [[8.25, 7.0], 1.75, 0.75], [[2.75, 12.0], 1.25, 0.75]]}
    return [
        {"call": "locate_droplets", "field": spec, "options": {"modes": 2}, "num_processes": 2, "delays": "none"},
        {"call": "refine_droplets", "field": spec, "kwargs": {}, "drop": [], "candidate_kind": "diffuse_unset",
         "num_processes": 2, "delays": "reversed"},
    ]


# ---------------------------------------------------------------------------------------
# Coq literals
# ---------------------------------------------------------------------------------------
class Ids:
    def __init__(self):
        self.d = {}

    def __call__(self, key) -> int:
        return self.d.setdefault(key, len(self.d))


def np_literal(x) -> str:
    return "NPAuto" if x == "auto" else f"(NPInt {int(x)})"


def ncpu() -> int:
    return getattr(os, "process_cpu_count", os.cpu_count)() or 1


HEADER = """From Coq Require Import String List Bool Arith.
Import ListNotations.
From PD Require Import Model.Parallel Gen.Gen_glue Proofs.C15.
Local Open Scope nat_scope.

Definition opt_eqb (a b : option nat) : bool :=
  match a, b with Some x, Some y => Nat.eqb x y | None, None => true | _, _ => false end.
Fixpoint list_eqb {A} (e : A -> A -> bool) (a b : list A) : bool :=
  match a, b with
  | [] , [] => true
  | x :: a', y :: b' => e x y && list_eqb e a' b'
  | _, _ => false
  end.
Definition is_none (o : option nat) : bool := match o with None => true | Some _ => false end.

(* (filtering branch?, progress truthy?, per-task results of direct calls (None = the task returned None), num_processes, cpus,
    schedule, serial result, result with num_processes) -- tasks are identified with their index *)
Definition case_t : Type :=
  bool * bool * list (option nat) * nproc * nat * list nat * list (option nat) * list (option nat) * (nat * nat)
  * (list nat * list nat).

Definition worker (table : list (option nat)) (i : nat) : option nat :=
  match nth_error table i with Some r => r | None => Some 999999 end.

Definition agree (c : case_t) : bool :=
  let '(filtering, progress, table, np, ncpu, sigma, serial, parallel, (opt_serial, opt_parallel),
        (cand_serial, cand_parallel)) := c in
  let P := if filtering then P_refine else P_storage progress in
  let tasks := seq 0 (length table) in
  (* the caller's options are state 0 before the call; a task that writes into the object it is handed leaves it in
     a state the harness does not predict (999999); opt_serial / opt_parallel: the state observed after the call *)
  let task := fun (o : nat) (i : nat) => (worker table i, 999999) in
  match mapped is_none P (worker table) (worker table) (NPInt 1) ncpu sigma tasks,
        mapped is_none P (worker table) (worker table) np ncpu sigma tasks with
  | Done s, Done p =>
      list_eqb opt_eqb s serial && list_eqb opt_eqb p parallel &&
      (if filtering then
         match mapped_with_options is_none P refine_copies_options task 0 (NPInt 1) ncpu sigma tasks,
               mapped_with_options is_none P refine_copies_options task 0 np ncpu sigma tasks with
         | Done (s', os), Done (p', op) =>
             list_eqb opt_eqb s' serial && list_eqb opt_eqb p' parallel && Nat.eqb os opt_serial && Nat.eqb op opt_parallel
         | _, _ => false
         end
         (* the caller's candidate i is in state i before the call; cand_serial / cand_parallel: the states observed
            afterwards (i = unchanged); a task that writes into the object it is handed leaves it in a state the
            harness does not predict *)
         && match mapped_with_arguments is_none P refine_copies_candidate (fun i => (worker table i, 999999))
                                        (NPInt 1) ncpu sigma tasks,
                  mapped_with_arguments is_none P refine_copies_candidate (fun i => (worker table i, 999999))
                                        np ncpu sigma tasks with
            | Done (_, cs), Done (_, cp) => list_eqb Nat.eqb cs cand_serial && list_eqb Nat.eqb cp cand_parallel
            | _, _ => false
            end
       else true)
  | _, _ => false
  end.
"""


def case_literal(filtering: bool, table, np_, sigma, serial, parallel, progress=False, options=(0, 0),
                 cands=((), ())) -> str:
    o = lambda x: "None" if x is None else f"(Some {x})"  # noqa
    return (f"(({vlib.blit(filtering)}, {vlib.blit(bool(progress))}, {vlib.listlit(table, o)}, {np_literal(np_)}, {ncpu()}, "
            f"{vlib.listlit(sigma)}, {vlib.listlit(serial, o)}, {vlib.listlit(parallel, o)}, "
            f"({options[0]}, {options[1]}), ({vlib.listlit(cands[0])}, {vlib.listlit(cands[1])})) : case_t)")


# ---------------------------------------------------------------------------------------
# check
# ---------------------------------------------------------------------------------------
def order_kind(completed, n):
    if completed is None or sorted(completed) != list(range(n)):
        return "not-observed"
    if completed == list(range(n)):
        return "submission-order"
    if completed == list(range(n - 1, -1, -1)):
        return "fully-reversed"
    return "reordered"


def check(ctx: vlib.Ctx) -> int:
    import logging
    logging.disable(logging.WARNING)  # log messages of the analysed library (also in forked workers)
    try:
        return _check(ctx)
    finally:
        logging.disable(logging.NOTSET)


def _check(ctx: vlib.Ctx) -> int:
    rng = random.Random(ctx.seed)
    ok, fresh = vlib.prove_with_fallback(ctx, ["Proofs/C15.vo", "Proofs/ParallelOneShot.vo"], gens=["Gen_glue"])
    ctx.tie.append("correspondence: gathered lists, (time, emulsion) pairs and the caller's option dicts after the call, "
                   "under forced completion orders, compared inside Coq with Model/Parallel.v over the "
                   + ("regenerated" if fresh else "GOLDEN") + " facts of Gen_glue (gather kind, max_workers rule, serial "
                   "test, filters, option copying)" + ("" if fresh else " -- the translator did not carry the current "
                                                       "source, this correspondence is the tie; every disagreement is "
                                                       "a violation"))
    gen_ok = True  # the Coq side evaluates Gen.Gen_glue as it is in the build directory (fresh or golden)
    lit_cases = []
    log = str(ctx.casedir / "completion.log")
    ctx.casedir.mkdir(parents=True, exist_ok=True)
    violations = []
    literals = []
    ids = Ids()
    t0 = time.time()

    def record(kind, case, obs, fails):
        ctx.case([kind, case], nontrivial=obs["n"] > 0)
        ctx.count("call", kind)
        ctx.count("num_processes", json.dumps(case["num_processes"]))
        ctx.count("delay_pattern", case["delays"])
        if "progress" in case:
            ctx.count("progress x num_processes", f"{case['progress']} x {case['num_processes']}")
        ctx.count("tasks", obs["n"])
        ctx.count("storage_kind", case.get("storage", "memory") if "frames" in case else "n/a")
        spec0 = case.get("field") or (case.get("frames") or [{}])[0]
        ctx.count("image_dtype", spec0.get("dtype") or "float64")
        ra = (case.get("options") or {}).get("refine_args", "<absent>") if "options" in case else "<n/a>"
        ctx.count("refine_args None/{}/dict", "None" if ra is None else "{}" if ra == {} else ra if isinstance(ra, str) else "dict")
        for key in ("mutation_serial", "mutation_parallel"):
            if key in obs:
                ctx.count("caller_option_dicts_after_call(" + key.split("_")[1] + ")",
                          "unchanged" if obs[key] is None else obs[key][0])
        ro = case.get("kwargs") or case.get("options", {}).get("refine_args") or {}
        ctx.count("explicit_least_squares_params", "least_squares_params" in ro)
        ctx.count("completion_order_observed(timing, informative only)", order_kind(obs["completed"], obs["n"]))
        e = known_match(failure_class(case, obs, fails)) if fails else None
        if e is not None:
            line = f"{e.get('id', '')} {e['what']}".strip()
            if line not in ctx.known_printed:
                ctx.known_printed.append(line)
            ctx.count("known_finding_inputs", e.get("id", "?"))
            return
        for f in fails[:1]:
            violations.append({"what": f"{kind}: {f}", "input": case, "found": True})

    # ---- corpus
    for case in corpus_cases():
        if case["call"] == "refine_droplets":
            obs = run_refine_case(case, log)
            record("refine_droplets", case, obs, judge_refine_case(case, obs))
        else:
            obs = run_locate_case(case, log)
            record("locate_droplets", case, obs, judge_locate_case(case, obs))
    # ---- 0, 1, 2 tasks for every process count, all entry points
    for case in edge_cases(thorough=not ctx.quick):
        obs = run_edge_case(case)
        record("edge:" + case["entry"], case, obs, judge_edge_case(case, obs))
        ctx.count("edge_tasks x num_processes", f"{case['what']} x {json.dumps(case['num_processes'])}")
        if case["entry"] == "refine_droplets":
            ctx.count("candidate_container x num_processes (edge stream)",
                      f"{case.get('container', 'list')} x {json.dumps(case['num_processes'])}")
        ctx.count("edge_outcome", f"num_processes={json.dumps(case['num_processes'])}: " +
                  (obs["parallel"][1] if obs["parallel"][0] == "err" else "returns"))
    # ---- refine_droplets
    for k in range(ctx.scale(42, 160)):
        case = gen_refine_case(rng, k)
        obs = run_refine_case(case, log)
        fails = judge_refine_case(case, obs)
        record("refine_droplets", case, obs, fails)
        ctx.count("candidate_kind", case["candidate_kind"])
        ctx.count("candidate_container", case.get("container", "list"))
        if "candidates_serial" in obs:
            ctx.count("caller_candidates_after_call(serial)", "changed" if any(obs["candidates_serial"]["changed"]) else "unchanged")
        if "candidates_parallel" in obs:
            ctx.count("caller_candidates_after_call(parallel)", "changed" if any(obs["candidates_parallel"]["changed"]) else "unchanged")
        ctx.count("dropped_by_worker", len(case["drop"]))
        if k < 2:
            ctx.sample({"case": case, "tasks": obs["n"], "completion_order_observed": obs["completed"],
                        "serial": [floats(x) for x in obs["serial"]]})
        if obs["parallel"][0] == "ok":
            table = [None if d is None else ids(d) for d in obs["direct"]]
            oid = lambda m: 0 if m is None else 1 + ids(("options", m[1]))  # noqa: 0 = as the caller wrote them
            literals.append(case_literal(True, table, case["num_processes"], obs["sigma"],
                                         [ids(d) for d in obs["serial"]], [ids(d) for d in obs["parallel"][1]],
                                         options=(oid(obs.get("mutation_serial")), oid(obs.get("mutation_parallel"))),
                                         cands=tuple([i if not ch else 1000000 + i for i, ch in enumerate(obs[k]["changed"])]
                                                     for k in ("candidates_serial", "candidates_parallel"))))
            lit_cases.append(case)
    # ---- locate_droplets(refine=True, num_processes=...)
    for k in range(ctx.scale(12, 48)):
        case = gen_locate_case(rng, k)
        obs = run_locate_case(case, log)
        fails = judge_locate_case(case, obs)
        record("locate_droplets", case, obs, fails)
    # ---- from_storage
    for k in range(ctx.scale(20, 80)):
        case = gen_storage_case(rng, k)
        obs = run_storage_case(case, log)
        fails = judge_storage_case(case, obs)
        record("from_storage", case, obs, fails)
        if k == 0:
            ctx.sample({"case": {**case, "frames": [len(f["droplets"]) for f in case["frames"]]},
                        "completion_order_observed": obs["completed"],
                        "droplets_per_frame": [len(e) for e in obs["serial"]["emulsions"]]})
        if obs["parallel"][0] == "ok":
            # a task result = the emulsion of a frame; the gathered lists are compared as (time, emulsion) pairs
            key = lambda e: ids(("emulsion", tuple(e)))  # noqa
            pkey = lambda tc: [ids(("pair", t, key(e))) for t, e in pairs(tc)]  # noqa
            literals.append(case_literal(False, [ids(("pair", t, key(e))) for t, e in zip(case["times"], obs["direct"])],
                                         case["num_processes"], obs["sigma"], pkey(obs["serial"]),
                                         pkey(obs["parallel"][1]), progress=case["progress"]))
            lit_cases.append(case)
    # ---- DropletTrackList.from_storage (forwards num_processes and progress)
    for k in range(ctx.scale(6, 24)):
        case = gen_tracklist_case(rng, k)
        obs = run_tracklist_case(case, log)
        record("tracklist_from_storage", case, obs, judge_tracklist_case(case, obs))
    # ---- a worker count of zero is rejected (Model: BadWorkerCount)
    import droplets.image_analysis as ia
    field = make_field(gen_field_spec(random.Random(ctx.seed + 5)))
    with warnings.catch_warnings():
        warnings.simplefilter("ignore")
        cands = list(ia.locate_droplets(field))
        try:
            ia.refine_droplets(field, cands, num_processes=0)
            zero = "returned"
        except ValueError:
            zero = "ValueError"
        except Exception as e:  # noqa
            zero = type(e).__name__
    ctx.count("num_processes=0", zero)
    if zero != "ValueError":
        ctx.broken.append(f"correspondence: refine_droplets(num_processes=0) {zero}; the model says the pool rejects it")
    ctx.extra["pool_phase_wall_s"] = round(time.time() - t0, 1)

    if gen_ok and ok:
        bad = vlib.run_cases(ctx, "pool", HEADER, literals, "agree", shard=40)
        if bad:
            ctx.broken.append(f"correspondence: Model/Parallel.v (over the generated facts) and the implementation "
                              f"differ on pool cases {bad[:6]}")
            for i in bad[:2]:
                if not any(v["input"] is lit_cases[i] for v in violations):
                    violations.append({"what": f"{lit_cases[i]['call']}: the gathered results / the caller's options "
                                               "after the call differ from Model/Parallel.v over the facts in use "
                                               "(compared inside Coq)", "input": lit_cases[i], "found": True})

    # ---- something no longer checks but the stream found nothing: search harder
    if ctx.broken and not violations:
        rng2 = random.Random(ctx.seed + 1)
        for k in range(ctx.scale(24, 60)):
            case = gen_refine_case(rng2, k)
            case["field"] = gen_field_spec(rng2, 4, 6)
            fails = judge_refine_case(case, run_refine_case(case, log, unit=0.2))
            if not fails:
                case = gen_storage_case(rng2, k)
                fails = judge_storage_case(case, run_storage_case(case, log, unit=0.2))
            if not fails:
                case = gen_tracklist_case(rng2, k)
                fails = judge_tracklist_case(case, run_tracklist_case(case, log, unit=0.2))
            if fails:
                violations.append({"what": f"{case['call']}: {fails[0]}", "input": case, "found": True})
                break
    for v in violations[:3]:
        v["broken"] = ctx.broken[:3]
        ctx.violations.append(v)
    if os.path.exists(log):
        os.remove(log)
    return vlib.finish(ctx, "", TRUSTED, ASSUME, RULE)


def replay(path: str) -> int:
    obj = json.load(open(path))
    print(json.dumps({k: v for k, v in obj.items() if k != "input"}, indent=1)[:2000])
    case = obj.get("input")
    if not case:
        print("no concrete input stored (no-failing-input-found)")
        return 0
    print("input:", json.dumps(case))
    if case["call"] == "edge":
        obs = run_edge_case(case)
        fails = judge_edge_case(case, obs)
        print("num_processes=1:", obs["serial"][0], obs["serial"][1] if obs["serial"][0] == "err" else "")
        print(f"num_processes={case['num_processes']}:", obs["parallel"][0], obs["parallel"][1] if obs["parallel"][0] == "err" else "")
    elif case["call"] == "refine_droplets":
        obs = run_refine_case(case, unit=0.2)
        fails = judge_refine_case(case, obs)
        print("serial  :", [floats(x) for x in obs["serial"]])
        print("parallel:", obs["parallel"][0], [floats(x) for x in obs["parallel"][1]] if obs["parallel"][0] == "ok" else obs["parallel"][1])
    elif case["call"] == "locate_droplets":
        obs = run_locate_case(case, unit=0.2)
        fails = judge_locate_case(case, obs)
        print("serial  :", [floats(x) for x in obs["serial"]])
        print("parallel:", obs["parallel"][0], [floats(x) for x in obs["parallel"][1]] if obs["parallel"][0] == "ok" else obs["parallel"][1])
    elif case["call"] == "tracklist_from_storage":
        obs = run_tracklist_case(case, unit=0.2)
        fails = judge_tracklist_case(case, obs)
        print("serial tracks  :", [(t, len(d)) for t, d in obs["serial"]])
        print("parallel tracks:", [(t, len(d)) for t, d in obs["parallel"][1]] if obs["parallel"][0] == "ok" else obs["parallel"])
    else:
        obs = run_storage_case(case, unit=0.2)
        fails = judge_storage_case(case, obs)
        print("serial droplets per frame  :", [len(e) for e in obs["serial"]["emulsions"]])
        if obs["parallel"][0] == "ok":
            print("parallel droplets per frame:", [len(e) for e in obs["parallel"][1]["emulsions"]])
    print("oracle failures on current tree:", fails)
    return 1 if fails else 0
