"""Translator plug-in for property C08: facts of the HDF5 codec that the Coq model
(coq/Model/Codec.v, record `fmt`) is parametrised over, read from the CURRENT source tree.

Emits coq/Gen/Gen_codec.v with one `Definition` per fact:

  key format strings of EmulsionTimeCourse.to_file / DropletTrackList.to_file (prefix, zero-padded width),
  attribute names (written and read side separately), the marker of empty collections (written and
  compared side), which member supplies the class name (self[0] / self[-1]), whether from_file
  iterates sorted(fp.keys()), name and position of the time column of DropletTrack.data and the
  names used when reading it back, default dataset keys, the check of DropletTrack.data that rejects
  members with differing dtypes (and the error it raises).

Fail closed: anything that does not have the expected shape raises TranslateError.  The matching is
by pattern inside the named functions (not by whole-body comparison), so renaming locals, adding
logging or reordering independent statements does not disturb it.
"""
from __future__ import annotations

import ast
import os
import re
from pathlib import Path

from translate import TranslateError, find_function, parse_file

REPO = Path(os.environ.get("VERIF_REPO", "/repo"))


# ---------------------------------------------------------------------------------------------
# helpers
# ---------------------------------------------------------------------------------------------
def _coq_string(s: str) -> str:
    if not isinstance(s, str) or not s.isascii() or any(ord(ch) < 32 or ch == '"' for ch in s):
        raise TranslateError(f"string literal {s!r} cannot be rendered as a Coq string")
    return '"' + s + '"'


def _const_str(node) -> str | None:
    if isinstance(node, ast.Constant) and isinstance(node.value, str):
        return node.value
    return None


def _is_attrs_subscript(node) -> str | None:
    """`<expr>.attrs["name"]` -> name"""
    if (isinstance(node, ast.Subscript) and isinstance(node.value, ast.Attribute)
            and node.value.attr == "attrs"):
        return _const_str(node.slice)
    return None


def _one(items, what):
    items = list(items)
    if len(items) != 1:
        raise TranslateError(f"expected exactly one {what}, found {len(items)}")
    return items[0]


def _member_sel(node, where) -> str:
    """`self[0].__class__.__name__` / `type(self[0]).__name__` (index 0 or -1) -> First / Last"""
    if not (isinstance(node, ast.Attribute) and node.attr == "__name__"):
        raise TranslateError(f"{where}: class name is not taken from `.__name__`: {ast.unparse(node)}")
    inner = node.value
    if isinstance(inner, ast.Attribute) and inner.attr == "__class__":
        obj = inner.value
    elif (isinstance(inner, ast.Call) and isinstance(inner.func, ast.Name) and inner.func.id == "type"
          and len(inner.args) == 1 and not inner.keywords):
        obj = inner.args[0]
    else:
        raise TranslateError(f"{where}: unexpected class expression {ast.unparse(node)}")
    if not (isinstance(obj, ast.Subscript) and isinstance(obj.value, ast.Name) and obj.value.id == "self"):
        # self.first / self.droplets[0] would be equivalent, but are not what the model was written for
        raise TranslateError(f"{where}: class name is not that of a member self[k]: {ast.unparse(node)}")
    idx = obj.slice
    if isinstance(idx, ast.UnaryOp) and isinstance(idx.op, ast.USub) and isinstance(idx.operand, ast.Constant):
        val = -idx.operand.value
    elif isinstance(idx, ast.Constant):
        val = idx.value
    else:
        val = None
    if val == 0:
        return "First"
    if val == -1:
        return "Last"
    raise TranslateError(f"{where}: class name of member {ast.unparse(idx)} (expected 0 or -1)")


def _writer_facts(fn: ast.FunctionDef, where: str) -> dict:
    """_write_hdf_dataset(self, hdf_path, key="..."): default key, attribute name, marker, member."""
    args = fn.args
    names = [a.arg for a in args.args]
    if "key" not in names:
        raise TranslateError(f"{where}: no parameter `key`")
    k = names.index("key") - (len(names) - len(args.defaults))
    if k < 0 or _const_str(args.defaults[k]) is None:
        raise TranslateError(f"{where}: parameter `key` has no string default")
    default_key = _const_str(args.defaults[k])
    # if self: ... else: ...
    ifs = [s for s in fn.body if isinstance(s, ast.If)]
    top = _one(ifs, f"`if` statement in {where}")
    if not (isinstance(top.test, ast.Name) and top.test.id == "self") and ast.unparse(top.test) not in (
            "len(self) > 0", "len(self) != 0", "len(self)"):
        raise TranslateError(f"{where}: unexpected emptiness test `{ast.unparse(top.test)}`")

    def attr_assigns(stmts):
        out = []
        for s in stmts:
            for n in ast.walk(s):
                if isinstance(n, ast.Assign) and len(n.targets) == 1:
                    name = _is_attrs_subscript(n.targets[0])
                    if name is not None:
                        out.append((name, n.value))
        return out

    def creates(stmts):
        out = []
        for s in stmts:
            for n in ast.walk(s):
                if isinstance(n, ast.Call) and isinstance(n.func, ast.Attribute) and n.func.attr == "create_dataset":
                    out.append(n)
        return out

    a_full = _one(attr_assigns(top.body), f"attribute assignment in the non-empty branch of {where}")
    a_empty = _one(attr_assigns(top.orelse), f"attribute assignment in the empty branch of {where}")
    marker = _const_str(a_empty[1])
    if marker is None:
        raise TranslateError(f"{where}: marker of the empty collection is not a string literal")
    c_full = _one(creates(top.body), f"create_dataset call in the non-empty branch of {where}")
    c_empty = _one(creates(top.orelse), f"create_dataset call in the empty branch of {where}")
    kw_full = {k.arg: ast.unparse(k.value) for k in c_full.keywords}
    kw_empty = {k.arg: ast.unparse(k.value) for k in c_empty.keywords}
    if not (len(c_full.args) == 1 and ast.unparse(c_full.args[0]) == "key" and kw_full == {"data": "self.data"}):
        raise TranslateError(f"{where}: unexpected create_dataset call `{ast.unparse(c_full)}`")
    if not (len(c_empty.args) == 1 and ast.unparse(c_empty.args[0]) == "key" and kw_empty == {"shape": "()"}):
        raise TranslateError(f"{where}: unexpected create_dataset call `{ast.unparse(c_empty)}`")
    if a_full[0] != a_empty[0]:
        raise TranslateError(f"{where}: the two branches write different attributes {a_full[0]!r} / {a_empty[0]!r}")
    return {"key": default_key, "attr_w": a_full[0], "none_w": marker, "sel": _member_sel(a_full[1], where)}


def _reader_facts(fn: ast.FunctionDef, where: str) -> dict:
    """_from_hdf_dataset(cls, dataset): attribute read, literal the class name is compared with."""
    reads = [(n, _is_attrs_subscript(n)) for n in ast.walk(fn) if _is_attrs_subscript(n) is not None]
    node, attr = _one(reads, f"attribute read in {where}")
    # the value must be bound to a name that is compared with a literal and handed to droplet_from_data
    binds = [s for s in ast.walk(fn) if isinstance(s, ast.Assign) and s.value is node
             and len(s.targets) == 1 and isinstance(s.targets[0], ast.Name)]
    var = _one(binds, f"binding of the class attribute in {where}").targets[0].id
    cmps = [n for n in ast.walk(fn) if isinstance(n, ast.Compare) and isinstance(n.left, ast.Name)
            and n.left.id == var]
    c = _one(cmps, f"comparison of the class name in {where}")
    if not (len(c.ops) == 1 and isinstance(c.ops[0], ast.Eq) and _const_str(c.comparators[0]) is not None):
        raise TranslateError(f"{where}: unexpected comparison `{ast.unparse(c)}`")
    # the `==` branch must be the empty one: `if name == marker:` with droplet_from_data in the other branch
    ifs = [s for s in ast.walk(fn) if isinstance(s, ast.If) and s.test is c]
    top = _one(ifs, f"`if` on the class name in {where}")
    in_then = any(isinstance(n, ast.Call) and ast.unparse(n.func) == "droplet_from_data"
                  for s in top.body for n in ast.walk(s))
    calls = [n for n in ast.walk(fn) if isinstance(n, ast.Call) and ast.unparse(n.func) == "droplet_from_data"]
    call = _one(calls, f"droplet_from_data call in {where}")
    if in_then or not (len(call.args) == 2 and isinstance(call.args[0], ast.Name) and call.args[0].id == var):
        raise TranslateError(f"{where}: droplet_from_data is not called with the class attribute in the non-empty branch")
    return {"attr_r": attr, "none_r": _const_str(c.comparators[0])}


def _key_format(fn: ast.FunctionDef, where: str) -> dict:
    """to_file: `for i, x in enumerate(...): x._write_hdf_dataset(fp, f"prefix{i:0Wd}")`"""
    loops = [s for s in ast.walk(fn) if isinstance(s, ast.For)
             and isinstance(s.iter, ast.Call) and ast.unparse(s.iter.func) == "enumerate"]
    loop = _one(loops, f"enumerate loop in {where}")
    if len(loop.iter.args) != 1 or loop.iter.keywords:
        raise TranslateError(f"{where}: enumerate with a start value")
    if ast.unparse(loop.iter.args[0]) not in ("self", "self.items()"):
        raise TranslateError(f"{where}: enumerates `{ast.unparse(loop.iter.args[0])}`")
    if not (isinstance(loop.target, ast.Tuple) and len(loop.target.elts) == 2
            and isinstance(loop.target.elts[0], ast.Name)):
        raise TranslateError(f"{where}: unexpected loop target")
    idx = loop.target.elts[0].id
    calls = [n for s in loop.body for n in ast.walk(s) if isinstance(n, ast.Call)
             and isinstance(n.func, ast.Attribute) and n.func.attr == "_write_hdf_dataset"]
    call = _one(calls, f"_write_hdf_dataset call in the loop of {where}")
    if len(call.args) != 2 or call.keywords:
        raise TranslateError(f"{where}: unexpected arguments of _write_hdf_dataset")
    fs = call.args[1]
    if not (isinstance(fs, ast.JoinedStr) and len(fs.values) == 2 and _const_str(fs.values[0]) is not None
            and isinstance(fs.values[1], ast.FormattedValue)):
        raise TranslateError(f"{where}: key is not of the form f\"prefix{{i:0Wd}}\": {ast.unparse(fs)}")
    fv = fs.values[1]
    spec = fv.format_spec
    if not (isinstance(fv.value, ast.Name) and fv.value.id == idx and fv.conversion == -1
            and isinstance(spec, ast.JoinedStr) and len(spec.values) == 1 and _const_str(spec.values[0]) is not None):
        raise TranslateError(f"{where}: unexpected formatted value in {ast.unparse(fs)}")
    m = re.fullmatch(r"0([1-9][0-9]?)d", _const_str(spec.values[0]))
    if not m:
        raise TranslateError(f"{where}: format spec {_const_str(spec.values[0])!r} is not zero-padded decimal")
    out = {"prefix": _const_str(fs.values[0]), "width": int(m.group(1)), "loop": loop, "call": call}
    if not out["prefix"] or out["prefix"][-1].isdigit():
        raise TranslateError(f"{where}: key prefix {out['prefix']!r} is empty or ends in a digit")
    return out


def _sorted_iteration(fn: ast.FunctionDef, where: str) -> dict:
    """from_file: `for key in [display_progress(] [sorted(] fp.keys() [)] [, ...)]: dataset = fp[key]`"""
    loops = [s for s in ast.walk(fn) if isinstance(s, ast.For)]
    loop = _one(loops, f"loop in {where}")
    it = loop.iter
    if isinstance(it, ast.Call) and ast.unparse(it.func) == "display_progress":
        if not it.args:
            raise TranslateError(f"{where}: display_progress without iterable")
        it = it.args[0]
    src = ast.unparse(it)
    if src == "sorted(fp.keys())" or src == "sorted(fp)":
        is_sorted = True
    elif src in ("fp.keys()", "fp", "list(fp.keys())", "list(fp)"):
        is_sorted = False
    else:
        raise TranslateError(f"{where}: iterates over `{src}`")
    if not isinstance(loop.target, ast.Name):
        raise TranslateError(f"{where}: unexpected loop target")
    k = loop.target.id
    gets = [n for s in loop.body for n in ast.walk(s) if isinstance(n, ast.Subscript)
            and ast.unparse(n.value) == "fp" and ast.unparse(n.slice) == k]
    _one(gets, f"`fp[{k}]` in the loop of {where}")
    return {"sorted": is_sorted, "loop": loop}


def _track_data(fn: ast.FunctionDef, where: str) -> dict:
    """DropletTrack.data: dtype = [("time", "f8")] + descr ; row = (times[i],) + data.tolist()"""
    def side(binop, is_time, is_rest, what):
        if not (isinstance(binop, ast.BinOp) and isinstance(binop.op, ast.Add)):
            raise TranslateError(f"{where}: {what} is not a concatenation: {ast.unparse(binop)}")
        if is_time(binop.left) and is_rest(binop.right):
            return True
        if is_time(binop.right) and is_rest(binop.left):
            return False
        raise TranslateError(f"{where}: unexpected {what}: {ast.unparse(binop)}")

    name_box = []

    def dtype_time(n):
        if (isinstance(n, ast.List) and len(n.elts) == 1 and isinstance(n.elts[0], ast.Tuple)
                and len(n.elts[0].elts) == 2 and _const_str(n.elts[0].elts[0]) is not None
                and _const_str(n.elts[0].elts[1]) in ("f8", "<f8", "float64")):
            name_box.append(_const_str(n.elts[0].elts[0]))
            return True
        return False

    def dtype_rest(n):
        return isinstance(n, ast.Attribute) and n.attr == "descr"

    def row_time(n):
        return (isinstance(n, ast.Tuple) and len(n.elts) == 1 and isinstance(n.elts[0], ast.Subscript)
                and ast.unparse(n.elts[0].value) == "self.times")

    def row_rest(n):
        return (isinstance(n, ast.Call) and isinstance(n.func, ast.Attribute) and n.func.attr == "tolist"
                and not n.args and ast.unparse(n.func.value).startswith("self.droplets["))

    dts = [s for s in ast.walk(fn) if isinstance(s, ast.Assign) and len(s.targets) == 1
           and isinstance(s.targets[0], ast.Name) and s.targets[0].id == "dtype"]
    dt = _one(dts, f"dtype assignment in {where}")
    first_dtype = side(dt.value, dtype_time, dtype_rest, "dtype")
    rows = [s for s in ast.walk(fn) if isinstance(s, ast.Assign) and len(s.targets) == 1
            and isinstance(s.targets[0], ast.Subscript) and ast.unparse(s.targets[0].value) == "result"]
    rw = _one(rows, f"row assignment in {where}")
    first_row = side(rw.value, row_time, row_rest, "row tuple")
    if first_dtype != first_row:
        raise TranslateError(f"{where}: the time column is at different positions in the dtype and in the rows")
    # the dtype must be taken from the first member
    d0s = [s for s in ast.walk(fn) if isinstance(s, ast.Assign) and len(s.targets) == 1
           and isinstance(s.targets[0], ast.Name) and s.targets[0].id == "d0"]
    d0 = _one(d0s, f"binding of d0 in {where}")
    if ast.unparse(d0.value) not in ("self.first", "self.droplets[0]", "self[0]"):
        raise TranslateError(f"{where}: dtype is taken from `{ast.unparse(d0.value)}`")
    rest = dt.value.right if first_dtype else dt.value.left
    if ast.unparse(rest) != "d0.data.dtype.descr":
        raise TranslateError(f"{where}: droplet part of the dtype is `{ast.unparse(rest)}`")
    return {"time_w": name_box[0], "time_first": first_dtype}


def _track_guards(fn: ast.FunctionDef, where: str) -> dict:
    """DropletTrack.data: the `if ...: raise` statements before the rows are filled.  Expected: the class check
    (`len(classes) > 1`) followed by at most one layout check
    `if any(d.data.dtype != d0.data.dtype for d in self.droplets): raise E(...)`.  Any other raising `if` is
    rejected (fail closed).  Returns the exception of the layout check (None if there is no such check)."""
    guards = [n for n in ast.walk(fn) if isinstance(n, ast.If)
              and any(isinstance(b, ast.Raise) for st in n.body for b in ast.walk(st))]
    cls_checks = [g for g in guards if ast.unparse(g.test) == "len(classes) > 1"]
    cls_check = _one(cls_checks, f"class check in {where}")
    if not (len(cls_check.body) == 1 and isinstance(cls_check.body[0], ast.Raise)
            and ast.unparse(cls_check.body[0].exc.func) == "TypeError"):
        raise TranslateError(f"{where}: the class check does not raise TypeError")
    binds = [st for st in ast.walk(fn) if isinstance(st, ast.Assign) and len(st.targets) == 1
             and ast.unparse(st.targets[0]) == "classes"]
    b = _one(binds, f"binding of `classes` in {where}")
    if ast.unparse(b.value) not in ("{d.__class__ for d in self.droplets}", "{type(d) for d in self.droplets}"):
        raise TranslateError(f"{where}: classes = {ast.unparse(b.value)}")
    rest = [g for g in guards if g is not cls_check]
    if not rest:
        return {"layout_guard": None}
    g = _one(rest, f"further raising `if` in {where}")
    t = g.test
    ok = (isinstance(t, ast.Call) and isinstance(t.func, ast.Name) and t.func.id == "any" and len(t.args) == 1
          and not t.keywords and isinstance(t.args[0], ast.GeneratorExp) and len(t.args[0].generators) == 1)
    if ok:
        ge = t.args[0]
        comp = ge.generators[0]
        var = comp.target.id if isinstance(comp.target, ast.Name) else None
        ok = (var is not None and not comp.ifs and ast.unparse(comp.iter) in ("self.droplets", "self")
              and isinstance(ge.elt, ast.Compare) and len(ge.elt.ops) == 1 and isinstance(ge.elt.ops[0], ast.NotEq)
              and {ast.unparse(ge.elt.left), ast.unparse(ge.elt.comparators[0])} == {f"{var}.data.dtype", "d0.data.dtype"})
    if not ok:
        raise TranslateError(f"{where}: unrecognised check `if {ast.unparse(t)}: raise ...`")
    if not (len(g.body) == 1 and isinstance(g.body[0], ast.Raise) and isinstance(g.body[0].exc, ast.Call)
            and isinstance(g.body[0].exc.func, ast.Name)):
        raise TranslateError(f"{where}: unexpected body of the layout check")
    if g.lineno < cls_check.lineno:
        raise TranslateError(f"{where}: the layout check precedes the class check")
    # it must come before the rows are filled
    rows = [st for st in ast.walk(fn) if isinstance(st, ast.Assign) and len(st.targets) == 1
            and isinstance(st.targets[0], ast.Subscript) and ast.unparse(st.targets[0].value) == "result"]
    if rows and g.lineno > min(r.lineno for r in rows):
        raise TranslateError(f"{where}: the layout check comes after the rows are filled")
    exc = g.body[0].exc.func.id
    return {"layout_guard": {"TypeError": "EType", "ValueError": "EValue"}.get(exc, "EOther")}


def _track_reader(fn: ast.FunctionDef, where: str) -> dict:
    cols = [n for n in ast.walk(fn) if isinstance(n, ast.Subscript) and ast.unparse(n.value) == "dataset"
            and _const_str(n.slice) is not None]
    col = _one(cols, f"column read `dataset[<name>]` in {where}")
    drops = [n for n in ast.walk(fn) if isinstance(n, ast.Call) and ast.unparse(n.func).endswith("rec_drop_fields")]
    dr = _one(drops, f"rec_drop_fields call in {where}")
    if not (len(dr.args) == 2 and ast.unparse(dr.args[0]) == "dataset" and _const_str(dr.args[1]) is not None):
        raise TranslateError(f"{where}: unexpected call `{ast.unparse(dr)}`")
    return {"time_r": _const_str(col.slice), "time_drop": _const_str(dr.args[1])}


# ---------------------------------------------------------------------------------------------
# state kept between calls: the model is state free, so the covered code must be, too (fail closed)
# ---------------------------------------------------------------------------------------------
COVERED = {
    "droplets/emulsions.py": [
        ["Emulsion", "data"], ["Emulsion", "_write_hdf_dataset"], ["Emulsion", "_from_hdf_dataset"], ["Emulsion", "to_file"],
        ["Emulsion", "from_file"], ["Emulsion", "copy"], ["Emulsion", "append"], ["Emulsion", "extend"],
        ["EmulsionTimeCourse", "to_file"], ["EmulsionTimeCourse", "from_file"], ["EmulsionTimeCourse", "append"]],
    "droplets/droplet_tracks.py": [
        ["DropletTrack", "data"], ["DropletTrack", "_write_hdf_dataset"], ["DropletTrack", "_from_hdf_dataset"],
        ["DropletTrack", "to_file"], ["DropletTrack", "from_file"], ["DropletTrack", "append"],
        ["DropletTrackList", "to_file"], ["DropletTrackList", "from_file"]],
}
OPEN_MODE = {"to_file": "w", "from_file": "r"}
PLAIN_DECORATORS = ("property", "classmethod", "staticmethod", "overload")
STATELESS_MODULE_NAMES = ("__all__", "_logger")


def _module_state(tree: ast.Module) -> tuple[set, dict]:
    """names assigned at module level (other than __all__ / the logger) and the module-level functions"""
    names, funcs = set(), {}
    for s in tree.body:
        if isinstance(s, ast.FunctionDef):
            funcs[s.name] = s
        targets = s.targets if isinstance(s, ast.Assign) else [s.target] if isinstance(s, (ast.AnnAssign, ast.AugAssign)) else []
        for t in targets:
            for n in ast.walk(t):
                if isinstance(n, ast.Name) and n.id not in STATELESS_MODULE_NAMES:
                    names.add(n.id)
    return names, funcs


def _class_state(tree: ast.Module) -> dict:
    """class name -> class-level attributes whose initial value is not a plain constant"""
    out = {}
    for c in tree.body:
        if isinstance(c, ast.ClassDef):
            attrs = set()
            for s in c.body:
                tgt = s.targets[0] if isinstance(s, ast.Assign) and len(s.targets) == 1 else \
                    s.target if isinstance(s, ast.AnnAssign) and s.value is not None else None
                if isinstance(tgt, ast.Name) and not isinstance(s.value, ast.Constant) and tgt.id != "__slots__":
                    attrs.add(tgt.id)
            out[c.name] = attrs
    return out


def _check_stateless(fn: ast.FunctionDef, where: str, mod_names: set, mod_funcs: dict, cls_state: dict, seen: set) -> None:
    if fn.name in seen and where.endswith("()"):
        return
    for d in fn.decorator_list:
        if not ast.unparse(d).split(".")[-1].split("(")[0] in PLAIN_DECORATORS and "setter" not in ast.unparse(d):
            raise TranslateError(f"{where}: decorator @{ast.unparse(d)} (a cache would keep state between calls)")
    cls_attrs = set().union(*cls_state.values()) if cls_state else set()
    for n in ast.walk(fn):
        if isinstance(n, (ast.Global, ast.Nonlocal)):
            raise TranslateError(f"{where}: `{ast.unparse(n)}` (state kept between calls)")
        if isinstance(n, ast.Delete):
            raise TranslateError(f"{where}: `{ast.unparse(n)}` (deletes from an argument / an open file)")
        if isinstance(n, ast.AugAssign) and not isinstance(n.target, ast.Name):
            raise TranslateError(f"{where}: in-place operator on `{ast.unparse(n.target)}`")
        if isinstance(n, ast.Name) and isinstance(n.ctx, ast.Load) and n.id in mod_names:
            raise TranslateError(f"{where}: reads the module-level variable `{n.id}`")
        if isinstance(n, ast.Attribute) and n.attr in cls_attrs and isinstance(n.value, ast.Name) \
                and (n.value.id in ("self", "cls") or n.value.id in cls_state):
            raise TranslateError(f"{where}: uses the class-level attribute `{ast.unparse(n)}` (shared between instances)")
        if isinstance(n, ast.Call) and isinstance(n.func, ast.Name) and n.func.id in mod_funcs and n.func.id not in seen:
            seen.add(n.func.id)       # helpers of the same module are part of the covered code
            _check_stateless(mod_funcs[n.func.id], f"{n.func.id}()", mod_names, mod_funcs, cls_state, seen)


def _open_calls(fn: ast.FunctionDef, mod_funcs: dict) -> list:
    calls = [n for n in ast.walk(fn) if isinstance(n, ast.Call) and ast.unparse(n.func) in ("h5py.File", "File")]
    for n in ast.walk(fn):
        if isinstance(n, ast.Call) and isinstance(n.func, ast.Name) and n.func.id in mod_funcs:
            calls += [m for m in ast.walk(mod_funcs[n.func.id]) if isinstance(m, ast.Call)
                      and ast.unparse(m.func) in ("h5py.File", "File")]
    return calls


def state_guards() -> None:
    """Raise TranslateError if the covered functions (or same-module helpers they call) keep state between calls,
    operate in place on arguments, or open their file in another mode than truncate-and-write / read-only."""
    for rel, paths in COVERED.items():
        tree = parse_file(REPO / rel)
        mod_names, mod_funcs = _module_state(tree)
        cls_state = _class_state(tree)
        for path in paths:
            fn = find_function(tree, path, {})
            where = ".".join(path)
            _check_stateless(fn, where, mod_names, mod_funcs, cls_state, set())
            if path[-1] in OPEN_MODE:
                call = _one(_open_calls(fn, mod_funcs), f"h5py.File call in {where}")
                mode = call.args[1] if len(call.args) >= 2 else next((k.value for k in call.keywords if k.arg == "mode"), None)
                if _const_str(mode) != OPEN_MODE[path[-1]]:
                    raise TranslateError(f"{where}: the file is opened with mode "
                                         f"{ast.unparse(mode) if mode is not None else '<default>'}, expected "
                                         f"{OPEN_MODE[path[-1]]!r} (the model's file is exactly what the last call wrote)")


# ---------------------------------------------------------------------------------------------
# generator
# ---------------------------------------------------------------------------------------------
def facts() -> dict:
    state_guards()
    em = parse_file(REPO / "droplets/emulsions.py")
    tr = parse_file(REPO / "droplets/droplet_tracks.py")
    f: dict = {}
    w = _writer_facts(find_function(em, ["Emulsion", "_write_hdf_dataset"], {}), "Emulsion._write_hdf_dataset")
    r = _reader_facts(find_function(em, ["Emulsion", "_from_hdf_dataset"], {}), "Emulsion._from_hdf_dataset")
    f.update(em_key=w["key"], em_attr_w=w["attr_w"], em_none_w=w["none_w"], em_sel=w["sel"],
             em_attr_r=r["attr_r"], em_none_r=r["none_r"])
    w = _writer_facts(find_function(tr, ["DropletTrack", "_write_hdf_dataset"], {}), "DropletTrack._write_hdf_dataset")
    r = _reader_facts(find_function(tr, ["DropletTrack", "_from_hdf_dataset"], {}), "DropletTrack._from_hdf_dataset")
    f.update(tr_key=w["key"], tr_attr_w=w["attr_w"], tr_none_w=w["none_w"], tr_sel=w["sel"],
             tr_attr_r=r["attr_r"], tr_none_r=r["none_r"])
    d = _track_data(find_function(tr, ["DropletTrack", "data"], {}), "DropletTrack.data")
    rd = _track_reader(find_function(tr, ["DropletTrack", "_from_hdf_dataset"], {}), "DropletTrack._from_hdf_dataset")
    f.update(tr_time_w=d["time_w"], tr_time_first=d["time_first"], tr_time_r=rd["time_r"], tr_time_drop=rd["time_drop"])
    f.update(tr_layout_guard=_track_guards(find_function(tr, ["DropletTrack", "data"], {}), "DropletTrack.data")["layout_guard"])

    # EmulsionTimeCourse
    fn = find_function(em, ["EmulsionTimeCourse", "to_file"], {})
    k = _key_format(fn, "EmulsionTimeCourse.to_file")
    if ast.unparse(k["loop"].iter.args[0]) != "self.items()":
        raise TranslateError("EmulsionTimeCourse.to_file does not enumerate self.items()")
    tgt = k["loop"].target.elts[1]
    if not (isinstance(tgt, ast.Tuple) and len(tgt.elts) == 2 and all(isinstance(e, ast.Name) for e in tgt.elts)):
        raise TranslateError("EmulsionTimeCourse.to_file: unexpected loop target")
    tvar, evar = tgt.elts[0].id, tgt.elts[1].id
    if ast.unparse(k["call"].func.value) != evar:
        raise TranslateError("EmulsionTimeCourse.to_file: _write_hdf_dataset is not called on the emulsion")
    tas = [(n, _is_attrs_subscript(n.targets[0])) for s in k["loop"].body for n in ast.walk(s)
           if isinstance(n, ast.Assign) and len(n.targets) == 1 and _is_attrs_subscript(n.targets[0]) is not None]
    ta, tname = _one(tas, "attribute assignment in the loop of EmulsionTimeCourse.to_file")
    if not (isinstance(ta.value, ast.Name) and ta.value.id == tvar):
        raise TranslateError("EmulsionTimeCourse.to_file: the time attribute is not the time of the frame")
    f.update(etc_prefix=k["prefix"], etc_width=k["width"], etc_time_w=tname)
    fn = find_function(em, ["EmulsionTimeCourse", "from_file"], {})
    s = _sorted_iteration(fn, "EmulsionTimeCourse.from_file")
    apps = [n for st in s["loop"].body for n in ast.walk(st) if isinstance(n, ast.Call)
            and isinstance(n.func, ast.Attribute) and n.func.attr == "append"]
    ap = _one(apps, "append call in the loop of EmulsionTimeCourse.from_file")
    kws = {kw.arg: kw.value for kw in ap.keywords}
    if not (len(ap.args) == 1 and ast.unparse(ap.args[0]) == "Emulsion._from_hdf_dataset(dataset)"
            and set(kws) == {"time"} and _is_attrs_subscript(kws["time"]) is not None):
        raise TranslateError(f"EmulsionTimeCourse.from_file: unexpected append call `{ast.unparse(ap)}`")
    f.update(etc_sorted=s["sorted"], etc_time_r=_is_attrs_subscript(kws["time"]))

    # DropletTrackList
    fn = find_function(tr, ["DropletTrackList", "to_file"], {})
    k = _key_format(fn, "DropletTrackList.to_file")
    if ast.unparse(k["loop"].iter.args[0]) != "self":
        raise TranslateError("DropletTrackList.to_file does not enumerate self")
    if not (isinstance(k["loop"].target.elts[1], ast.Name)
            and ast.unparse(k["call"].func.value) == k["loop"].target.elts[1].id):
        raise TranslateError("DropletTrackList.to_file: _write_hdf_dataset is not called on the track")
    f.update(tl_prefix=k["prefix"], tl_width=k["width"])
    fn = find_function(tr, ["DropletTrackList", "from_file"], {})
    s = _sorted_iteration(fn, "DropletTrackList.from_file")
    apps = [n for st in s["loop"].body for n in ast.walk(st) if isinstance(n, ast.Call)
            and isinstance(n.func, ast.Attribute) and n.func.attr == "append"]
    ap = _one(apps, "append call in the loop of DropletTrackList.from_file")
    if not (len(ap.args) == 1 and not ap.keywords
            and ast.unparse(ap.args[0]) == "DropletTrack._from_hdf_dataset(dataset)"):
        raise TranslateError(f"DropletTrackList.from_file: unexpected append call `{ast.unparse(ap)}`")
    f.update(tl_sorted=s["sorted"])
    return f


STRING_FACTS = ["em_key", "em_attr_w", "em_attr_r", "em_none_w", "em_none_r", "tr_key", "tr_attr_w", "tr_attr_r",
                "tr_none_w", "tr_none_r", "tr_time_w", "tr_time_r", "tr_time_drop", "etc_prefix", "etc_time_w",
                "etc_time_r", "tl_prefix"]
BOOL_FACTS = ["tr_time_first", "etc_sorted", "tl_sorted"]
Z_FACTS = ["etc_width", "tl_width"]
SEL_FACTS = ["em_sel", "tr_sel"]


def render(f: dict) -> str:
    out = ["(* GENERATED by harness/gen_codec.py from the current source tree -- do not edit. *)",
           "From Coq Require Import ZArith String.",
           "From PD Require Import Model.Codec.",
           "Local Open Scope string_scope.", ""]
    for k in STRING_FACTS:
        out.append(f"Definition g_{k} : string := {_coq_string(f[k])}.")
    for k in Z_FACTS:
        out.append(f"Definition g_{k} : Z := {int(f[k])}%Z.")
    for k in BOOL_FACTS:
        out.append(f"Definition g_{k} : bool := {'true' if f[k] else 'false'}.")
    for k in SEL_FACTS:
        if f[k] not in ("First", "Last"):
            raise TranslateError(f"{k}: {f[k]!r}")
        out.append(f"Definition g_{k} : member_sel := {f[k]}.")
    g = f["tr_layout_guard"]
    if g not in (None, "EType", "EValue", "EOther"):
        raise TranslateError(f"tr_layout_guard: {g!r}")
    out.append("Definition g_tr_layout_guard : option err := " + ("None" if g is None else f"Some {g}") + ".")
    return "\n".join(out) + "\n"


def gen_codec() -> str:
    return render(facts())


# The facts of the tree the model was written against.  Used by harness/props/C08.py only as the
# fallback of DESIGN.md 2.2 (translator rejects the source, or a proof over the fresh text fails): the
# theorems are then about these facts and the tie to /repo is the correspondence run alone.
GOLDEN_FACTS = {
    "em_key": "emulsion", "em_attr_w": "droplet_class", "em_attr_r": "droplet_class",
    "em_none_w": "None", "em_none_r": "None", "em_sel": "First",
    "tr_key": "droplet_track", "tr_attr_w": "droplet_class", "tr_attr_r": "droplet_class",
    "tr_none_w": "None", "tr_none_r": "None", "tr_sel": "First",
    "tr_time_w": "time", "tr_time_r": "time", "tr_time_drop": "time", "tr_time_first": True,
    "tr_layout_guard": "EType",
    "etc_prefix": "time_", "etc_width": 6, "etc_time_w": "time", "etc_time_r": "time", "etc_sorted": True,
    "tl_prefix": "track_", "tl_width": 6, "tl_sorted": True,
}


def golden() -> str:
    return render(GOLDEN_FACTS).replace("from the current source tree", "from GOLDEN_FACTS (fallback)")


GENERATORS = {"Gen_codec": gen_codec}
