"""mkseedtable.py: regenerate the tables of DESIGN.md section 13 (between the SEEDTABLE markers) from seeded/*/meta.json and
seeded/harmless/*/result*.txt."""
import json, re, glob, os

ROOT = "/verif"


def res_text(checks):
    out = []
    for c in checks or []:
        if c["exit"] == 0 and c["violation_lines"] == 0:
            out.append(f"{c['check']}: silent")
        elif c["violation_lines"] > c["without_failing_input"]:
            out.append(f"{c['check']}: failing input found")
        else:
            out.append(f"{c['check']}: no-failing-input-found")
    return "; ".join(out)


def seeds(suffix):
    rows = []
    for n in range(1, 21):
        d = f"{ROOT}/seeded/C{n:02d}{suffix}"
        if not os.path.exists(d + "/meta.json"):
            continue
        m = json.load(open(d + "/meta.json"))
        summ = (m.get("summary") or "").replace("|", "/").replace("\n", " ")
        if len(summ) > 260:
            summ = summ[:257] + "..."
        r = res_text(m.get("checks"))
        hist = m.get("history") or []
        if hist:
            before = res_text(hist[0].get("checks_before_strengthening"))
            if before and before != r:
                r += f" (before strengthening: {before})"
        for k in ("note_after_F31_fix", "note"):
            if m.get(k):
                r += " -- " + m[k][:200].replace("|", "/")
        if m.get("checks_on_pre_F31_tree"):
            r += "; on the tree it was written for: " + res_text(m["checks_on_pre_F31_tree"])
        rows.append(f"| C{n:02d}{suffix} | {summ} | {r} |")
    return rows


def harmless(sub="harmless"):
    rows = []
    for d in sorted(glob.glob(f"{ROOT}/seeded/{sub}/*_*")):
        name = os.path.basename(d)
        first = final = ""
        if os.path.exists(d + "/result_first_run.txt"):
            first = open(d + "/result_first_run.txt").read().strip().split(":", 1)[-1].strip()
        if os.path.exists(d + "/result.txt"):
            final = open(d + "/result.txt").read().strip().split(":", 1)[-1].strip()
        try:
            am = json.load(open(d + "/agent_meta.json"))
            k = int(name.split("_")[1])
            desc = ""
            if isinstance(am, dict):
                items = am.get("patches") or am.get("refactorings") or am.get("items")
                if isinstance(items, list) and len(items) >= k:
                    it = items[k - 1]
                    desc = it.get("summary") or it.get("description") or "" if isinstance(it, dict) else str(it)
                elif str(k) in am:
                    it = am[str(k)]
                    desc = it.get("summary", "") if isinstance(it, dict) else str(it)
            elif isinstance(am, list) and len(am) >= k:
                it = am[k - 1]
                desc = it.get("summary", "") if isinstance(it, dict) else str(it)
        except Exception:
            desc = ""
        desc = desc.replace("|", "/").replace("\n", " ")[:200]
        fmt = lambda t: re.sub(r"(C\d\d):exit=(\d),viol=(\d+)", lambda m: f"{m.group(1)} {'ok' if m.group(2) == '0' and m.group(3) == '0' else 'ALARM'}", t)
        rows.append(f"| {name} | {desc} | {fmt(first) or '-'} | {fmt(final)} |")
    return rows


def main():
    p = ROOT + "/DESIGN.md"
    s = open(p).read()
    blocks = {
        "ROUND1": ["| property | change | result of `./check` (quick tier) |", "|---|---|---|"] + seeds(""),
        "ROUND2": ["| seed | change | result of `./check` (quick tier) |", "|---|---|---|"] + seeds("-2"),
        "ROUND3": ["| seed | change | result of `./check` (quick tier) |", "|---|---|---|"] + seeds("-3"),
        "ROUND4": ["| seed | change | result of `./check` (quick tier) |", "|---|---|---|"] + seeds("-4"),
        "ROUND5": ["| seed | change | result of `./check` (quick tier) |", "|---|---|---|"] + seeds("-5"),
        "ROUND6": ["| seed | change | result of `./check` (quick tier) |", "|---|---|---|"] + seeds("-6"),
        "HARMLESS2": ["| patch | what it rewrites | first run | final |", "|---|---|---|---|"] + harmless("harmless2"),
        "HARMLESS": ["| patch | what it rewrites | first run | after the corrections of Appendix A.9 |", "|---|---|---|---|"] + harmless(),
    }
    for k, rows in blocks.items():
        a, b = f"<!-- SEEDTABLE {k} -->", f"<!-- /SEEDTABLE {k} -->"
        if a not in s:
            print("marker missing:", k)
            continue
        i, j = s.index(a) + len(a), s.index(b)
        s = s[:i] + "\n" + "\n".join(rows) + "\n" + s[j:]
    open(p, "w").write(s)


main()
