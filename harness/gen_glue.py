"""Generator of coq/Gen/Gen_glue.v (properties C14, C15) -- fail closed.

Reads, with Python's `ast`, the CURRENT text of

  droplets/trackers.py        DropletTracker.__init__/handle/finalize, LengthScaleTracker.__init__/handle
  droplets/emulsions.py       EmulsionTimeCourse.from_storage
  droplets/image_analysis.py  signatures of locate_droplets/get_length_scale, refine_droplets

and emits the *glue facts* the models Model/Online.v and Model/Parallel.v are instantiated with:
which keyword of `locate_droplets` receives which tracker attribute, which attribute receives which
constructor parameter (and the defaults), what `from_storage` forwards, how the time is appended, how
the length-scale handler guards the analysis, how the parallel branches gather their results
(`executor.map` = by submission index), what they iterate over, how the worker count is chosen and
when the serial branch is taken.

Local variables are inlined symbolically before shapes are compared, so renaming locals, reordering
keyword arguments, passing a keyword positionally or writing a call inline does not change the
output.  Every statement that is not recognised raises TranslateError (fail closed).
"""
from __future__ import annotations

import ast
import os
from pathlib import Path

from translate import TranslateError, parse_file

REPO = Path(os.environ.get("VERIF_REPO", "/repo"))


# ---------------------------------------------------------------------------------------
# small helpers
# ---------------------------------------------------------------------------------------
def cstr(s: str) -> str:
    if any(ord(ch) < 32 or ord(ch) > 126 for ch in s):
        raise TranslateError(f"non-printable text in glue fact {s!r}")
    return '"' + s.replace('"', '""') + '"'


def clist(items) -> str:
    return "[" + "; ".join(items) + "]"


def carg(a) -> str:
    kind, s = a
    return f"({kind} {cstr(s)})"


def ctable(tbl) -> str:
    return clist(f"({cstr(k)}, {carg(a)})" for k, a in tbl)


def cpairs(tbl) -> str:
    return clist(f"({cstr(k)}, {cstr(v)})" for k, v in tbl)


def find_class(mod: ast.Module, name: str) -> ast.ClassDef:
    for s in mod.body:
        if isinstance(s, ast.ClassDef) and s.name == name:
            return s
    raise TranslateError(f"class {name} not found")


def find_def(body, name: str) -> ast.FunctionDef:
    hits = [s for s in body if isinstance(s, ast.FunctionDef) and s.name == name]
    if len(hits) != 1:
        raise TranslateError(f"function {name}: found {len(hits)} definitions")
    return hits[0]


def signature(fn: ast.FunctionDef, drop_first: int = 0):
    """[(name, source of default or None)] for positional and keyword-only parameters; name of **kwargs."""
    a = fn.args
    if a.vararg is not None:
        raise TranslateError(f"{fn.name}: *args in signature")
    pos = list(a.posonlyargs) + list(a.args)
    defaults = [None] * (len(pos) - len(a.defaults)) + list(a.defaults)
    out = [(p.arg, None if d is None else ast.unparse(d)) for p, d in zip(pos, defaults)]
    npos = len(out)
    for p, d in zip(a.kwonlyargs, a.kw_defaults):
        out.append((p.arg, None if d is None else ast.unparse(d)))
    return out[drop_first:], max(0, npos - drop_first), (a.kwarg.arg if a.kwarg else None)


def is_docstring(s) -> bool:
    return isinstance(s, ast.Expr) and isinstance(s.value, ast.Constant) and isinstance(s.value.value, str)


LOG_METHODS = {"debug", "info", "warning", "warn", "error", "exception", "critical", "log"}
LOG_BASES = {"self._logger", "_logger", "logger", "logging", "self.logger", "cls._logger"}
PURE_CALLS = {"len", "str", "repr", "float", "int", "type", "round", "sorted", "list", "tuple", "bool", "abs"}


def is_logging_stmt(s) -> bool:
    """`<logger>.<level>(...)` whose arguments have no side effects (only reads and a few pure builtins)."""
    if not (isinstance(s, ast.Expr) and isinstance(s.value, ast.Call) and isinstance(s.value.func, ast.Attribute)
            and s.value.func.attr in LOG_METHODS and ast.unparse(s.value.func.value) in LOG_BASES):
        return False
    for a in list(s.value.args) + [k.value for k in s.value.keywords]:
        for n in ast.walk(a):
            if isinstance(n, ast.Call):
                f = ast.unparse(n.func)
                if f not in PURE_CALLS and not (isinstance(n.func, ast.Attribute) and n.func.attr in ("join", "format")):
                    return False
            if isinstance(n, (ast.NamedExpr, ast.Await, ast.Yield, ast.YieldFrom)):
                return False
    return True


def strip_noise(stmts):
    """Statements without docstrings, imports, `pass` and side-effect-free logging calls."""
    return [s for s in stmts if not is_docstring(s) and not isinstance(s, (ast.Import, ast.ImportFrom, ast.Pass))
            and not is_logging_stmt(s)]


def statements(fn: ast.FunctionDef):
    """Body without docstring, imports and logging."""
    return strip_noise(fn.body)


def none_test(test: ast.AST, names):
    """`<name> is None` -> (name, True); `<name> is not None` / `not (<name> is None)` -> (name, False); else None."""
    neg = False
    while isinstance(test, ast.UnaryOp) and isinstance(test.op, ast.Not):
        test, neg = test.operand, not neg
    if (isinstance(test, ast.Compare) and len(test.ops) == 1 and isinstance(test.left, ast.Name)
            and test.left.id in names and isinstance(test.comparators[0], ast.Constant)
            and test.comparators[0].value is None and isinstance(test.ops[0], (ast.Is, ast.IsNot))):
        is_none = isinstance(test.ops[0], ast.Is)
        return test.left.id, (is_none != neg)
    return None


def append_call(s, result: str):
    """`<result>.append(<e>)` -> e, else None."""
    if (isinstance(s, ast.Expr) and isinstance(s.value, ast.Call) and ast.unparse(s.value.func) == f"{result}.append"
            and len(s.value.args) == 1 and not s.value.keywords):
        return s.value.args[0]
    return None


def for_to_comprehension(loop: ast.For, result: str, what: str) -> ast.Assign:
    """`for t in it: <result>.append(e)` and the filtered forms
         for t in it: [v = call;] if v is not None: <result>.append(v)
         for t in it: [v = call;] if v is None: continue;  <result>.append(v)
    (with <result> == [] before the loop) as the equivalent `<result> = [comprehension]`."""
    if loop.orelse or not isinstance(loop.target, ast.Name):
        raise TranslateError(f"{what}: unsupported for-loop")
    body = strip_noise(loop.body)
    tgt = loop.target
    var, call = tgt.id, None
    if body and isinstance(body[0], ast.Assign) and len(body[0].targets) == 1 and isinstance(body[0].targets[0], ast.Name) \
            and len(body) > 1:
        var, call = body[0].targets[0].id, body[0].value
        if var == tgt.id:
            raise TranslateError(f"{what}: loop variable reassigned")
        body = body[1:]
    elt = ast.Name(id=var, ctx=ast.Load())
    filtered = None
    if len(body) == 1 and append_call(body[0], result) is not None:
        e = append_call(body[0], result)
        if call is None:
            return ast.Assign(targets=[ast.Name(id=result, ctx=ast.Store())],
                              value=ast.ListComp(elt=e, generators=[ast.comprehension(target=tgt, iter=loop.iter, ifs=[], is_async=0)]))
        if not (isinstance(e, ast.Name) and e.id == var):
            raise TranslateError(f"{what}: unsupported loop body")
        return ast.Assign(targets=[ast.Name(id=result, ctx=ast.Store())],
                          value=ast.ListComp(elt=call, generators=[ast.comprehension(target=tgt, iter=loop.iter, ifs=[], is_async=0)]))
    if len(body) == 1 and isinstance(body[0], ast.If) and not body[0].orelse:
        nt = none_test(body[0].test, [var])
        inner = strip_noise(body[0].body)
        if nt == (var, False) and len(inner) == 1 and _same_name(append_call(inner[0], result), var):
            filtered = True
    if len(body) == 2 and isinstance(body[0], ast.If) and not body[0].orelse:
        nt = none_test(body[0].test, [var])
        inner = strip_noise(body[0].body)
        if nt == (var, True) and len(inner) == 1 and isinstance(inner[0], ast.Continue) \
                and _same_name(append_call(body[1], result), var):
            filtered = True
    if not filtered:
        raise TranslateError(f"{what}: unsupported loop body {ast.unparse(loop)[:80]}")
    left = elt if call is None else ast.NamedExpr(target=ast.Name(id=var, ctx=ast.Store()), value=call)
    test = ast.Compare(left=left, ops=[ast.IsNot()], comparators=[ast.Constant(value=None)])
    return ast.Assign(targets=[ast.Name(id=result, ctx=ast.Store())],
                      value=ast.ListComp(elt=elt, generators=[ast.comprehension(target=tgt, iter=loop.iter, ifs=[test], is_async=0)]))


def _same_name(e, name) -> bool:
    return isinstance(e, ast.Name) and e.id == name


def is_empty_list_init(s, name=None):
    """`<name> = []` / `<name>: T = []` / `= list()` -> name."""
    if isinstance(s, ast.AnnAssign) and s.value is not None:
        t, v = s.target, s.value
    elif isinstance(s, ast.Assign) and len(s.targets) == 1:
        t, v = s.targets[0], s.value
    else:
        return None
    if not isinstance(t, ast.Name) or (name is not None and t.id != name):
        return None
    if (isinstance(v, ast.List) and not v.elts) or (call_name(v) == "list" and not v.args and not v.keywords):
        return t.id
    return None


def loops_to_comprehensions(stmts, result: str, initialised: bool, what: str):
    """Rewrite `[<result> = []]; for ...: <result>.append(...)` inside a branch as an assignment of a comprehension."""
    out = []
    init = initialised
    for s in strip_noise(stmts):
        if is_empty_list_init(s, result):
            if init:
                raise TranslateError(f"{what}: result list initialised twice")
            init = True
            continue
        if isinstance(s, ast.For) and init and any(ast.unparse(n.func) == f"{result}.append"
                                                     for n in ast.walk(s) if isinstance(n, ast.Call)):
            out.append(for_to_comprehension(s, result, what))
            init = False  # a second loop would extend a non-empty list: not a plain comprehension
            continue
        out.append(s)
    return out


class Inliner(ast.NodeTransformer):
    def __init__(self, env):
        self.env = env

    def visit_Name(self, n):
        if isinstance(n.ctx, ast.Load) and n.id in self.env:
            return self.env[n.id]
        return n


def inline(node: ast.AST, env: dict) -> ast.AST:
    import copy
    return Inliner(env).visit(copy.deepcopy(node))


def self_attr(n: ast.AST):
    """`self.<name>` -> name, else None."""
    if isinstance(n, ast.Attribute) and isinstance(n.value, ast.Name) and n.value.id == "self":
        return n.attr
    return None


def is_literal(n: ast.AST) -> bool:
    try:
        ast.literal_eval(n)
        return True
    except Exception:
        return False


def call_name(n: ast.AST):
    return ast.unparse(n.func) if isinstance(n, ast.Call) else None


def bind_call(call: ast.Call, sig, npos: int, kwarg, what: str, skip_first: int = 0):
    """Map the arguments of `call` to parameter names of the callee: returns ({param: ast}, has_starstar)."""
    names = [p for p, _ in sig]
    bound: dict[str, ast.AST] = {}
    args = call.args[skip_first:]
    if any(isinstance(a, ast.Starred) for a in args):
        raise TranslateError(f"{what}: *args in call")
    if len(args) > npos:
        raise TranslateError(f"{what}: too many positional arguments")
    for p, a in zip(names, args):
        bound[p] = a
    star = None
    for kw in call.keywords:
        if kw.arg is None:
            if star is not None:
                raise TranslateError(f"{what}: two ** arguments")
            star = kw.value
            continue
        if kw.arg in bound:
            raise TranslateError(f"{what}: argument {kw.arg} given twice")
        if kw.arg not in names and kwarg is None:
            raise TranslateError(f"{what}: unknown keyword {kw.arg}")
        bound[kw.arg] = kw.value
    return bound, star


# ---------------------------------------------------------------------------------------
# trackers.py
# ---------------------------------------------------------------------------------------
def ctor_facts(cls: ast.ClassDef, what: str):
    """self.<attr> = <parameter | literal> assignments of __init__, its parameters/defaults, what it
    hands to super().__init__, and the `data` initialisation from an optional parameter."""
    fn = find_def(cls.body, "__init__")
    sig, _, kwarg = signature(fn, drop_first=1)
    if kwarg:
        raise TranslateError(f"{what}.__init__: **kwargs in signature")
    params = [p for p, _ in sig]
    assign: list[tuple[str, tuple[str, str]]] = []
    super_fw: list[tuple[str, tuple[str, str]]] = []
    data_param = None

    def value_of(v):
        if isinstance(v, ast.Name) and v.id in params:
            return ("FromName", v.id)
        if is_literal(v):
            return ("Literal", ast.unparse(v))
        raise TranslateError(f"{what}.__init__: unsupported right-hand side {ast.unparse(v)}")

    for s in statements(fn):
        if isinstance(s, ast.AnnAssign) and s.value is not None:
            s = ast.Assign(targets=[s.target], value=s.value)
        if isinstance(s, ast.Expr) and call_name(s.value) == "super().__init__":
            if s.value.args or super_fw:
                raise TranslateError(f"{what}.__init__: unexpected super().__init__ call")
            for kw in s.value.keywords:
                if kw.arg is None:
                    raise TranslateError(f"{what}.__init__: ** in super().__init__")
                super_fw.append((kw.arg, value_of(kw.value)))
            continue
        if isinstance(s, ast.Assign) and len(s.targets) == 1 and self_attr(s.targets[0]) == "data":
            # self.data = EmulsionTimeCourse() if <p> is None else <p>     (or with the test negated)
            v = s.value
            nt = none_test(v.test, params) if isinstance(v, ast.IfExp) else None
            if nt is None or data_param is not None:
                raise TranslateError(f"{what}.__init__: unsupported initialisation of self.data")
            new, given = (v.body, v.orelse) if nt[1] else (v.orelse, v.body)
            if not (ast.unparse(new) == "EmulsionTimeCourse()" and _same_name(given, nt[0])):
                raise TranslateError(f"{what}.__init__: unsupported initialisation of self.data")
            data_param = nt[0]
            continue
        if isinstance(s, ast.Assign) and len(s.targets) == 1 and self_attr(s.targets[0]):
            a = self_attr(s.targets[0])
            if a in [k for k, _ in assign]:
                raise TranslateError(f"{what}.__init__: attribute {a} assigned twice")
            assign.append((a, value_of(s.value)))
            continue
        if isinstance(s, ast.If):
            # if <p> is None: self.data = EmulsionTimeCourse()  else: self.data = <p>   (or with the test negated)
            nt = none_test(s.test, params)
            body, orelse = strip_noise(s.body), strip_noise(s.orelse)
            ok = (nt is not None and len(body) == 1 and len(orelse) == 1
                  and all(isinstance(b, (ast.Assign, ast.AnnAssign)) for b in (body[0], orelse[0])))
            if ok:
                tgt = lambda b: b.targets[0] if isinstance(b, ast.Assign) and len(b.targets) == 1 else getattr(b, "target", None)  # noqa
                new, given = (body[0], orelse[0]) if nt[1] else (orelse[0], body[0])
                ok = (self_attr(tgt(new)) == "data" and self_attr(tgt(given)) == "data" and new.value is not None
                      and ast.unparse(new.value) == "EmulsionTimeCourse()" and _same_name(given.value, nt[0]))
            if not ok or data_param is not None:
                raise TranslateError(f"{what}.__init__: unsupported if-statement {ast.unparse(s.test)}")
            data_param = nt[0]
            continue
        raise TranslateError(f"{what}.__init__: unsupported statement {ast.unparse(s)[:80]}")
    defaults = [(p, d) for p, d in sig if d is not None]
    return params, defaults, assign, super_fw, data_param


def forward_table(bound: dict, star, attrs: list[str] | None, params: list[str] | None, kwargs_name, what: str):
    """keyword -> where its value comes from (`self.<attr>`, a parameter/local name, or a literal)."""
    tbl = []
    for k, v in bound.items():
        a = self_attr(v)
        if attrs is not None and a is not None:
            if a not in attrs:
                raise TranslateError(f"{what}: reads self.{a}, which the constructor does not assign")
            tbl.append((k, ("FromName", a)))
        elif params is not None and isinstance(v, ast.Name) and v.id in params:
            tbl.append((k, ("FromName", v.id)))
        elif is_literal(v):
            tbl.append((k, ("Literal", ast.unparse(v))))
        else:
            raise TranslateError(f"{what}: unsupported value for {k}: {ast.unparse(v)}")
    has_star = False
    if star is not None:
        if not (isinstance(star, ast.Name) and star.id == kwargs_name):
            raise TranslateError(f"{what}: unsupported ** argument {ast.unparse(star)}")
        has_star = True
    return tbl, has_star


def extract_call_source(call: ast.AST, field_param: str, attrs: list[str], what: str) -> str:
    """`extract_field(<field>, self.<A>, 0)` -> A."""
    if call_name(call) != "extract_field":
        raise TranslateError(f"{what}: the analysed field is not obtained by extract_field(...)")
    sig = [("fields", None), ("source", "None"), ("check_rank", "None")]
    bound, star = bind_call(call, sig, 3, None, what + ": extract_field")
    if star is not None or set(bound) != {"fields", "source", "check_rank"}:
        raise TranslateError(f"{what}: unexpected arguments of extract_field")
    if not (isinstance(bound["fields"], ast.Name) and bound["fields"].id == field_param):
        raise TranslateError(f"{what}: extract_field is not applied to the handler's field argument")
    if not (isinstance(bound["check_rank"], ast.Constant) and bound["check_rank"].value == 0
            and not isinstance(bound["check_rank"].value, bool)):
        raise TranslateError(f"{what}: extract_field does not check for rank 0")
    a = self_attr(bound["source"])
    if a is None or a not in attrs:
        raise TranslateError(f"{what}: extract_field source is not a constructor-assigned attribute")
    return a


def handler_params(fn: ast.FunctionDef, what: str):
    sig, _, kwarg = signature(fn, drop_first=1)
    if len(sig) != 2 or kwarg:
        raise TranslateError(f"{what}: handler signature is not (self, field, t)")
    return sig[0][0], sig[1][0]


def droplet_tracker_facts(tr: ast.Module, locate_sig):
    cls = find_class(tr, "DropletTracker")
    params, defaults, assign, super_fw, data_param = ctor_facts(cls, "DropletTracker")
    attrs = [a for a, _ in assign]
    if data_param is None:
        raise TranslateError("DropletTracker.__init__: self.data is not initialised from an optional parameter")
    # ---- handle
    fn = find_def(cls.body, "handle")
    fparam, tparam = handler_params(fn, "DropletTracker.handle")
    env: dict[str, ast.AST] = {}
    final = None
    for s in statements(fn):
        if final is not None:
            raise TranslateError("DropletTracker.handle: statement after self.data.append(...)")
        if isinstance(s, ast.Assign) and len(s.targets) == 1 and isinstance(s.targets[0], ast.Name):
            if s.targets[0].id in (fparam, tparam):
                raise TranslateError("DropletTracker.handle: handler argument reassigned")
            env[s.targets[0].id] = inline(s.value, env)
            continue
        if isinstance(s, ast.Expr) and call_name(s.value) == "self.data.append":
            final = inline(s.value, env)
            continue
        raise TranslateError(f"DropletTracker.handle: unsupported statement {ast.unparse(s)[:80]}")
    if final is None:
        raise TranslateError("DropletTracker.handle: no self.data.append(...)")
    app_sig = [("emulsion", None), ("time", "None"), ("copy", "True")]
    bound, star = bind_call(final, app_sig, 3, None, "DropletTracker.handle: append")
    if star is not None or "emulsion" not in bound:
        raise TranslateError("DropletTracker.handle: unexpected arguments of append")
    if "copy" in bound and not (isinstance(bound["copy"], ast.Constant) and bound["copy"].value is True):
        raise TranslateError("DropletTracker.handle: append(copy=...) is not the default")
    if "time" in bound:
        if not (isinstance(bound["time"], ast.Name) and bound["time"].id == tparam):
            raise TranslateError("DropletTracker.handle: append receives a time that is not the handler's t")
        explicit_time = True
    else:
        explicit_time = False
    loc = bound["emulsion"]
    if call_name(loc) != "locate_droplets":
        raise TranslateError("DropletTracker.handle: appended object is not the result of locate_droplets(...)")
    lsig, lnpos, lkw = locate_sig
    lb, lstar = bind_call(loc, lsig, lnpos, lkw, "DropletTracker.handle: locate_droplets")
    first = lsig[0][0]
    if first not in lb:
        raise TranslateError("DropletTracker.handle: locate_droplets called without a field")
    source_attr = extract_call_source(lb.pop(first), fparam, attrs, "DropletTracker.handle")
    fw, has_star = forward_table(lb, lstar, attrs, None, None, "DropletTracker.handle")
    if has_star:
        raise TranslateError("DropletTracker.handle: ** argument")
    # ---- finalize: super().finalize(info); if self.filename: self.data.to_file(self.filename)
    fin = find_def(cls.body, "finalize")
    st = statements(fin)
    if (len(st) == 3 and isinstance(st[1], ast.If) and not st[1].orelse and isinstance(st[1].test, ast.UnaryOp)
            and isinstance(st[1].test.op, ast.Not) and len(strip_noise(st[1].body)) == 1
            and isinstance(strip_noise(st[1].body)[0], ast.Return) and strip_noise(st[1].body)[0].value is None):
        # if not self.<a>: return;  <write>   ==   if self.<a>: <write>
        st = [st[0], ast.If(test=st[1].test.operand, body=[st[2]], orelse=[])]
    if len(st) == 2 and isinstance(st[1], ast.If):
        st[1] = ast.If(test=st[1].test, body=strip_noise(st[1].body), orelse=strip_noise(st[1].orelse))
    ok = (len(st) == 2 and isinstance(st[0], ast.Expr) and call_name(st[0].value) == "super().finalize"
          and isinstance(st[1], ast.If) and self_attr(st[1].test) is not None and not st[1].orelse
          and len(st[1].body) == 1 and isinstance(st[1].body[0], ast.Expr)
          and call_name(st[1].body[0].value) == "self.data.to_file"
          and len(st[1].body[0].value.args) == 1 and not st[1].body[0].value.keywords
          and self_attr(st[1].body[0].value.args[0]) == self_attr(st[1].test))
    if not ok or self_attr(st[1].test) not in attrs:
        raise TranslateError("DropletTracker.finalize: unexpected shape")
    return dict(params=params, defaults=defaults, assign=assign, super_fw=super_fw, data_param=data_param,
                source_attr=source_attr, forward=fw, explicit_time=explicit_time,
                finalize_attr=self_attr(st[1].test))


def length_tracker_facts(tr: ast.Module, gls_sig):
    cls = find_class(tr, "LengthScaleTracker")
    params, defaults, assign, super_fw, data_param = ctor_facts(cls, "LengthScaleTracker")
    if data_param is not None:
        raise TranslateError("LengthScaleTracker.__init__: unexpected if-statement")
    attrs = [a for a, _ in assign]
    fn = find_def(cls.body, "handle")
    fparam, tparam = handler_params(fn, "LengthScaleTracker.handle")
    env: dict[str, ast.AST] = {}
    pre: list[str] = []
    post: list[str] = []
    the_try = None
    length_var = None

    def append_stmt(s, allow_length: bool):
        """self.<L>.append(<x>) -> L, provided x is the time (for `times`) or the measured length."""
        c = s.value
        if not (isinstance(c, ast.Call) and isinstance(c.func, ast.Attribute) and c.func.attr == "append"
                and self_attr(c.func.value) and len(c.args) == 1 and not c.keywords):
            return None
        lst = self_attr(c.func.value)
        x = c.args[0]
        if lst == "times" and isinstance(x, ast.Name) and x.id == tparam:
            return lst
        if lst == "length_scales" and allow_length and isinstance(x, ast.Name) and x.id == length_var:
            return lst
        raise TranslateError(f"LengthScaleTracker.handle: unsupported append {ast.unparse(s)}")

    for s in statements(fn):
        if isinstance(s, ast.Assign) and len(s.targets) == 1 and isinstance(s.targets[0], ast.Name) \
                and the_try is None:
            if s.targets[0].id in (fparam, tparam):
                raise TranslateError("LengthScaleTracker.handle: handler argument reassigned")
            env[s.targets[0].id] = inline(s.value, env)
            continue
        if isinstance(s, ast.Try):
            if the_try is not None:
                raise TranslateError("LengthScaleTracker.handle: two try statements")
            the_try = s
            if not (len(s.body) == 1 and isinstance(s.body[0], ast.Assign) and len(s.body[0].targets) == 1
                    and isinstance(s.body[0].targets[0], ast.Name)):
                raise TranslateError("LengthScaleTracker.handle: try body is not a single assignment")
            length_var = s.body[0].targets[0].id
            continue
        if isinstance(s, ast.Expr):
            lst = append_stmt(s, allow_length=the_try is not None)
            if lst is not None:
                (pre if the_try is None else post).append(lst)
                continue
        raise TranslateError(f"LengthScaleTracker.handle: unsupported statement {ast.unparse(s)[:80]}")
    if the_try is None:
        raise TranslateError("LengthScaleTracker.handle: the analysis is not guarded by try/except")
    if strip_noise(the_try.orelse) or strip_noise(the_try.finalbody) or len(the_try.handlers) != 1:
        raise TranslateError("LengthScaleTracker.handle: unexpected try/except shape")
    h = the_try.handlers[0]
    catches = "BaseException" if h.type is None else ast.unparse(h.type)
    fallback = None
    exits = False
    for s in strip_noise(h.body):
        if exits:
            raise TranslateError("LengthScaleTracker.handle: statement after return in handler")
        if isinstance(s, ast.If) and not strip_noise(s.orelse) and not strip_noise(s.body) \
                and not any(isinstance(n, (ast.Call, ast.NamedExpr)) for n in ast.walk(s.test)):
            continue  # logging only
        if isinstance(s, ast.Assign) and len(s.targets) == 1 and isinstance(s.targets[0], ast.Name) \
                and s.targets[0].id == length_var and fallback is None:
            fallback = ast.unparse(s.value)
            continue
        if isinstance(s, ast.Return) and s.value is None:
            exits = True
            continue
        raise TranslateError(f"LengthScaleTracker.handle: unsupported statement in handler {ast.unparse(s)[:80]}")
    if fallback is None and not exits:
        raise TranslateError("LengthScaleTracker.handle: handler neither sets the length nor returns")
    call = inline(the_try.body[0].value, env)
    if call_name(call) != "get_length_scale":
        raise TranslateError("LengthScaleTracker.handle: guarded call is not get_length_scale(...)")
    gsig, gnpos, gkw = gls_sig
    gb, gstar = bind_call(call, gsig, gnpos, gkw, "LengthScaleTracker.handle: get_length_scale")
    first = gsig[0][0]
    if first not in gb:
        raise TranslateError("LengthScaleTracker.handle: get_length_scale called without a field")
    source_attr = extract_call_source(gb.pop(first), fparam, attrs, "LengthScaleTracker.handle")
    fw, has_star = forward_table(gb, gstar, attrs, None, None, "LengthScaleTracker.handle")
    if has_star:
        raise TranslateError("LengthScaleTracker.handle: ** argument")
    return dict(params=params, defaults=defaults, assign=assign, super_fw=super_fw, source_attr=source_attr,
                forward=fw, catches=catches, fallback=fallback or "", exits=exits, pre=pre, post=post)


# ---------------------------------------------------------------------------------------
# parallel branches (from_storage, refine_droplets)
# ---------------------------------------------------------------------------------------
def serial_test(test: ast.AST, params: list[str], what: str):
    """`<param> == <natural literal>` -> (param, literal)."""
    if (isinstance(test, ast.Compare) and len(test.ops) == 1 and isinstance(test.ops[0], ast.Eq)
            and isinstance(test.left, ast.Name) and test.left.id in params
            and isinstance(test.comparators[0], ast.Constant) and type(test.comparators[0].value) is int
            and test.comparators[0].value >= 0):
        return test.left.id, test.comparators[0].value
    raise TranslateError(f"{what}: the serial branch is not selected by `<parameter> == <n>`: {ast.unparse(test)}")


def serial_branches(branch: ast.If, params, what):
    """`if np == n: <serial> else: <parallel>` or `if np != n: <parallel> else: <serial>`
    -> (np parameter, n, serial statements, parallel statements)."""
    test = branch.test
    swap = False
    if isinstance(test, ast.UnaryOp) and isinstance(test.op, ast.Not):
        test, swap = test.operand, True
    if isinstance(test, ast.Compare) and len(test.ops) == 1 and isinstance(test.ops[0], ast.NotEq):
        test = ast.Compare(left=test.left, ops=[ast.Eq()], comparators=test.comparators)
        swap = not swap
    p, n = serial_test(test, params, what)
    if not branch.orelse:
        raise TranslateError(f"{what}: no else-branch")
    return (p, n, branch.orelse, branch.body) if swap else (p, n, branch.body, branch.orelse)


def max_workers_rule(e: ast.AST, np_param: str, what: str) -> str:
    """`None if np == "auto" else np` -> MWAutoElseGiven; `None` -> MWUnlimited; `<n>` -> MWFixed n."""
    if isinstance(e, ast.Constant) and e.value is None:
        return "MWUnlimited"
    if isinstance(e, ast.Constant) and type(e.value) is int and e.value >= 0:
        return f"(MWFixed {e.value})"
    if isinstance(e, ast.Name) and e.id == np_param:
        return "MWGiven"
    if (isinstance(e, ast.IfExp) and isinstance(e.test, ast.Compare) and len(e.test.ops) == 1
            and isinstance(e.test.ops[0], ast.Eq) and isinstance(e.test.left, ast.Name) and e.test.left.id == np_param
            and isinstance(e.test.comparators[0], ast.Constant) and e.test.comparators[0].value == "auto"
            and isinstance(e.body, ast.Constant) and e.body.value is None
            and isinstance(e.orelse, ast.Name) and e.orelse.id == np_param):
        return "MWAutoElseGiven"
    if (isinstance(e, ast.IfExp) and isinstance(e.test, ast.Compare) and len(e.test.ops) == 1
            and isinstance(e.test.ops[0], ast.Eq) and isinstance(e.test.left, ast.Name) and e.test.left.id == np_param
            and isinstance(e.test.comparators[0], ast.Constant) and e.test.comparators[0].value == "auto"
            and isinstance(e.orelse, ast.Name) and e.orelse.id == np_param):
        # min(<cpu count>, len(<tasks>))  /  max(1, min(...))
        def capped(x):
            if call_name(x) != "min" or len(x.args) != 2 or x.keywords:
                return False
            kinds = sorted("len" if call_name(a) == "len" else "cpu" if is_cpu_count(a) else "?" for a in x.args)
            return kinds == ["cpu", "len"]
        b = e.body
        if capped(b):
            return "MWAutoCapped"
        if call_name(b) == "max" and len(b.args) == 2 and not b.keywords and any(
                isinstance(a, ast.Constant) and a.value == 1 for a in b.args) and any(capped(a) for a in b.args):
            return "MWAutoCappedFloor"
    raise TranslateError(f"{what}: unsupported max_workers expression {ast.unparse(e)}")


def is_cpu_count(e: ast.AST) -> bool:
    """os.cpu_count() / os.process_cpu_count() / multiprocessing.cpu_count(), optionally `... or 1`."""
    if isinstance(e, ast.BoolOp) and isinstance(e.op, ast.Or) and len(e.values) == 2 \
            and isinstance(e.values[1], ast.Constant) and e.values[1].value == 1:
        e = e.values[0]
    return call_name(e) in ("os.cpu_count", "os.process_cpu_count", "multiprocessing.cpu_count", "cpu_count") \
        and not e.args and not e.keywords


def iter_root(e: ast.AST, params: list[str], what: str) -> str:
    """The parameter a loop iterates over; `display_progress(x, ...)` (a tqdm wrapper) iterates x in order."""
    if call_name(e) == "display_progress" and len(e.args) >= 1:
        e = e.args[0]
    if isinstance(e, ast.Name) and e.id in params:
        return e.id
    raise TranslateError(f"{what}: iterates over {ast.unparse(e)}, not over an argument")


def describe_call(func: str, pos: list, kws: list, star, slot: ast.AST | None) -> str:
    """Canonical text of a worker call with the per-task argument replaced by `_`."""
    parts = []
    for a in pos:
        parts.append("_" if a is slot else ast.unparse(a))
    parts += sorted(f"{k}={ast.unparse(v)}" for k, v in kws)
    if star is not None:
        parts.append("**" + ast.unparse(star))
    return f"{func}({', '.join(parts)})"


def parallel_block(stmts, env0, np_param, params, what, result=None, initialised=False):
    """[W = functools.partial(f, ...)]; max_workers = <rule>; with ProcessPoolExecutor(max_workers=...) as ex:
    <target> = <gather expression>.   Returns (worker call description parts, rule, gather, iterable, target, expr)."""
    env = dict(env0)
    with_stmt = None
    for s in strip_noise(stmts):
        if result is not None and with_stmt is None and is_empty_list_init(s, result):
            if initialised:
                raise TranslateError(f"{what}: result list initialised twice")
            initialised = True
            continue
        if isinstance(s, ast.AnnAssign) and s.value is not None and isinstance(s.target, ast.Name):
            env[s.target.id] = inline(s.value, env)
            continue
        if isinstance(s, ast.Assign) and len(s.targets) == 1 and isinstance(s.targets[0], ast.Name):
            env[s.targets[0].id] = inline(s.value, env)
            continue
        if isinstance(s, ast.With) and with_stmt is None:
            with_stmt = s
            continue
        if isinstance(s, ast.If) and with_stmt is None and s.orelse:
            # if <test>: [x = list(x);] v = a  else: v = b      ==      v = a if <test> else b
            def branch(stmts_):
                out = {}
                for b_ in strip_noise(stmts_):
                    if not (isinstance(b_, ast.Assign) and len(b_.targets) == 1 and isinstance(b_.targets[0], ast.Name)):
                        raise TranslateError(f"{what}: unsupported statement in the parallel branch: {ast.unparse(b_)[:80]}")
                    n_ = b_.targets[0].id
                    if n_ in params and call_name(b_.value) == "list" and len(b_.value.args) == 1 \
                            and _same_name(b_.value.args[0], n_) and not b_.value.keywords:
                        continue  # materialising the iterated argument keeps its order
                    if n_ in params or n_ in out:
                        raise TranslateError(f"{what}: unsupported assignment in the parallel branch: {ast.unparse(b_)[:80]}")
                    out[n_] = inline(b_.value, env)
                return out
            a_, b_ = branch(s.body), branch(s.orelse)
            if set(a_) != set(b_) or not a_:
                raise TranslateError(f"{what}: the branches of `if {ast.unparse(s.test)}` assign different names")
            for n_ in a_:
                env[n_] = ast.IfExp(test=inline(s.test, env), body=a_[n_], orelse=b_[n_])
            continue
        raise TranslateError(f"{what}: unsupported statement in the parallel branch: {ast.unparse(s)[:80]}")
    if with_stmt is None or len(with_stmt.items) != 1:
        raise TranslateError(f"{what}: parallel branch has no single `with ProcessPoolExecutor(...)` block")
    item = with_stmt.items[0]
    ctx = inline(item.context_expr, env)
    if call_name(ctx) != "ProcessPoolExecutor" or not isinstance(item.optional_vars, ast.Name):
        raise TranslateError(f"{what}: parallel branch does not use ProcessPoolExecutor(...) as <name>")
    ex = item.optional_vars.id
    if ctx.args or [k.arg for k in ctx.keywords] != ["max_workers"]:
        raise TranslateError(f"{what}: unexpected arguments of ProcessPoolExecutor")
    rule = max_workers_rule(ctx.keywords[0].value, np_param, what)
    if result is not None:
        with_stmt.body = loops_to_comprehensions(with_stmt.body, result, initialised, what)
    else:
        with_stmt.body = strip_noise(with_stmt.body)
    # `if <flag parameter>: <gather one way> else: <gather another way>` inside the with-block
    if (len(with_stmt.body) == 1 and isinstance(with_stmt.body[0], ast.If) and with_stmt.body[0].orelse
            and isinstance(with_stmt.body[0].test, ast.Name) and with_stmt.body[0].test.id in params):
        br = with_stmt.body[0]
        return ex, rule, {"flag": br.test.id, True: br.body, False: br.orelse}, env, "split"
    # any sign of completion-order gathering: the model then gathers in completion order (Model/Parallel.v),
    # for which the theorems of C15 do not hold
    for n in ast.walk(with_stmt):
        if isinstance(n, (ast.Name, ast.Attribute)) and ast.unparse(n).split(".")[-1] == "as_completed":
            return ex, rule, None, env, "completion"
    for n in ast.walk(with_stmt):
        if isinstance(n, (ast.Name, ast.Attribute)) and ast.unparse(n).split(".")[-1] in ("submit", "wait"):
            raise TranslateError(f"{what}: results are gathered through {ast.unparse(n)}, not through executor.map")
    if len(with_stmt.body) != 1:
        raise TranslateError(f"{what}: the with-block is not a single assignment")
    body = with_stmt.body[0]
    if not (isinstance(body, ast.Assign) and len(body.targets) == 1 and isinstance(body.targets[0], ast.Name)):
        raise TranslateError(f"{what}: the with-block is not a single assignment")
    expr = inline(body.value, env)
    return ex, rule, body.targets[0].id, expr, "map"


def executor_map_call(e: ast.AST, ex: str, params, what):
    """`<ex>.map(<partial>, <iterable>)` -> (partial call, iterable root)."""
    if not (isinstance(e, ast.Call) and ast.unparse(e.func) == f"{ex}.map" and len(e.args) == 2 and not e.keywords):
        raise TranslateError(f"{what}: results are not gathered by {ex}.map(worker, iterable): {ast.unparse(e)[:80]}")
    part = e.args[0]
    if call_name(part) != "functools.partial" or not part.args:
        raise TranslateError(f"{what}: the worker is not a functools.partial(...)")
    return part, iter_root(e.args[1], params, what)


def not_none_filter(ifs, var: str) -> bool:
    if not ifs:
        return False
    if len(ifs) == 1:
        t = ifs[0]
        if (isinstance(t, ast.Compare) and len(t.ops) == 1 and isinstance(t.ops[0], ast.IsNot)
                and isinstance(t.comparators[0], ast.Constant) and t.comparators[0].value is None):
            return t.left
    raise TranslateError("unsupported comprehension filter " + ", ".join(ast.unparse(t) for t in ifs))


def iteration_uses(stmts, name: str):
    """How a branch uses the iterable argument `name`, in source order: 'materialise' (name = list(name) /
    tuple(name)), 'len', 'dispatch' (iterated by a comprehension / for loop / <executor>.map), 'attr:<a>' (attribute
    read), 'other' (anything else: iter(name), next(...), truth test, passing it on ...)."""
    uses = []
    for s in stmts:
        parents = {}
        for n in ast.walk(s):
            for c in ast.iter_child_nodes(n):
                parents[c] = n
        for n in ast.walk(s):
            if not (isinstance(n, ast.Name) and n.id == name and isinstance(n.ctx, ast.Load)):
                continue
            par = parents.get(n)
            gp = parents.get(par)
            if isinstance(par, ast.Call) and call_name(par) in ("list", "tuple") and len(par.args) == 1 \
                    and isinstance(gp, ast.Assign) and len(gp.targets) == 1 and _same_name(gp.targets[0], name):
                uses.append("materialise")
            elif isinstance(par, ast.Call) and call_name(par) == "len":
                uses.append("len")
            elif isinstance(par, ast.Call) and call_name(par) == "display_progress" and par.args and par.args[0] is n \
                    and isinstance(gp, (ast.comprehension, ast.For)) and gp.iter is par:
                uses.append("dispatch")
            elif isinstance(par, (ast.comprehension, ast.For)) and par.iter is n:
                uses.append("dispatch")
            elif isinstance(par, ast.Call) and isinstance(par.func, ast.Attribute) and par.func.attr == "map" \
                    and n in par.args[1:]:
                uses.append("dispatch")
            elif isinstance(par, ast.Attribute) and par.value is n and isinstance(par.ctx, ast.Load) \
                    and not (isinstance(gp, ast.Call) and gp.func is par):
                uses.append("attr:" + par.attr)
            else:
                uses.append("other")
    return uses


def iterates_once(uses) -> bool:
    """The argument is traversed exactly once (valid for generators and other one-shot iterables), or it is
    materialised into a list / tuple before anything else looks at it."""
    core = [u for u in uses if not u.startswith("attr:")]
    if core and core[0] == "materialise":
        return core.count("materialise") == 1 and "other" not in core[1:]
    return core == ["dispatch"]


def strip_peek_guards(stmts, name: str):
    """Remove `if <test that mentions name>: return ...` guards (they are reported through iteration_uses)."""
    out = []
    for s in stmts:
        if isinstance(s, ast.If) and not s.orelse and any(_same_name(n, name) for n in ast.walk(s.test)) \
                and len(strip_noise(s.body)) == 1 and isinstance(strip_noise(s.body)[0], ast.Return):
            continue
        out.append(s)
    return out


def refine_droplets_facts(ia: ast.Module):
    fn = find_def(ia.body, "refine_droplets")
    sig, npos, kwarg = signature(fn)
    params = [p for p, _ in sig]
    st = statements(fn)
    what = "refine_droplets"
    initialised = False
    if len(st) == 3 and isinstance(st[2], ast.Return) and isinstance(st[2].value, ast.Name) \
            and is_empty_list_init(st[0], st[2].value.id):
        initialised, st = True, st[1:]  # droplets = []  before the branches (filled by loops)
    if not (len(st) == 2 and isinstance(st[0], ast.If) and isinstance(st[1], ast.Return)
            and isinstance(st[1].value, ast.Name)):
        raise TranslateError(f"{what}: body is not `if <serial test>: ... else: ...; return <name>`")
    result = st[1].value.id
    np_param, serial_n, serial_body, parallel_body = serial_branches(st[0], params, what)
    # ---- serial branch: result = [drop for c in candidates if (drop := refine_droplet(...)) is not None]
    sb = loops_to_comprehensions(serial_body, result, initialised, what)
    if initialised and not (len(sb) == 1 and isinstance(sb[0], ast.Assign)):
        raise TranslateError(f"{what}: serial branch does not fill the pre-initialised result by one loop")
    if not (len(sb) == 1 and isinstance(sb[0], ast.Assign) and len(sb[0].targets) == 1
            and isinstance(sb[0].targets[0], ast.Name) and sb[0].targets[0].id == result
            and isinstance(sb[0].value, ast.ListComp) and len(sb[0].value.generators) == 1):
        raise TranslateError(f"{what}: serial branch is not a single list comprehension assigned to the result")
    comp = sb[0].value
    g = comp.generators[0]
    if g.is_async or not isinstance(g.target, ast.Name):
        raise TranslateError(f"{what}: unsupported comprehension target")
    ser_iter = iter_root(g.iter, params, what)
    # how often each branch traverses the candidates (one-shot iterables are valid `Iterable`s)
    ser_once = iterates_once(iteration_uses(sb, ser_iter))
    par_uses = iteration_uses(strip_noise(parallel_body), ser_iter)
    par_once = iterates_once(par_uses)
    if not par_once:
        parallel_body = strip_peek_guards(strip_noise(parallel_body), ser_iter)
    left = not_none_filter(g.ifs, "")
    if left is False:
        # [refine_droplet(...) for c in candidates]
        ser_filter = False
        call = comp.elt
    else:
        ser_filter = True
        if not (isinstance(left, ast.NamedExpr) and isinstance(comp.elt, ast.Name)
                and comp.elt.id == left.target.id):
            raise TranslateError(f"{what}: serial comprehension does not return the tested value")
        call = left.value
    if not isinstance(call, ast.Call) or any(k.arg is None for k in call.keywords[:-1]):
        raise TranslateError(f"{what}: serial worker call has an unsupported shape")
    slot = [a for a in call.args if isinstance(a, ast.Name) and a.id == g.target.id]
    if len(slot) != 1:
        raise TranslateError(f"{what}: serial worker call does not take the loop variable exactly once")
    kws = [(k.arg, k.value) for k in call.keywords if k.arg is not None]
    star = next((k.value for k in call.keywords if k.arg is None), None)
    ser_call = describe_call(ast.unparse(call.func), call.args, kws, star, slot[0])
    # ---- parallel branch
    ex, rule, target, expr, how = parallel_block(parallel_body, {}, np_param, params, what, result, initialised)
    if how == "split":
        raise TranslateError(f"{what}: the parallel branch gathers differently depending on `{target['flag']}`")
    if how == "completion":
        return dict(np_param=np_param, serial_n=serial_n, ser_iter=ser_iter, par_iter="", ser_filter=ser_filter,
                    par_filter=False, ser_call=ser_call, par_call="", rule=rule, gather="GatherCompletion",
                    ser_once=ser_once, par_once=par_once, par_uses=par_uses)
    if target != result:
        raise TranslateError(f"{what}: parallel branch does not assign the result")
    if not (isinstance(expr, ast.ListComp) and len(expr.generators) == 1
            and isinstance(expr.generators[0].target, ast.Name) and isinstance(expr.elt, ast.Name)
            and expr.elt.id == expr.generators[0].target.id and not expr.generators[0].is_async):
        # list(executor.map(...)) without filter
        if call_name(expr) == "list" and len(expr.args) == 1 and not expr.keywords:
            part, par_iter = executor_map_call(expr.args[0], ex, params, what)
            par_filter = False
        else:
            raise TranslateError(f"{what}: parallel branch is not `[r for r in {ex}.map(...) if r is not None]`")
    else:
        pg = expr.generators[0]
        left = not_none_filter(pg.ifs, "")
        if left is False:
            par_filter = False
        else:
            if not (isinstance(left, ast.Name) and left.id == pg.target.id):
                raise TranslateError(f"{what}: parallel comprehension filters something else than its element")
            par_filter = True
        part, par_iter = executor_map_call(pg.iter, ex, params, what)
    pkws = [(k.arg, k.value) for k in part.keywords if k.arg is not None]
    pstar = next((k.value for k in part.keywords if k.arg is None), None)
    slot_node = ast.Name(id="_", ctx=ast.Load())
    par_call = describe_call(ast.unparse(part.args[0]), list(part.args[1:]) + [slot_node], pkws, pstar, slot_node)
    return dict(np_param=np_param, serial_n=serial_n, ser_iter=ser_iter, par_iter=par_iter, ser_filter=ser_filter,
                par_filter=par_filter, ser_call=ser_call, par_call=par_call, rule=rule, gather="GatherByIndex",
                ser_once=ser_once, par_once=par_once, par_uses=par_uses)


def from_storage_facts(em: ast.Module, locate_sig):
    cls = find_class(em, "EmulsionTimeCourse")
    fn = find_def(cls.body, "from_storage")
    if [ast.unparse(d) for d in fn.decorator_list] != ["classmethod"]:
        raise TranslateError("from_storage: not a classmethod")
    sig, npos, kwarg = signature(fn, drop_first=1)
    params = [p for p, _ in sig]
    defaults = [(p, d) for p, d in sig if d is not None]
    what = "from_storage"
    st = statements(fn)
    initialised = False
    if len(st) == 3 and is_empty_list_init(st[0]) and isinstance(st[2], ast.Return):
        init_name, st = is_empty_list_init(st[0]), st[1:]
        initialised = True
    if not (len(st) == 2 and isinstance(st[0], ast.If) and isinstance(st[1], ast.Return)):
        raise TranslateError(f"{what}: body is not `if <serial test>: ... else: ...; return cls(...)`")
    np_param, serial_n, serial_body, parallel_body = serial_branches(st[0], params, what)
    lsig, lnpos, lkw = locate_sig
    first = lsig[0][0]
    # ---- return cls(<result>, times=<storage>.times)
    ret = st[1].value
    if call_name(ret) != "cls":
        raise TranslateError(f"{what}: does not return cls(...)")
    rb, rstar = bind_call(ret, [("emulsions", "None"), ("times", "None")], 2, None, what + ": cls(...)")
    if rstar is not None or not isinstance(rb.get("emulsions"), ast.Name):
        raise TranslateError(f"{what}: unexpected arguments of cls(...)")
    result = rb["emulsions"].id
    if "times" in rb:
        t = rb["times"]
        if not (isinstance(t, ast.Attribute) and t.attr == "times" and isinstance(t.value, ast.Name)
                and t.value.id in params):
            raise TranslateError(f"{what}: times are not taken from the storage: {ast.unparse(t)}")
        times_from = t.value.id
    else:
        times_from = ""
    if initialised and init_name != result:
        raise TranslateError(f"{what}: unexpected list initialisation before the branches")
    # ---- serial branch
    ser = None
    for s in loops_to_comprehensions(serial_body, result, initialised, what):
        if isinstance(s, ast.If):
            # if progress is None: progress = refine   (display only)
            ok = (ast.unparse(s.test) == "progress is None" and not s.orelse and len(s.body) == 1
                  and isinstance(s.body[0], ast.Assign) and ast.unparse(s.body[0].targets[0]) == "progress")
            if not ok:
                raise TranslateError(f"{what}: unsupported if-statement in the serial branch")
            continue
        if isinstance(s, ast.AnnAssign) and s.value is not None:
            s = ast.Assign(targets=[s.target], value=s.value)
        if isinstance(s, ast.Assign) and len(s.targets) == 1 and isinstance(s.targets[0], ast.Name) \
                and s.targets[0].id == result and ser is None:
            ser = s.value
            continue
        raise TranslateError(f"{what}: unsupported statement in the serial branch: {ast.unparse(s)[:80]}")
    if call_name(ser) == "list" and len(ser.args) == 1:
        ser = ser.args[0]
    if not (isinstance(ser, (ast.GeneratorExp, ast.ListComp)) and len(ser.generators) == 1
            and not ser.generators[0].ifs and isinstance(ser.generators[0].target, ast.Name)
            and not ser.generators[0].is_async):
        raise TranslateError(f"{what}: serial branch is not a comprehension over the storage")
    g = ser.generators[0]
    ser_iter = iter_root(g.iter, params, what)
    if call_name(ser.elt) != "locate_droplets":
        raise TranslateError(f"{what}: serial branch does not call locate_droplets")
    lb, lstar = bind_call(ser.elt, lsig, lnpos, lkw, what + ": locate_droplets")
    if not (isinstance(lb.get(first), ast.Name) and lb[first].id == g.target.id):
        raise TranslateError(f"{what}: locate_droplets is not applied to the frame")
    lb.pop(first)
    ser_fw, ser_star = forward_table(lb, lstar, None, params, kwarg, what + " (serial)")
    # ---- parallel branch
    ex, rule, target, expr, how = parallel_block(parallel_body, {}, np_param, params, what, result, initialised)

    def partial_forward(part):
        if ast.unparse(part.args[0]) != "locate_droplets" or len(part.args) != 1:
            raise TranslateError(f"{what}: parallel worker is not functools.partial(locate_droplets, <keywords>)")
        fake = ast.Call(func=part.args[0], args=[ast.Name(id="_frame", ctx=ast.Load())], keywords=part.keywords)
        pb, pstar = bind_call(fake, lsig, lnpos, lkw, what + ": partial(locate_droplets)")
        pb.pop(first)
        return forward_table(pb, pstar, None, params, kwarg, what + " (parallel)")

    def env_partial(env):
        # the worker is a functools.partial(locate_droplets, ...) bound to a local name
        parts = [v for v in env.values() if call_name(v) == "functools.partial" and v.args
                 and ast.unparse(v.args[0]) == "locate_droplets" and len(v.args) == 1]
        if len(parts) != 1:
            raise TranslateError(f"{what}: completion-order gathering with an unrecognised worker")
        return partial_forward(parts[0])

    def by_index(e):
        if not (call_name(e) == "list" and len(e.args) == 1 and not e.keywords):
            raise TranslateError(f"{what}: parallel branch is not list({ex}.map(...))")
        part, it = executor_map_call(e.args[0], ex, params, what)
        return ("GatherByIndex",) + partial_forward(part) + (it,)

    def analyse(stmts, env0):
        """One way of gathering inside the with-block -> (gather kind, forward table, **kwargs?, iterable)."""
        env1 = dict(env0)
        for n in stmts:
            for m in ast.walk(n):
                if isinstance(m, (ast.Name, ast.Attribute)) and ast.unparse(m).split(".")[-1] == "as_completed":
                    return ("GatherCompletion",) + env_partial(env1) + ("",)
        last = None
        for n in stmts:
            if isinstance(n, (ast.Import, ast.ImportFrom)):
                continue
            if last is not None:
                raise TranslateError(f"{what}: statement after the result was gathered")
            for m in ast.walk(n):
                if isinstance(m, (ast.Name, ast.Attribute)) and ast.unparse(m).split(".")[-1] in ("submit", "wait"):
                    raise TranslateError(f"{what}: results are gathered through {ast.unparse(m)}, not through executor.map")
            if isinstance(n, ast.Assign) and len(n.targets) == 1 and isinstance(n.targets[0], ast.Name):
                if n.targets[0].id == result:
                    last = inline(n.value, env1)
                else:
                    env1[n.targets[0].id] = inline(n.value, env1)
                continue
            raise TranslateError(f"{what}: unsupported statement in the with-block: {ast.unparse(n)[:80]}")
        if last is None:
            raise TranslateError(f"{what}: the with-block does not assign the result")
        return by_index(last)

    flag = ""
    if how == "split":
        flag = target["flag"]
        ways = {b: analyse(target[b], expr) for b in (True, False)}
    elif how == "completion":
        ways = {b: ("GatherCompletion",) + env_partial(expr) + ("",) for b in (True, False)}
    else:
        if target != result:
            raise TranslateError(f"{what}: parallel branch does not assign the result")
        ways = {b: by_index(expr) for b in (True, False)}
    if ways[True][1:3] != ways[False][1:3]:
        raise TranslateError(f"{what}: the two `{flag}` branches use different workers")
    iters = {w[3] for w in ways.values() if w[0] == "GatherByIndex"}
    if len(iters) > 1:
        raise TranslateError(f"{what}: the two `{flag}` branches iterate over different arguments")
    # the iterated argument is only established for branches that use executor.map
    par_iter = iters.pop() if iters and all(w[0] == "GatherByIndex" for w in ways.values()) else \
        (next(iter(iters)) if iters else "")
    return dict(params=params, defaults=defaults, kwargs=kwarg or "", np_param=np_param, serial_n=serial_n,
                ser_iter=ser_iter, par_iter=par_iter, ser_fw=ser_fw, ser_star=ser_star, par_fw=ways[True][1],
                par_star=ways[True][2], rule=rule, gather_flag=flag, gather_true=ways[True][0],
                gather_false=ways[False][0], times_from=times_from)


# ---------------------------------------------------------------------------------------
# refine_droplet: does the task write into option dicts handed in by the caller?
# ---------------------------------------------------------------------------------------
READ_METHODS = {"get", "items", "keys", "values", "copy", "__contains__", "__len__"}
WRITE_METHODS = {"setdefault", "update", "pop", "popitem", "clear", "__setitem__", "__delitem__"}


def _is_name(n, name):
    return isinstance(n, ast.Name) and n.id == name


def _fresh_dict_expr(e: ast.AST, name: str, state: str):
    """Abstract value of an expression assigned to the option name: 'FRESH' (a new dict), 'ARG' (possibly the
    caller's object), or None (not understood)."""
    if isinstance(e, ast.Dict):
        return "FRESH"  # {} / {**name, ...}
    if isinstance(e, ast.Call):
        f = ast.unparse(e.func)
        if f == "dict" or f in ("copy.copy", "copy.deepcopy", "deepcopy"):
            return "FRESH"
        if f == f"{name}.copy" and not e.args and not e.keywords:
            return "FRESH"
        return None
    if isinstance(e, ast.BinOp) and isinstance(e.op, ast.BitOr):
        return "FRESH"  # dict | dict builds a new dict
    if _is_name(e, name):
        return state
    if isinstance(e, ast.IfExp):
        a, b = _fresh_dict_expr(e.body, name, state), _fresh_dict_expr(e.orelse, name, state)
        if a is None or b is None:
            return None
        return "FRESH" if a == b == "FRESH" else "ARG"
    return None


class _OptionWrites:
    """Flow-insensitive-in-loops, path-joining scan of a function body for one option parameter."""

    def __init__(self, name, what, kind="dict"):
        self.name, self.what, self.kind = name, what, kind
        self.writes_on_arg: list[str] = []
        self.writes: list[str] = []

    def unknown(self, msg):
        """A use that is not understood: irrelevant once a write into the caller's object has been seen (the fact
        is false already), otherwise fail closed."""
        if not self.writes_on_arg:
            raise TranslateError(f"{self.what}: {msg}")

    def fresh_expr(self, e, state):
        if self.kind == "dict":
            return _fresh_dict_expr(e, self.name, state)
        # objects (droplets): <name>.copy(), <Class>.from_droplet(<name>, ...), copy.copy / deepcopy build new objects
        if isinstance(e, ast.Call):
            f = ast.unparse(e.func)
            if f == f"{self.name}.copy" and not e.args:
                return "FRESH"
            if f in ("copy.copy", "copy.deepcopy", "deepcopy") or f.endswith(".from_droplet") or f.endswith(".from_data"):
                return "FRESH"
            return None
        if _is_name(e, self.name):
            return state
        if isinstance(e, ast.IfExp):
            a, b = self.fresh_expr(e.body, state), self.fresh_expr(e.orelse, state)
            if a is None or b is None:
                return None
            return "FRESH" if a == b == "FRESH" else "ARG"
        return None

    def uses(self, node):
        return any(_is_name(n, self.name) for n in ast.walk(node))

    def expr(self, e: ast.AST, state: str):
        """Check one expression (no statements inside) for writes through / escapes of the option."""
        name = self.name
        parents = {}
        for n in ast.walk(e):
            for c in ast.iter_child_nodes(n):
                parents[c] = n
        for n in ast.walk(e):
            if not _is_name(n, name):
                continue
            par = parents.get(n)
            if par is None:
                continue
            if self.kind == "object" and isinstance(par, ast.Attribute) and par.value is n:
                gp = parents.get(par)
                if isinstance(gp, ast.Call) and gp.func is par:
                    if par.attr == "copy" or state == "FRESH":
                        continue
                    self.unknown(f"method call on the caller's `{name}`: {ast.unparse(gp)[:60]}")
                    continue
                if isinstance(par.ctx, ast.Load):
                    continue  # attribute read
                self.writes.append("." + par.attr)
                if state == "ARG":
                    self.writes_on_arg.append("." + par.attr)
                continue
            if isinstance(par, ast.Attribute) and par.value is n:
                gp = parents.get(par)
                if isinstance(gp, ast.Call) and gp.func is par:
                    if par.attr in WRITE_METHODS:
                        self.writes.append(par.attr)
                        if state == "ARG":
                            self.writes_on_arg.append(par.attr)
                        continue
                    if par.attr in READ_METHODS:
                        continue
                raise TranslateError(f"{self.what}: unsupported use of option `{name}`: {ast.unparse(gp or par)[:60]}")
            if isinstance(par, ast.Subscript) and par.value is n:
                if isinstance(par.ctx, ast.Load):
                    continue
                raise TranslateError(f"{self.what}: unsupported subscript use of `{name}`")
            if isinstance(par, ast.keyword) and par.arg is None:
                continue  # **name : the callee receives the items, not the object
            if isinstance(par, ast.Compare):
                continue  # `name is None`, `k in name`
            if isinstance(par, (ast.BoolOp, ast.UnaryOp)) or (isinstance(par, ast.IfExp) and par.test is n):
                continue  # truth value
            if isinstance(par, ast.Dict):
                continue  # {**name}
            if isinstance(par, ast.Call) and ast.unparse(par.func) in ("dict", "len", "copy.copy", "copy.deepcopy",
                                                                        "deepcopy", "isinstance", "bool", "type"):
                continue
            if self.kind == "object" and isinstance(par, ast.Call) and ast.unparse(par.func).endswith(".from_droplet"):
                continue  # builds a new droplet from the given one
            if state == "FRESH":
                continue  # the task's own copy may go anywhere
            self.unknown(f"the caller's `{name}` object escapes: {ast.unparse(par)[:60]}")

    def block(self, stmts, state: str) -> str:
        for s in stmts:
            state = self.stmt(s, state)
        return state

    @staticmethod
    def join(a, b):
        return "FRESH" if a == b == "FRESH" else "ARG"

    def stmt(self, s, state: str) -> str:
        name = self.name
        if not self.uses(s):
            return state
        if isinstance(s, (ast.FunctionDef, ast.Lambda, ast.ClassDef)):
            if state == "FRESH":
                return state
            self.unknown(f"nested definition captures the caller's `{name}`")
            return state
        if isinstance(s, (ast.Assign, ast.AnnAssign)):
            targets = s.targets if isinstance(s, ast.Assign) else [s.target]
            value = s.value
            if len(targets) == 1 and _is_name(targets[0], name) and value is not None:
                # rebinding the local name
                v = self.fresh_expr(value, state)
                if v is None:
                    raise TranslateError(f"{self.what}: `{name}` is rebound to {ast.unparse(value)[:60]}")
                self.expr(value, state)
                return v
            for t in targets:
                if isinstance(t, ast.Subscript) and _is_name(t.value, name):
                    self.writes.append("[]=")
                    if state == "ARG":
                        self.writes_on_arg.append("[]=")
                    self.expr(t.slice, state)
                elif self.kind == "object" and isinstance(t, ast.Attribute) and _is_name(t.value, name):
                    self.writes.append("." + t.attr)
                    if state == "ARG":
                        self.writes_on_arg.append("." + t.attr)
                elif self.uses(t):
                    raise TranslateError(f"{self.what}: unsupported assignment target involving `{name}`")
            if value is not None:
                if _is_name(value, name) and state == "ARG":
                    self.unknown(f"the caller's `{name}` object gets a second name")
                self.expr(value, state)
            return state
        if isinstance(s, ast.AugAssign):
            if _is_name(s.target, name) or (isinstance(s.target, ast.Subscript) and _is_name(s.target.value, name)):
                self.writes.append("augmented assignment")
                if state == "ARG":
                    self.writes_on_arg.append("augmented assignment")
                self.expr(s.value, state)
                return state
            self.expr(s.value, state)
            return state
        if isinstance(s, ast.Delete):
            for t in s.targets:
                if isinstance(t, ast.Subscript) and _is_name(t.value, name):
                    self.writes.append("del")
                    if state == "ARG":
                        self.writes_on_arg.append("del")
                elif self.uses(t):
                    raise TranslateError(f"{self.what}: unsupported del involving `{name}`")
            return state
        if isinstance(s, ast.If):
            self.expr(s.test, state)
            a = self.block(s.body, state)
            b = self.block(s.orelse, state)
            if s.body and isinstance(s.body[-1], (ast.Return, ast.Raise)):
                return b
            if s.orelse and isinstance(s.orelse[-1], (ast.Return, ast.Raise)):
                return a
            return self.join(a, b)
        if isinstance(s, (ast.For, ast.While)):
            if isinstance(s, ast.For):
                self.expr(s.iter, state)
                if self.uses(s.target):
                    raise TranslateError(f"{self.what}: `{name}` is a loop variable")
            else:
                self.expr(s.test, state)
            after = self.block(s.body, state)
            entry = self.join(state, after)
            after = self.block(s.body, entry)  # second pass: what a later iteration sees
            return self.join(entry, self.block(s.orelse, self.join(entry, after)))
        if isinstance(s, ast.With):
            for it in s.items:
                self.expr(it.context_expr, state)
                if it.optional_vars is not None and self.uses(it.optional_vars):
                    raise TranslateError(f"{self.what}: `{name}` bound by with")
            return self.block(s.body, state)
        if isinstance(s, ast.Try):
            st = self.block(s.body, state)
            for h in s.handlers:
                st = self.join(st, self.block(h.body, self.join(state, st)))
            st = self.block(s.orelse, st)
            return self.block(s.finalbody, st)
        if isinstance(s, (ast.Expr, ast.Return)):
            if s.value is not None:
                if isinstance(s, ast.Return) and state == "ARG" and self.uses(s.value) and not isinstance(s.value, ast.Compare):
                    if self.kind == "object" and _is_name(s.value, name):
                        self.writes.append("returned")
                        self.writes_on_arg.append("returned")  # the result IS the caller's object
                        return state
                    self.unknown(f"the caller's `{name}` object is returned")
                    return state
                self.expr(s.value, state)
            return state
        if isinstance(s, (ast.Raise, ast.Assert)):
            for c in ast.iter_child_nodes(s):
                self.expr(c, state)
            return state
        raise TranslateError(f"{self.what}: unsupported statement involving `{name}`: {type(s).__name__}")


def refine_options_facts(ia: ast.Module):
    """Option parameters of refine_droplet that are dicts, the writes the function performs on them and whether
    every such write happens after the name was rebound to a new dict (so that the caller's object is not touched)."""
    fn = find_def(ia.body, "refine_droplet")
    what = "refine_droplet"
    kwonly = [(a, ast.unparse(a.annotation) if a.annotation is not None else "") for a in fn.args.kwonlyargs]
    positional = [a.arg for a in fn.args.posonlyargs + fn.args.args]
    if fn.args.vararg or fn.args.kwarg or len(positional) != 2:
        raise TranslateError(f"{what}: signature is not (phase_field, droplet, *, <options>)")
    dicts = []
    for a, ann in kwonly:
        name = a.arg
        dictish = "dict" in ann.lower() or "mapping" in ann.lower()
        for n in ast.walk(fn):
            if isinstance(n, ast.keyword) and n.arg is None and _is_name(n.value, name):
                dictish = True
            if isinstance(n, ast.Attribute) and _is_name(n.value, name) and n.attr in WRITE_METHODS | READ_METHODS:
                dictish = True
            if isinstance(n, ast.Subscript) and _is_name(n.value, name) and isinstance(n.ctx, (ast.Store, ast.Del)):
                dictish = True
        if dictish:
            dicts.append(name)
    writes, bad = [], []
    for name in dicts:
        sc = _OptionWrites(name, what)
        sc.block(statements(fn), "ARG")
        writes += [f"{name}.{w}" for w in sc.writes]
        bad += [f"{name}.{w}" for w in sc.writes_on_arg]
    # the candidate droplet (second positional parameter)
    cand = positional[1]
    sc = _OptionWrites(cand, what, kind="object")
    sc.block(statements(fn), "ARG")
    return dict(dicts=dicts, writes=sorted(set(writes)), writes_on_arg=sorted(set(bad)), copies=not bad,
                cand=cand, cand_writes=sorted(set(sc.writes)), cand_writes_on_arg=sorted(set(sc.writes_on_arg)),
                cand_copies=not sc.writes_on_arg)


# ---------------------------------------------------------------------------------------
# output
# ---------------------------------------------------------------------------------------
HEADER = """(* GENERATED by harness/gen_glue.py from the current source tree -- do not edit.
   Glue facts of trackers.py, emulsions.py (from_storage) and image_analysis.py (refine_droplets). *)
From Coq Require Import String List.
From PD Require Import Model.Online Model.Parallel.
Import ListNotations.
Local Open Scope string_scope.
"""


def cbool(b) -> str:
    return "true" if b else "false"


def gen_glue() -> str:
    tr = parse_file(REPO / "droplets/trackers.py")
    em = parse_file(REPO / "droplets/emulsions.py")
    ia = parse_file(REPO / "droplets/image_analysis.py")
    locate_sig = signature(find_def(ia.body, "locate_droplets"))
    gls_sig = signature(find_def(ia.body, "get_length_scale"))
    if locate_sig[1] < 1 or gls_sig[1] < 1:
        raise TranslateError("locate_droplets/get_length_scale: no positional field argument")
    dt = droplet_tracker_facts(tr, locate_sig)
    ls = length_tracker_facts(tr, gls_sig)
    fs = from_storage_facts(em, locate_sig)
    rd = refine_droplets_facts(ia)
    ro = refine_options_facts(ia)
    out = [HEADER]

    def d(name, ty, val, comment=None):
        if comment:
            out.append(f"(* {comment} *)")
        out.append(f"Definition {name} : {ty} := {val}.")

    out.append("(* ---- image_analysis.locate_droplets / get_length_scale: signatures ---- *)")
    d("locate_field_param", "string", cstr(locate_sig[0][0][0]))
    d("locate_opts", "list string", clist(cstr(p) for p, _ in locate_sig[0][1:]),
      "parameters of locate_droplets after the field")
    d("locate_defaults", "list (string * string)", cpairs((p, dflt) for p, dflt in locate_sig[0][1:] if dflt is not None))
    d("locate_has_kwargs", "bool", cbool(locate_sig[2]))
    d("gls_opts", "list string", clist(cstr(p) for p, _ in gls_sig[0][1:]))
    d("gls_defaults", "list (string * string)", cpairs((p, dflt) for p, dflt in gls_sig[0][1:] if dflt is not None))
    out.append("\n(* ---- trackers.DropletTracker ---- *)")
    d("dt_ctor_params", "list string", clist(cstr(p) for p in dt["params"]))
    d("dt_ctor_defaults", "list (string * string)", cpairs(dt["defaults"]))
    d("dt_ctor_assign", "table", ctable(dt["assign"]), "self.<attribute> = <constructor parameter | literal>")
    d("dt_super_forward", "table", ctable(dt["super_fw"]), "super().__init__(<keyword> = ...)")
    d("dt_data_param", "string", cstr(dt["data_param"]),
      "self.data = EmulsionTimeCourse() if <this parameter> is None else <this parameter>")
    d("dt_source_attr", "string", cstr(dt["source_attr"]), "handle: extract_field(field, self.<this>, 0)")
    d("dt_handle_forward", "table", ctable(dt["forward"]),
      "handle: locate_droplets(<extracted field>, <keyword> = self.<attribute> | literal)")
    d("dt_append_explicit_time", "bool", cbool(dt["explicit_time"]),
      "handle: self.data.append(<result of locate_droplets>, t)")
    d("dt_finalize_attr", "string", cstr(dt["finalize_attr"]),
      "finalize: if self.<this>: self.data.to_file(self.<this>)")
    out.append("\n(* ---- trackers.LengthScaleTracker ---- *)")
    d("ls_ctor_params", "list string", clist(cstr(p) for p in ls["params"]))
    d("ls_ctor_defaults", "list (string * string)", cpairs(ls["defaults"]))
    d("ls_ctor_assign", "table", ctable(ls["assign"]))
    d("ls_super_forward", "table", ctable(ls["super_fw"]))
    d("ls_source_attr", "string", cstr(ls["source_attr"]))
    d("ls_call_forward", "table", ctable(ls["forward"]),
      "handle: get_length_scale(<extracted field>, <keyword> = self.<attribute>) inside try")
    d("ls_catches", "string", cstr(ls["catches"]), "except <this>:")
    d("ls_fallback", "string", cstr(ls["fallback"]), "value recorded when the analysis raised")
    d("ls_handler_exits", "bool", cbool(ls["exits"]), "the except-handler returns from handle")
    d("ls_pre_appends", "list string", clist(cstr(x) for x in ls["pre"]), "lists appended to before the try")
    d("ls_post_appends", "list string", clist(cstr(x) for x in ls["post"]), "lists appended to after the try")
    out.append("\n(* ---- emulsions.EmulsionTimeCourse.from_storage ---- *)")
    d("fs_params", "list string", clist(cstr(p) for p in fs["params"]))
    d("fs_defaults", "list (string * string)", cpairs(fs["defaults"]))
    d("fs_kwargs_name", "string", cstr(fs["kwargs"]))
    d("fs_serial_forward", "table", ctable(fs["ser_fw"]), "serial: locate_droplets(frame, <keyword> = <parameter>, **kwargs)")
    d("fs_serial_starkwargs", "bool", cbool(fs["ser_star"]))
    d("fs_parallel_forward", "table", ctable(fs["par_fw"]),
      "parallel: functools.partial(locate_droplets, <keyword> = <parameter>, **kwargs)")
    d("fs_parallel_starkwargs", "bool", cbool(fs["par_star"]))
    d("fs_times_from", "string", cstr(fs["times_from"]), "return cls(<emulsions>, times=<this>.times)")
    d("fs_serial_iter", "string", cstr(fs["ser_iter"]))
    d("fs_parallel_iter", "string", cstr(fs["par_iter"]))
    d("fs_np_param", "string", cstr(fs["np_param"]))
    d("fs_serial_when", "nat", str(fs["serial_n"]), "serial branch iff <np_param> == <this>")
    d("fs_max_workers", "mw_rule", fs["rule"])
    d("fs_gather_flag", "string", cstr(fs["gather_flag"]),
      "parameter the way of gathering depends on (empty: it does not depend on any)")
    d("fs_gather_progress", "gather_kind", fs["gather_true"],
      "how the parallel branch gathers when `progress` (the flag above) is truthy: list(executor.map(worker, storage))")
    d("fs_gather_noprogress", "gather_kind", fs["gather_false"], "... and when it is falsy / None")
    out.append("\n(* ---- image_analysis.refine_droplets ---- *)")
    d("rd_np_param", "string", cstr(rd["np_param"]))
    d("rd_serial_when", "nat", str(rd["serial_n"]))
    d("rd_max_workers", "mw_rule", rd["rule"])
    d("rd_gather", "gather_kind", rd["gather"], "[r for r in executor.map(worker, candidates) if r is not None]")
    d("rd_serial_iter", "string", cstr(rd["ser_iter"]))
    d("rd_parallel_iter", "string", cstr(rd["par_iter"]))
    d("rd_serial_filters_none", "bool", cbool(rd["ser_filter"]))
    d("rd_parallel_filters_none", "bool", cbool(rd["par_filter"]))
    d("rd_serial_call", "string", cstr(rd["ser_call"]), "worker call, per-task argument written _")
    d("rd_parallel_call", "string", cstr(rd["par_call"]))
    d("rd_parallel_uses_of_candidates", "list string", clist(cstr(u) for u in rd["par_uses"]),
      "every use of the candidates argument in the parallel branch, in source order")
    d("rd_serial_iterates_once", "bool", cbool(rd["ser_once"]),
      "the branch traverses the candidates exactly once (or materialises them first): generators and other "
      "one-shot iterables are handled")
    d("rd_parallel_iterates_once", "bool", cbool(rd["par_once"]))
    out.append("\n(* ---- image_analysis.refine_droplet: option dicts handed in by the caller ---- *)")
    d("refine_option_dicts", "list string", clist(cstr(x) for x in ro["dicts"]), "dict-valued options of refine_droplet")
    d("refine_options_writes", "list string", clist(cstr(x) for x in ro["writes"]),
      "writes refine_droplet performs on (its binding of) these names")
    d("refine_writes_caller_options", "list string", clist(cstr(x) for x in ro["writes_on_arg"]),
      "... of which may hit the object the caller handed in")
    d("refine_copies_options", "bool", cbool(ro["copies"]),
      "every write happens after the name was rebound to a new dict: the caller's object is left alone")
    d("refine_candidate_param", "string", cstr(ro["cand"]), "the candidate droplet handed to refine_droplet")
    d("refine_candidate_writes", "list string", clist(cstr(x) for x in ro["cand_writes"]),
      "attribute writes refine_droplet performs on (its binding of) that name")
    d("refine_writes_caller_candidate", "list string", clist(cstr(x) for x in ro["cand_writes_on_arg"]),
      "... of which may hit the caller's object (`returned`: the result is the caller's object itself)")
    d("refine_copies_candidate", "bool", cbool(ro["cand_copies"]),
      "the name is rebound to a copy / a new droplet (copy(), <Class>.from_droplet) before any write or return")
    return "\n".join(out) + "\n"


GENERATORS = {"Gen_glue": gen_glue}
