"""Shared pieces of the C16 / C17 checks: case generation from one PRNG, the Python mirrors of the
oracle models of coq/Model/Spectrum.v (numpy fftn identities, fftfreq, linspace, SmoothData1D), the
model of get_structure_factor assembled from the GENERATED lines (gen_spectrum.python_models) and the
independent "truth" formulas of the property text, tolerant multiset comparison, known-finding matching."""
from __future__ import annotations

import itertools
import logging
import math
import random
import warnings

import numpy as np

import vlib

TWO_PI = 2 * math.pi

# Non-zero factors for "multiplied by any non-zero constant".  Moderate ones of both signs, the small physical
# magnitudes +-1e-9 and 1e-11 (their squares 1e-18 / 1e-22 are far below machine epsilon 2.2e-16, so any absolute
# floor on the squared norm shows up), +-1e9, and the extremes 1e-130 / 1e145.  The generated fields have
# 1e-3 <= sum f^2 <= 4.2e7 (at most 4096 cells, |f| <= ~101), so c^2 * sum f^2 stays inside the normal binary64 range.
# Upper end: 1e150 would give up to 4.2e307, too close to the overflow threshold 1.8e308 -> 1e145.
# Lower end: 1e-150 is NOT usable with a 1e-9 tolerance although c^2 * sum f^2 ~ 1e-300 is still normal: the squares of
# entries below 1e-4 * max|f| (tanh tails of droplet fields) and the small |F_k|^2 fall below 2.2e-308 / eps ~ 1e-292 and
# lose bits by gradual underflow; measured on the unchanged tree: structure_factor_mean changes by 3.6e-8 relative and
# sf by more than 1e-9 (droplets fields on 6x10 and 9x13 cells; reported to the lead as a floating-point limit, not a
# defect).  With 1e-130 (c^2 = 1e-260) every square that matters at the 1e-9 level (>= 1e-12 of the total) is >= 1e-275,
# more than thirty orders of magnitude above the subnormal range.
SCALE_FACTORS = [-3.5, 0.5, 1e-9, -1e-9, 1e-11, 1e-130, 1e9, -1e9, 1e145]
POSITIVE_SCALE_FACTORS = [c for c in SCALE_FACTORS if c > 0]


# ---------------------------------------------------------------------------------------------
# cases
# ---------------------------------------------------------------------------------------------
def _spacing(rng: random.Random) -> float:
    """dyadic spacing 2^e * (1 + j/8), e in -3..3 (exact under scaling by powers of two)"""
    return math.ldexp(1 + rng.randrange(8) / 8.0, rng.randrange(-3, 4))


PLACEMENTS = ["origin", "centred", "positive", "negative", "mixed"]


def place_box(rng: random.Random, ext: list[float]) -> tuple[str, list[float]]:
    """lower corner of a box with the given extents: at the origin, centred, shifted to positive coordinates, entirely
    negative, or mixed per axis (dyadic offsets: stretching by powers of two stays exact)"""
    d = len(ext)
    place = rng.choice(PLACEMENTS)
    shift = [math.ldexp(rng.randrange(1, 33), -2) for _ in range(d)]
    origin = {"origin": [0.0] * d,
              "centred": [-e / 2 for e in ext],
              "positive": shift,
              "negative": [-e - s_ for e, s_ in zip(ext, shift)],
              "mixed": [rng.choice([0.0, -e / 2, s_, -e - s_, -s_]) for e, s_ in zip(ext, shift)]}[place]
    return place, origin


def periodic_mask(rng: random.Random, d: int) -> list[bool]:
    """70 % fully periodic (what the property text quantifies over); otherwise any mask (the library only warns)"""
    if rng.random() < 0.7:
        return [True] * d
    return [rng.random() < 0.5 for _ in range(d)]


def gen_case(rng: random.Random, dim: int | None = None, kind: str | None = None, max_cells: int = 4096,
             min_n: int = 2, big: bool = False, dtype: str | None = None, constant: bool = False) -> dict:
    d = dim or rng.choice([1, 1, 2, 2, 3])
    cap = ({1: 256, 2: 48, 3: 16} if big else {1: 40, 2: 14, 3: 8})[d]
    shape = [rng.randrange(min_n, cap + 1) for _ in range(d)]
    while int(np.prod(shape)) > max_cells:
        shape[rng.randrange(d)] = max(min_n, shape[rng.randrange(d)] // 2)
    # thin axes: one axis of a single cell (d >= 2; fftfreq(1) = [0]) or of two cells (only the Nyquist mode)
    u = rng.random()
    if min_n <= 2 and d >= 2 and u < 0.12:
        shape[rng.randrange(d)] = 1
    elif min_n <= 2 and u < 0.24:
        shape[rng.randrange(d)] = 2
    if int(np.prod(shape)) < 2:
        shape[rng.randrange(d)] = 3
    iso = rng.random() < 0.25
    h0 = _spacing(rng)
    h = [h0 if iso else _spacing(rng) for _ in range(d)]
    place, origin = place_box(rng, [n * hh for n, hh in zip(shape, h)])
    periodic = periodic_mask(rng, d)
    dt = dtype or rng.choice(["float64"] * 8 + ["float32", "int64"])
    kind = kind or rng.choice(["noise", "noise", "wave", "waves", "droplets", "constant+noise"]
                              + (["constant"] if constant else []))
    c = {"shape": shape, "h": h, "origin": origin, "place": place, "periodic": periodic, "dtype": dt, "kind": kind}
    if kind == "constant":
        c["value"] = rng.choice([2.5, -1.0, 1e-7, 4096.0])
        return c
    if kind in ("noise", "constant+noise"):
        c["seed"] = rng.getrandbits(32)
        c["offset"] = rng.choice([0.0, 0.5, -2.0]) if kind == "noise" else rng.choice([3.0, -7.5, 100.0])
        c["amp"] = 1.0 if kind == "noise" else rng.choice([1e-3, 0.25])
    elif kind in ("wave", "waves"):
        nw = 1 if kind == "wave" else rng.randrange(2, 4)
        c["waves"] = []
        for _ in range(nw):
            q = [rng.randrange(-(n // 2), n // 2 + 1) for n in shape]
            if not any(q):
                q[rng.choice([ax for ax, n in enumerate(shape) if n >= 2])] = 1
            c["waves"].append({"q": q, "amp": rng.choice([0.2, 1.0, 3.5]), "phase": rng.randrange(0, 64) / 10.0})
        c["offset"] = rng.choice([0.0, 0.2, -1.0])
    elif kind == "droplets":
        c["drops"] = [{"pos": [rng.random() for _ in range(d)], "radius": 0.08 + 0.2 * rng.random()}
                      for _ in range(rng.randrange(1, 4))]
        c["width"] = 0.5 + rng.random()
    else:
        raise ValueError(kind)
    return c


def build(c: dict) -> np.ndarray:
    """the field data of a case (deterministic), in the case's dtype: float32 data are the rounded float64 data,
    integer data are round(16 * data)"""
    data = _build64(c)
    dt = c.get("dtype", "float64")
    if dt == "float32":
        return data.astype(np.float32)
    if dt == "int64":
        return np.rint(16 * data).astype(np.int64)
    return data


def tols(c: dict) -> dict:
    """tolerances of the oracles: derived for binary64 (rel 1e-9, abs 1e-12 on sf <= 1, Parseval 1e-10); for float32 data
    the transform itself is computed in single precision (eps = 1.2e-7, error ~ eps * log2 N): factor 2e4"""
    f = 2e4 if c.get("dtype") == "float32" else 1.0
    return {"rel": 1e-9 * f, "abs": 1e-12 * f * 100 if f > 1 else 1e-12, "parseval": 1e-10 * f * 10 if f > 1 else 1e-10}


def _build64(c: dict) -> np.ndarray:
    shape = tuple(c["shape"])
    d = len(shape)
    idx = np.meshgrid(*[np.arange(n) for n in shape], indexing="ij")
    kind = c["kind"]
    if kind == "constant":
        return np.full(shape, float(c["value"]))
    if kind in ("noise", "constant+noise"):
        g = np.random.default_rng(c["seed"])
        return c["offset"] + c["amp"] * g.standard_normal(shape)
    if kind in ("wave", "waves"):
        out = np.full(shape, float(c["offset"]))
        for w in c["waves"]:
            ph = sum(TWO_PI * q * (i + 0.5) / n for q, i, n in zip(w["q"], idx, shape))
            out = out + w["amp"] * np.sin(ph + w["phase"])
        return out
    if kind == "droplets":
        ext = [n * hh for n, hh in zip(shape, c["h"])]
        lmin = min(ext)
        out = np.zeros(shape)
        for dr in c["drops"]:
            d2 = np.zeros(shape)
            for ax in range(d):
                x = (idx[ax] + 0.5) * c["h"][ax]
                dx = np.abs(x - dr["pos"][ax] * ext[ax])
                dx = np.minimum(dx, ext[ax] - dx)
                d2 = d2 + dx ** 2
            w = c["width"] * min(c["h"])
            out = out + 0.5 + 0.5 * np.tanh((dr["radius"] * lmin - np.sqrt(d2)) / w)
        return out
    raise ValueError(kind)


def make_grid(shape, h, origin, scale: float = 1.0, periodic=True):
    from pde import CartesianGrid
    return CartesianGrid([(scale * o, scale * (o + n * hh)) for n, hh, o in zip(shape, h, origin)],
                         [int(n) for n in shape], periodic=periodic)


def make_field(c: dict, data: np.ndarray | None = None, scale: float = 1.0, perm=None):
    """the field of a case (or of a variant of its data) on the case's grid, stretched / with permuted axes; the dtype of
    `data` is kept (ScalarField would otherwise convert to float64)"""
    from pde import ScalarField
    data = build(c) if data is None else data
    shape, h, origin = c["shape"], c["h"], c["origin"]
    periodic = c.get("periodic", [True] * len(shape))
    if perm is not None:
        shape, h, origin = [shape[p] for p in perm], [h[p] for p in perm], [origin[p] for p in perm]
        periodic = [periodic[p] for p in perm]
    return ScalarField(make_grid(shape, h, origin, scale, periodic), data, dtype=data.dtype)


def count_case(ctx, c: dict):
    """evidence histogram of the input dimensions of a generated case"""
    shape, h = c["shape"], c["h"]
    ctx.count("dim", len(shape))
    ctx.count("kind", c["kind"])
    ctx.count("parity", "".join("e" if s % 2 == 0 else "o" for s in shape))
    ctx.count("thinnest_axis_cells", min(shape) if min(shape) <= 2 else ">=3")
    ctx.count("cells_order", "1-d" if len(shape) == 1 else
              ("larger first" if shape[0] > shape[-1] else "larger last" if shape[0] < shape[-1] else "equal ends"))
    ctx.count("spacing_order", "1-d" if len(shape) == 1 else
              ("larger first" if h[0] > h[-1] else "larger last" if h[0] < h[-1] else "equal ends"))
    ctx.count("placement", c.get("place", "?"))
    per = c.get("periodic", [True] * len(shape))
    ctx.count("periodic_mask", "all" if all(per) else "none" if not any(per) else "".join("p" if p else "-" for p in per))
    ctx.count("dtype", c.get("dtype", "float64"))


def canon(c: dict):
    return json_safe(c)


def json_safe(o):
    if isinstance(o, dict):
        return {str(k): json_safe(v) for k, v in o.items()}
    if isinstance(o, (list, tuple)):
        return [json_safe(v) for v in o]
    if isinstance(o, (np.floating, np.integer)):
        return o.item()
    if isinstance(o, np.ndarray):
        return o.tolist()
    if isinstance(o, float) and not math.isfinite(o):
        return repr(o)
    return o


def quiet():
    logging.disable(logging.WARNING)
    warnings.simplefilter("ignore")


# ---------------------------------------------------------------------------------------------
# oracle models (Python mirrors of coq/Model/Spectrum.v) and their per-sample specification checks
# ---------------------------------------------------------------------------------------------
def int_freq(n: int) -> np.ndarray:
    """fft_int_freq of Proofs/SpectrumSF.v:  m if 2m < n else m - n"""
    m = np.arange(n)
    return np.where(2 * m < n, m, m - n)


def nw_model(sigma: float, xs: np.ndarray, ys: np.ndarray, q: np.ndarray) -> np.ndarray:
    """nw_smooth of Model/Spectrum.v in binary64"""
    q = np.atleast_1d(np.asarray(q, dtype=float))
    with np.errstate(under="ignore", over="ignore", invalid="ignore", divide="ignore"):
        w = np.exp(-(0.5 * sigma ** -2) * (xs[:, None] - q[None, :]) ** 2)
        ws = w.sum(axis=0)
        pos = ws > 0
        w[:, pos] /= ws[pos]
    return ys @ w


def check_fftn_spec(x: np.ndarray, rng: random.Random) -> list[str]:
    """The premises `dft_spec` on numpy's fftn for this sample; returns the names of failing premises."""
    bad = []
    N = x.size
    X = np.fft.fftn(x, norm="ortho")
    s2 = float(np.sum(x * x))
    nrm = math.sqrt(s2) if s2 > 0 else 1.0
    tol = 1e-12
    if abs(float(np.sum(np.abs(X) ** 2)) - s2) > tol * max(s2, 1e-300):
        bad.append("parseval")
    z = X.flat[0]
    if abs(z.real - float(np.sum(x)) / math.sqrt(N)) > tol * nrm * math.sqrt(N) or abs(z.imag) > tol * nrm:
        bad.append("zero_mode")
    c = rng.choice([-3.5, 0.125, 7.0, 1e3])
    if np.max(np.abs(np.abs(np.fft.fftn(c * x, norm="ortho")) ** 2 - c * c * np.abs(X) ** 2)) > tol * c * c * max(s2, 1e-300) * 4:
        bad.append("homogeneous")
    # cyclic shift: unimodular phase
    s = [rng.randrange(0, n) for n in x.shape]
    Y = np.fft.fftn(np.roll(x, s, axis=tuple(range(x.ndim))), norm="ortho")
    ph = np.ones(x.shape, dtype=complex)
    for ax, (n, sa) in enumerate(zip(x.shape, s)):
        e = np.exp(-2j * np.pi * np.arange(n) * sa / n)
        ph = ph * e.reshape([-1 if a == ax else 1 for a in range(x.ndim)])
    if np.max(np.abs(Y - X * ph)) > 100 * tol * nrm:
        bad.append("shift")
    # reflection x'(n) = x(-n mod N) along one axis  <->  X'(k) = X(-k mod N)
    ax = rng.randrange(x.ndim)
    refl = lambda a: np.roll(np.flip(a, axis=ax), 1, axis=ax)  # noqa: E731
    if np.max(np.abs(np.fft.fftn(refl(x), norm="ortho") - refl(X))) > 100 * tol * nrm:
        bad.append("reflect")
    # the mathematical definition (Model.Spectrum.dftc / dft_math), evaluated directly in O(N^2) on small arrays:
    # X_k = N^(-1/2) sum_n x_n exp(-2 pi i sum_a k_a n_a / N_a), mode by mode in C order
    if N <= 96:
        idx = np.indices(x.shape).reshape(x.ndim, -1)                      # (d, N) multi-indices in C order
        ph = sum(np.outer(idx[a], idx[a]) / x.shape[a] for a in range(x.ndim))
        direct = (np.exp(-2j * np.pi * ph) @ x.ravel()) / math.sqrt(N)
        if np.max(np.abs(direct - X.ravel())) > 100 * tol * nrm:
            bad.append("definition")
    if x.ndim > 1:
        p = list(range(x.ndim))
        i = rng.randrange(x.ndim - 1)
        p[i], p[i + 1] = p[i + 1], p[i]
        if np.max(np.abs(np.fft.fftn(np.transpose(x, p), norm="ortho") - np.transpose(X, p))) > 100 * tol * nrm:
            bad.append("axis_swap")
    return bad


def check_numpy_helpers(n: int, d: float) -> list[str]:
    bad = []
    if not np.array_equal(np.fft.fftfreq(n, d=d), int_freq(n) * (1.0 / (n * d))):
        bad.append("fftfreq")
    a, b = 0.37 * d, 5.0 * d
    ls = np.linspace(a, b, 128)
    mdl = a + np.arange(128) * ((b - a) / 127)
    if np.max(np.abs(ls - mdl)) > 1e-14 * abs(b):
        bad.append("linspace")
    return bad


# ---------------------------------------------------------------------------------------------
# the model of get_structure_factor assembled from the generated lines, and the property-text truth
# ---------------------------------------------------------------------------------------------
def model_raw(data: np.ndarray, disc, py: dict, consts: dict):
    """(k_list, sf_list) of Proofs/SpectrumSF.v evaluated in binary64 from the generated pieces"""
    norm = consts["norm"]
    F = np.fft.fftn(data, norm=norm) if norm is not None else np.fft.fftn(data)
    f1 = F.flat[consts["drop_first"]:]
    flat = data.ravel()
    sf = py["sf_norm"](absf=np.abs(f1), sumsq=np.dot(flat, flat))
    k2s = [py["k2_component"](n=int(n), h=float(hh)) for n, hh in zip(data.shape, disc)]
    from functools import reduce
    k = np.sqrt(reduce(np.add.outer, k2s)).flat[consts["drop_first_k"]:]
    return np.asarray(k), np.asarray(sf)


def truth_raw(data: np.ndarray, disc):
    """property text: power spectrum of the orthonormal DFT without the zero mode, divided by the squared
    norm; wave numbers 2 pi m' / (n h)"""
    X = np.fft.fftn(data, norm="ortho")
    sf = (np.abs(X) ** 2).ravel()[1:] / float(np.sum(data * data))
    comps = [TWO_PI * int_freq(n) / (n * hh) for n, hh in zip(data.shape, disc)]
    k2 = np.zeros(data.shape)
    for ax, comp in enumerate(comps):
        k2 = k2 + (comp ** 2).reshape([-1 if a == ax else 1 for a in range(data.ndim)])
    return np.sqrt(k2).ravel()[1:], sf


def model_tail(k, sf, on, auto, nowave, add_zero, smoothing, size_max, wave_numbers, py, consts):
    """gsf_tail as characterised by the lemmas of Proofs/SpectrumSmooth.v"""
    if on:
        sigma = py["sf_auto_smoothing"](k_max=k.max()) if auto else float(smoothing)
        if nowave:
            kq = np.linspace(py["sf_auto_k_min"](size_max=size_max), k.max(), consts["sf_auto_points"])
        else:
            kq = np.array(wave_numbers, dtype=float)
        k, sf = kq, nw_model(sigma, k, sf, kq)
    if add_zero:
        k, sf = np.r_[0, k], np.r_[1, sf]
    return k, sf


# ---------------------------------------------------------------------------------------------
# comparisons
# ---------------------------------------------------------------------------------------------
def close_arrays(a, b, rel=1e-9, abs_=1e-12) -> bool:
    a, b = np.asarray(a, dtype=float), np.asarray(b, dtype=float)
    if a.shape != b.shape:
        return False
    if not (np.all(np.isfinite(a)) and np.all(np.isfinite(b))):
        return False
    return bool(np.all(np.abs(a - b) <= rel * np.maximum(np.abs(a), np.abs(b)) + abs_))


def same_pairs(k1, s1, k2, s2, rel=1e-9, abs_sf=1e-12) -> bool:
    """(k, sf) pairs equal as multisets: sort by k, cluster k-values that agree to `rel`, compare the sorted
    sf-values cluster by cluster"""
    k1, s1, k2, s2 = (np.asarray(v, dtype=float) for v in (k1, s1, k2, s2))
    if k1.shape != k2.shape or s1.shape != s2.shape or k1.shape != s1.shape:
        return False
    if not all(np.all(np.isfinite(v)) for v in (k1, s1, k2, s2)):
        return False
    o1, o2 = np.argsort(k1, kind="stable"), np.argsort(k2, kind="stable")
    k1, s1, k2, s2 = k1[o1], s1[o1], k2[o2], s2[o2]
    kmax = max(float(np.max(np.abs(k1))) if k1.size else 0.0, 1e-300)
    if np.any(np.abs(k1 - k2) > rel * kmax):
        return False
    start = 0
    n = len(k1)
    for i in range(1, n + 1):
        if i == n or (k1[i] - k1[i - 1]) > 4 * rel * kmax:
            a, b = np.sort(s1[start:i]), np.sort(s2[start:i])
            if np.any(np.abs(a - b) > rel * np.maximum(np.abs(a), np.abs(b)) + abs_sf):
                return False
            start = i
    return True


# ---------------------------------------------------------------------------------------------
# known findings
# ---------------------------------------------------------------------------------------------
def known_entry(prop: str, call: str, method: str, failure: str, **attrs):
    """the `finding` entry of known_findings.json whose match predicate covers this failure, or None"""
    for e in vlib.load_known():
        if e.get("kind") != "finding" or e.get("property") != prop:
            continue
        m = e.get("match", {})
        if m.get("call") != call or m.get("method") != method:
            continue
        if failure not in m.get("failure", []):
            continue
        ok = True
        for key in ("smoothing", "grid", "condition"):
            if key in m:
                want = m[key] if isinstance(m[key], list) else [m[key]]
                if attrs.get(key) not in want:
                    ok = False
        if ok:
            return e
    return None


def load_models(ctx, fresh: bool = True):
    """Python-evaluable copies of the lines of the model the Coq side uses: the freshly generated one, or -- when the
    check fell back to the golden Coq text -- the golden one (the translator applied to the snapshot of the source the
    golden text was generated from, coq_golden/Gen_spectrum.golden_source.py).  (None, None) if unavailable."""
    import gen_spectrum
    try:
        return gen_spectrum.python_models() if fresh else gen_spectrum.golden_python_models()
    except Exception as e:  # noqa: BLE001
        ctx.notes.append(f"python models unavailable ({'fresh' if fresh else 'golden'}): {type(e).__name__}: {e}")
        return None, None


def sample_goal_shards(ctx, name: str, goals, unfold, nshards: int = 4) -> list[str]:
    """-> labels of the goals on which the Coq model and the implementation value disagree"""
    from concurrent.futures import ThreadPoolExecutor
    req = ("From Coq Require Import Reals List.\nImport ListNotations.\n"
           "From PD Require Import Model.Num Model.Spectrum Gen.Gen_spectrum.")
    goals0 = list(goals)
    finite = [g for g in goals if math.isfinite(g[2]) and math.isfinite(g[3])]
    for g in goals:
        if g not in finite:  # cannot be written as a Coq literal: the implementation value itself is the disagreement
            ctx.obligations += 1
            ctx.broken.append(f"translator sample goal {g[0]}: implementation value {g[2]!r} is not finite")
    goals = finite
    shards = [goals[i::nshards] for i in range(nshards)]
    shards = [s for s in shards if s]
    with ThreadPoolExecutor(len(shards) or 1) as ex:
        res = list(ex.map(lambda a: vlib.sample_goals(ctx, f"{name}_{a[0]}", req, a[1], unfold), enumerate(shards)))
    return [g[0] for g in goals0 if g not in finite] + [lbl for r in res for (lbl, _e, _v) in r]


# ---------------------------------------------------------------------------------------------
# the SEQUENCE dimension: results must not depend on earlier calls (module-level caches keyed on an aggregate)
# ---------------------------------------------------------------------------------------------
SEQ_KINDS = ["swapped spacings", "same mean spacing", "same volume", "same longest side", "same shape only"]


def collision_groups(rng: random.Random, n: int) -> list[dict]:
    """groups of two grids that share the shape and one aggregate of the geometry (mean spacing, volume, longest side,
    every symmetric function of the spacings, or nothing but the shape) but differ per axis; distinct groups have
    distinct shapes, so that only the members of one group can be confused with each other"""
    groups, shapes = [], set()
    while len(groups) < n:
        kind = SEQ_KINDS[len(groups) % len(SEQ_KINDS)]
        d = rng.choice([2, 2, 3])
        if kind == "swapped spacings":
            shape = [rng.randrange(4, 13)] * d
        else:
            shape = [rng.randrange(4, 13) for _ in range(d)]
        if tuple(shape) in shapes:
            continue
        shapes.add(tuple(shape))
        a = [math.ldexp(rng.randrange(4, 17), -2) for _ in range(d)]  # dyadic spacings 1 .. 4
        if len(set(a)) == 1:
            a[0] *= 2
        if kind == "swapped spacings":
            b = a[::-1] if a[::-1] != a else a[1:] + a[:1]
        elif kind == "same mean spacing":
            b = [sum(a) / d] * d
        elif kind == "same volume":
            b = [2 * a[0], a[1] / 2] + a[2:]
        elif kind == "same longest side":
            j = max(range(d), key=lambda i_: shape[i_] * a[i_])
            b = [x if i_ == j else x / 2 for i_, x in enumerate(a)]
        else:
            b = [x * rng.choice([0.5, 2.0, 3.0]) for x in a]
        if b == a:
            b = [2 * x for x in a]
        # the same data on both grids: two waves of different amplitude (a unique highest mode) on an offset
        waves = []
        for amp in (1.0, 0.4):
            q = [rng.randrange(-(m_ // 3), m_ // 3 + 1) for m_ in shape]
            if not any(q):
                q[rng.randrange(d)] = 1
            waves.append({"q": q, "amp": amp, "phase": rng.randrange(0, 64) / 10.0})
        members = [{"shape": shape, "h": h, "origin": [0.0] * d, "place": "origin", "periodic": [True] * d,
                    "dtype": "float64", "kind": "waves", "waves": waves, "offset": 0.3} for h in (a, b)]
        groups.append({"kind": kind, "members": members})
    return groups


def seq_calls(c: dict, family: str = "all") -> dict:
    """every observable of C16 / C17 for one case, as JSON-able lists (exceptions and wrong kinds as strings)"""
    from droplets.image_analysis import get_length_scale, get_structure_factor
    quiet()
    f = make_field(c)
    bin_ = TWO_PI / float(f.grid.cuboid.size.max())
    out = {}

    def rec(name, fn):
        if family != "all" and name.startswith("structure factor") != (family == "structure factor"):
            return
        try:
            v = fn()
            if isinstance(v, tuple):
                v = [np.asarray(x, dtype=float).tolist() for x in v]
            else:
                v = float(v)
        except Exception as e:  # noqa: BLE001
            v = f"raised {type(e).__name__}"
        out[name] = v

    rec("structure factor (unsmoothed)", lambda: get_structure_factor(f, smoothing=None))
    rec("structure factor (auto)", lambda: get_structure_factor(f))
    rec("structure factor (requested wave numbers, add_zero)",
        lambda: get_structure_factor(f, smoothing=0.5 * bin_, wave_numbers=[bin_, 2.5 * bin_], add_zero=True))
    rec("structure_factor_mean", lambda: get_length_scale(f, method="structure_factor_mean"))
    rec("structure_factor_maximum", lambda: get_length_scale(f, method="structure_factor_maximum"))
    rec("structure_factor_maximum (0.5 bins)", lambda: get_length_scale(f, method="structure_factor_maximum", smoothing=0.5 * bin_))
    rec("droplet_detection", lambda: get_length_scale(f, method="droplet_detection", threshold="extrema"))
    return out


def failing_calls() -> list[str]:
    """calls that raise (documented errors); the state afterwards must not influence later results"""
    from pde import PolarSymGrid, ScalarField
    from droplets.image_analysis import get_length_scale, get_structure_factor
    out = []
    f = ScalarField(PolarSymGrid(3, 4), 1.0)
    for fn in (lambda: get_structure_factor(f), lambda: get_structure_factor("not a field"),
               lambda: get_length_scale(ScalarField(make_grid([4, 4], [1.0, 1.0], [0.0, 0.0]), 1.0), method="no such method")):
        try:
            fn()
            out.append("no exception")
        except Exception as e:  # noqa: BLE001
            out.append(type(e).__name__)
    return out


def same_result(a, b) -> bool:
    """equality of two seq_calls entries: identical strings, or numbers / arrays equal up to 1e-12 (nan == nan)"""
    if isinstance(a, str) or isinstance(b, str):
        return a == b
    x, y = np.asarray(a, dtype=float), np.asarray(b, dtype=float)
    if x.shape != y.shape:
        return False
    both_nan = np.isnan(x) & np.isnan(y)
    with np.errstate(invalid="ignore"):
        close = (x == y) | (np.abs(x - y) <= 1e-12 * np.maximum(np.abs(x), np.abs(y)))
    return bool(np.all(both_nan | close))


def start_fresh_references(groups: list[dict], family: str = "all"):
    """one fresh interpreter per member position: process j evaluates member j of every group before any other grid
    of that group, i.e. in a state in which no grid sharing its aggregates has been seen (runs concurrently with the
    rest of the check)"""
    import json
    import subprocess
    import sys
    procs = []
    for j in range(2):
        order = [[g_, j] for g_ in range(len(groups))] + [[g_, 1 - j] for g_ in range(len(groups))]
        p = subprocess.Popen([sys.executable, __file__], stdin=subprocess.PIPE, stdout=subprocess.PIPE,
                             stderr=subprocess.DEVNULL, text=True)
        p.stdin.write(json.dumps({"groups": groups, "order": order, "family": family}))
        p.stdin.close()
        procs.append(p)
    return procs


def collect_fresh_references(procs, groups) -> tuple[dict, list]:
    """-> ({(group, member): results of the first evaluation in a fresh state}, [(group, member, call, later, first)]
    for members evaluated SECOND in a reference process whose result differs from the fresh one)"""
    import json
    outs = []
    for p in procs:
        txt = p.stdout.read()
        p.wait()
        outs.append(json.loads(txt) if p.returncode == 0 and txt.strip() else None)
    if any(o is None for o in outs):
        raise RuntimeError("reference interpreter failed")
    first, later = {}, {}
    for j, res in enumerate(outs):
        for g_ in range(len(groups)):
            first[(g_, j)] = res[f"{g_},{j}"]
            later[(g_, 1 - j)] = res[f"{g_},{1 - j}"]
    diffs = []
    for key, r in later.items():
        for call, v in r.items():
            if not same_result(v, first[key][call]):
                diffs.append((key[0], key[1], call, v, first[key][call]))
    return first, diffs


def sequence_oracle(ctx, rng: random.Random, groups: list[dict], procs, prop: str, family: str) -> list[dict]:
    """History independence: within this process the grids of each group are analysed interleaved (A, B, A again, calls
    that raise, B again); every result must equal the result of the same call made first in a fresh interpreter."""
    fails = []
    try:
        first, diffs = collect_fresh_references(procs, groups)
    except Exception as e:  # noqa: BLE001
        ctx.broken.append(f"sequence oracle: reference interpreters unavailable ({type(e).__name__}: {e})")
        return fails
    seen = set()

    def judge(g_, j, call, got, where):
        if (g_, call) in seen:
            return
        want = first[(g_, j)][call]
        if not same_result(got, want):
            seen.add((g_, call))
            grp = groups[g_]
            summ = (lambda v: v if not isinstance(v, list) else [x[:3] for x in v])
            fails.append({"what": f"{call}: the result depends on earlier calls in the same process "
                                  f"(grids sharing the shape and: {grp['kind']})", "method": call,
                          "input": {**canon(grp["members"][j]), "analysed_before": canon(grp["members"][1 - j])["h"],
                                    "schedule": where}, "got": json_safe(summ(got)), "want_fresh_state": json_safe(summ(want))})

    for g_, j, call, v, w in diffs:  # second evaluations inside the reference interpreters
        judge(g_, j, call, v, "fresh interpreter: the other grid of the group first, then this one")
    for g_, grp in enumerate(groups):
        order = [0, 1] if rng.random() < 0.5 else [1, 0]
        schedule = [(order[0], "first call"), (order[1], "after the other grid of the group"),
                    (order[0], "repeated after the other grid"), (None, "calls that raise"), (order[1], "repeated after failing calls")]
        for j, where in schedule:
            if j is None:
                ctx.count("sequence_failing_calls", ",".join(failing_calls()))
                continue
            res = seq_calls(grp["members"][j], family)
            ctx.case([prop, "sequence", grp["kind"], where, canon(grp["members"][j])])
            ctx.count("sequence_step", where)
            for call, v in res.items():
                judge(g_, j, call, v, where)
        ctx.count("sequence_group", grp["kind"])
    return fails


if __name__ == "__main__":  # reference interpreter of start_fresh_references
    import json
    import sys
    job = json.load(sys.stdin)
    res = {}
    for g_, j in job["order"]:
        res[f"{g_},{j}"] = seq_calls(job["groups"][g_]["members"][j], job.get("family", "all"))
    json.dump(res, sys.stdout)
