"""update_golden.py [names...]: write coq_golden/<Gen>.v = the text the translators produce from $VERIF_REPO (default
/repo).  A DEVELOPER tool: run it only on a tree on which every proof was checked over the fresh text; no check
ever writes these files.  (Gen_shapes / Gen_refine / Gen_refine_R / Gen_codec keep their golden text inside their
generator modules.)"""
import sys

import vlib
import gen

INLINE = {"Gen_shapes", "Gen_refine", "Gen_refine_R", "Gen_codec"}
vlib.GOLDEN_DIR.mkdir(exist_ok=True)
for name, fn in gen.GENERATORS.items():
    if name in INLINE or (sys.argv[1:] and name not in sys.argv[1:]):
        continue
    text = fn()
    p = vlib.GOLDEN_DIR / f"{name}.v"
    changed = not p.exists() or p.read_text() != text
    p.write_text(text)
    print(f"{name}: {'updated' if changed else 'unchanged'} ({len(text)} bytes)")
