"""mkdesigntable.py: regenerate the numeric table of DESIGN.md 5.0 (between the DESIGNTABLE markers) from evidence/*.json
(quick tier, default configuration).  The two text columns are kept here."""
import json, re

STRENGTH = {
 "C01": ("full for Cartesian grids of any dimension / periodicity mask (single droplets and emulsions, end to end with the executable labelling); radial grids full (volume clause for inner radius 0); cylindrical grids full for on-axis emulsions, periodic or not; partial: Q-to-R bridge of 'no candidate removed' is a remark, float rounding by correspondence", "F1 F13 F14 fixed; F19"),
 "C02": ("full for Cartesian grids end to end (labelling proved, unique); symmetric grids by-construction statements; periodic cylinders partial (F27, F29)", "F1 F5 F13 F14 F28 fixed; F27 F29"),
 "C03": ("full over reals for the generated profiles; D-layer roll / periodic image and sharp images on symmetric grids full; float knife-edge excluded", "F2 F3 fixed; F19"),
 "C04": ("partial: relative to the monitored optimiser spec; options / candidate object of the caller unchanged proved", "F10 F21 F23 F31 F32 F33 fixed; F20 F22 F24 F25"),
 "C05": ("partial: zero residual + identifiability (every dimension, known levels) proved, convergence measured", "F10 F13 F34 fixed"),
 "C06": ("full (incl. the time-code rule of append)", "F4 fixed"),
 "C07": ("full (overlap statements inside 'non-overlapping droplets per frame')", "-"),
 "C08": ("full relative to bit-exact store; n <= 10^6; int times within 2^53; no NaN radius", "F9 F26 fixed; F12"),
 "C09": ("partial: modelled call sites by theorem, rest by sweep", "F2-F6 F10 F23 F33 fixed; F20"),
 "C10": ("full (metrics of all grid families modelled as py-pde computes them)", "F30 F37 fixed"),
 "C11": ("full over reals", "-"),
 "C12": ("full over reals + definedness of every division / root + floating-point error bounds in the standard model (binary64 instance by Flocq)", "-"),
 "C13": ("2-d full (arbitrary mode lists); 3-d curvature full to first order for degree <= 4 relative to the radial-graph curvature formula (a definition); 3-d integrals partial", "F8a-c F15 fixed"),
 "C14": ("full", "-"),
 "C15": ("partial: run-to-run determinism observed only; schedule-independence incl. caller-visible options / candidates and worker count proved", "F17 F31 F32 fixed"),
 "C16": ("full for the mathematical DFT in any dimension (identities proved); relative to numpy computing that DFT up to rounding (checked per sample against the definition) and to the smoother model", "-"),
 "C17": ("partial for the peak method (refuted default smoothing = F7)", "F7 F16 F18"),
 "C18": ("full incl. Otsu", "F36 fixed"),
 "C19": ("full", "F3 fixed"),
 "C20": ("full for default-flag operations incl. constructors, clones, general slices, self-extension; aliasing operations documented", "F11 F35 fixed"),
}


def _kind(txt):
    out = []
    if "sig_forall_dec" in txt or "sig_not_dec" in txt or "functional_extensionality_dep" in txt:
        out.append("reals")
    if "Classical_Prop.classic" in txt:
        out.append("classic")
    if "PrimFloat" in txt or "Uint63" in txt:
        out.append("prim (interval)")
    return "+".join(out) or "closed"


def axioms(cov):
    per = {}
    for t in cov.get("trusted_base", []):
        m = re.search(r"Print Assumptions \(Properties/(\w+)\.v\): (.*)", t)
        if m:
            per[m.group(1)] = _kind(m.group(2))
    if not per:
        return "closed"
    if len(set(per.values())) == 1:
        return next(iter(per.values()))
    return "; ".join(f"{v} ({k}.v)" for k, v in per.items())


def main():
    rows = ["| id | theorems | obligations | axioms | cases | wall | strength of the claim | defects (Section 6) |", "|---|---|---|---|---|---|---|---|"]
    for n in range(1, 21):
        pid = f"C{n:02d}"
        e = json.load(open(f"/verif/evidence/{pid}.json"))
        c = e["coverage"]
        th = len(c.get("theorems", []))
        rows.append(f"| {pid} | {th} | {c['obligations']} | {axioms(c)} | {c['evaluations']} | {round(e['wall_s'])} s | {STRENGTH[pid][0]} | {STRENGTH[pid][1]} |")
    p = "/verif/DESIGN.md"
    s = open(p).read()
    a, b = "<!-- DESIGNTABLE -->", "<!-- /DESIGNTABLE -->"
    i, j = s.index(a) + len(a), s.index(b)
    s = s[:i] + "\n" + "\n".join(rows) + "\n" + s[j:]
    open(p, "w").write(s)


main()
