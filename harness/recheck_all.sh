#!/bin/bash
# recheck_all.sh [P]: re-run every stored seeded change (own check + the checks recorded in meta.json) and every
# behaviour-preserving refactoring against the current machinery, P at a time; then regenerate the DESIGN tables.
P=${1:-4}
cd /verif
ls seeded | grep -E '^C[0-9][0-9](-[0-9])?$' | while read n; do
  checks=$(python3 -c "
import json,sys
m=json.load(open('/verif/seeded/$n/meta.json')); print(' '.join(dict.fromkeys([c['check'] for c in m.get('checks',[])] or ['$n'[:3]])))")
  echo "./harness/seed_recheck.sh $n $checks > /var/tmp/recheck_$n.log 2>&1; echo $n \$(tail -1 /var/tmp/recheck_$n.log)"
done > /var/tmp/recheck_cmds.txt
xargs -P $P -I{} bash -c "{}" < /var/tmp/recheck_cmds.txt
