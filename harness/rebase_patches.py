"""rebase_patches.py: make sure every stored patch (seeded/*/patch.diff, seeded/harmless/*/patch.diff) applies to the
current /repo HEAD; where it does not, rebase it (find the /repo commit it applies to, commit it there, `git rebase`
onto HEAD) and store the result next to it as patch_rebased.diff.  Conflicts are reported, nothing is guessed."""
import glob, os, shutil, subprocess, sys

REPO, ROOT = "/repo", "/verif"
S = "/var/tmp/pd-rebase"


def sh(*a, cwd=S, check=False):
    return subprocess.run(a, cwd=cwd, capture_output=True, text=True, check=check)


def main():
    shutil.rmtree(S, ignore_errors=True)
    subprocess.run(["git", "clone", "-q", REPO, S], check=True)
    sh("git", "config", "user.email", "x@x"); sh("git", "config", "user.name", "x")
    commits = sh("git", "log", "--format=%H", "-n", "40").stdout.split()
    dirs = sorted(glob.glob(f"{ROOT}/seeded/C*")) + sorted(glob.glob(f"{ROOT}/seeded/harmless/*_*"))
    for d in dirs:
        orig = os.path.join(d, "patch.diff")
        if not os.path.exists(orig):
            continue
        cands = [p for p in (os.path.join(d, "patch_rebased.diff"), os.path.join(d, "patch_rebased_on_F30_fix.diff")) if os.path.exists(p)]
        sh("git", "checkout", "-q", "--detach", commits[0]); sh("git", "reset", "-q", "--hard")
        if any(sh("git", "apply", "--check", p).returncode == 0 for p in cands + [orig]):
            # prefer the original if it applies; drop stale rebased copies that no longer apply
            if sh("git", "apply", "--check", orig).returncode == 0 and os.path.exists(os.path.join(d, "patch_rebased.diff")):
                os.remove(os.path.join(d, "patch_rebased.diff"))
                print(os.path.basename(d), "original applies again; removed patch_rebased.diff")
            continue
        done = False
        for src in [orig] + cands:
            for c in commits:
                sh("git", "checkout", "-q", "--detach", c); sh("git", "reset", "-q", "--hard")
                if sh("git", "apply", "--check", src).returncode != 0:
                    continue
                sh("git", "apply", src); sh("git", "commit", "-qam", "p")
                r = sh("git", "rebase", commits[0])
                if r.returncode != 0:
                    sh("git", "rebase", "--abort")
                    print(os.path.basename(d), f"CONFLICT rebasing {os.path.basename(src)} from {c[:7]}")
                    break
                diff = sh("git", "diff", commits[0], "HEAD").stdout
                open(os.path.join(d, "patch_rebased.diff"), "w").write(diff)
                print(os.path.basename(d), f"rebased {os.path.basename(src)} from {c[:7]} onto {commits[0][:7]}")
                done = True
                break
            if done:
                break
        if not done:
            print(os.path.basename(d), "NOT REBASED")
    shutil.rmtree(S, ignore_errors=True)


main()
