#!/bin/bash
# seed_eval_one.sh <ID> <round>: first evaluation of the seeded change in /tmp/seed-<ID> as seeded/<ID>-<round>; one summary line
id=$1; r=$2; cd /verif
SEED_NAME=$id-$r ./harness/seed_eval.sh $id /tmp/seed-$id > /var/tmp/se_$id-$r.log 2>&1
python3 - "$id-$r" <<'PY'
import json,sys
n=sys.argv[1]
try:
    m=json.load(open(f'/verif/seeded/{n}/meta.json')); print(n, m['confirmed_by_lead'], m['checks'])
except Exception as e:
    print(n, 'ERR', e)
PY
