#!/bin/bash
# patch_eval.sh <patch> <tag> <checks...>: run checks against a scratch copy of /repo with <patch> applied; prints one line per check
set -u
P=$1; TAG=$2; shift 2
S=/var/tmp/pd-pe-$TAG; rm -rf $S; cp -r /repo $S
git -C $S apply $P || { echo "$TAG: patch does not apply"; rm -rf $S; exit 2; }
O=/var/tmp/pe-out-$TAG; rm -rf $O; mkdir -p $O
for c in "$@"; do
  (cd /verif; VERIF_REPO=$S VERIF_BUILD=/verif/build/pe_$TAG VERIF_EVIDENCE=$O/evidence VERIF_REPLAYS=$O/replays ./check $c > $O/check_$c.txt 2>&1); rc=$?
  echo "$TAG $c exit=$rc viol=$(grep -c '^VIOLATION' $O/check_$c.txt) noinput=$(grep -c 'no-failing-input-found' $O/check_$c.txt) fellback=$(grep -c translator_fell_back $O/evidence/$c.json 2>/dev/null)"
done
rm -rf $S /verif/build/pe_$TAG
