#!/bin/bash
# seed_eval.sh <ID> <worktree> [check ids...]: confirm a seeded breaking change and run the checks against it.
# Results go to /verif/seeded/<ID>/ (patch.diff, demo, meta.json with what was confirmed and which checks fired).
set -u
ID=$1; WT=$2; shift 2; CHECKS=${@:-$ID}
OUT=/verif/seeded/${SEED_NAME:-$ID}; mkdir -p $OUT
cp $WT/seed_patch.diff $OUT/patch.diff; cp $WT/seed_demo.py $OUT/demo.py; cp $WT/seed_meta.json $OUT/agent_meta.json
cd $WT
git checkout -q -- droplets && git apply seed_patch.diff || { echo "patch does not apply"; exit 2; }
TESTS=$(PYTHONPATH=$WT /venv/bin/python -m pytest -q -p no:cacheprovider --timeout=900 tests 2>&1 | grep -E "passed|failed" | tail -1)
PYTHONPATH=$WT /venv/bin/python seed_demo.py > $OUT/demo_with_patch.txt 2>&1; RC_WITH=$?
git apply -R seed_patch.diff
PYTHONPATH=$WT /venv/bin/python seed_demo.py > $OUT/demo_without_patch.txt 2>&1; RC_WITHOUT=$?
git apply seed_patch.diff
S=/var/tmp/pd-seed-${SEED_NAME:-$ID}; rm -rf $S; cp -r /repo $S; git -C $S apply $OUT/patch.diff || { echo "patch does not apply to /repo copy"; rm -rf $S; exit 2; }
cd /verif; RES=""
for c in $CHECKS; do
  VERIF_REPO=$S VERIF_BUILD=/verif/build/seed_$ID VERIF_EVIDENCE=$OUT/evidence VERIF_REPLAYS=$OUT/replays ./check $c > $OUT/check_$c.txt 2>&1; rc=$?
  nv=$(grep -c "^VIOLATION" $OUT/check_$c.txt); nf=$(grep -c "no-failing-input-found" $OUT/check_$c.txt)
  RES="$RES{\"check\":\"$c\",\"exit\":$rc,\"violation_lines\":$nv,\"without_failing_input\":$nf},"
done
rm -rf $S /verif/build/seed_$ID
python3 - "$OUT" "$ID" "$TESTS" "$RC_WITH" "$RC_WITHOUT" "[${RES%,}]" <<'PY'
import json,sys
out,pid,tests,rcw,rcwo,res=sys.argv[1:7]
am=json.load(open(out+"/agent_meta.json"))
meta={"property":pid,"summary":am.get("summary"),"needs":am.get("needs"),
 "confirmed_by_lead":{"existing_tests_with_patch":tests,"demo_exit_with_patch":int(rcw),"demo_exit_without_patch":int(rcwo)},
 "ran":"patch applied to a scratch copy of /repo (VERIF_REPO), ./check <id> --tier quick, scratch copy removed",
 "checks":json.loads(res)}
json.dump(meta,open(out+"/meta.json","w"),indent=1)
print(json.dumps(meta,indent=1))
PY
