"""Shared machinery of the /verif checks (see DESIGN.md section 3).

  * sync + regenerate: coq/ -> build/coq/, Gen/*.v regenerated from /repo's working tree
  * prove: make the dependencies, then `coqc Properties/<ID>.v` (captures Print Assumptions)
  * correspond: Cases/*.v files written by the property module, evaluated by coqc (vm_compute)
  * decide: VIOLATION / KNOWN-FINDING lines, replay files, evidence
"""
from __future__ import annotations

import fcntl
import hashlib
import json
import os
import re
import shutil
import subprocess
import sys
import time
from fractions import Fraction
from pathlib import Path

ROOT = Path("/verif")
COQ_SRC = ROOT / "coq"
BUILD = Path(os.environ.get("VERIF_BUILD", str(ROOT / "build")))
COQ_BUILD = BUILD / "coq"
REPO = Path(os.environ.get("VERIF_REPO", "/repo"))
EVIDENCE = Path(os.environ.get("VERIF_EVIDENCE", str(ROOT / "evidence")))
REPLAYS = Path(os.environ.get("VERIF_REPLAYS", str(ROOT / "replays")))
KNOWN = ROOT / "known_findings.json"
NPROC = int(os.environ.get("VERIF_JOBS", "16"))

# Axioms that may appear under Print Assumptions (all declared by the standard library or by
# libraries shipped with the sandbox; none declared by this development).  DESIGN.md section 7.
ALLOWED_AXIOMS = {
    "ClassicalDedekindReals.sig_forall_dec",
    "ClassicalDedekindReals.sig_not_dec",
    "FunctionalExtensionality.functional_extensionality_dep",
    "Classical_Prop.classic",
    "functional_extensionality_dep",
    "sig_forall_dec",
    "sig_not_dec",
    "classic",
    "Eqdep.Eq_rect_eq.eq_rect_eq",
    "ProofIrrelevance.proof_irrelevance",
    "JMeq.JMeq_eq",
}
ALLOWED_PREFIXES = ("PrimInt63.", "Uint63.", "PrimFloat.", "FloatAxioms.", "Sint63.", "Uint63Axioms.",
                    "CarryType.", "PrimArray.", "Int63.")

FORBIDDEN = re.compile(r"\b(Admitted|admit|Axiom|Axioms|Parameter|Parameters|Conjecture|Conjectures)\b"
                       r"|Unset\s+Guard|bypass_check|type-in-type|Admit\s+Obligations|impredicative-set"
                       r"|Unset\s+Universe\s+Checking|Unset\s+Positivity")


class Ctx:
    """Per-run context handed to the property modules."""

    def __init__(self, pid: str, tier: str, seed: int):
        self.pid, self.tier, self.seed = pid, tier, seed
        self.t0 = time.time()
        self.obligations = 0
        self.discharged = 0
        self.broken: list[str] = []  # names of obligations / correspondences that no longer check
        self.checker_cmds: list[str] = []
        self.axioms: dict[str, list[str]] = {}
        self.evaluations = 0
        self.distinct = set()
        self.samples: list = []
        self.hist: dict[str, dict] = {}
        self.notes: list[str] = []
        self.violations: list[dict] = []  # {"what":..., "input":..., "found": bool}
        self.known_printed: list[str] = []
        self.tie: list[str] = []
        self.extra: dict = {}
        self.casedir = BUILD / "cases" / pid
        self.quick = tier == "quick"

    # -- bookkeeping -------------------------------------------------------------------
    def count(self, key: str, val, n: int = 1):
        self.hist.setdefault(key, {})
        k = str(val)
        self.hist[key][k] = self.hist[key].get(k, 0) + n

    def case(self, canon, nontrivial: bool = True):
        self.evaluations += 1
        if nontrivial:
            self.distinct.add(hashlib.sha1(json.dumps(canon, sort_keys=True, default=str).encode()).hexdigest())

    def sample(self, s, limit: int = 6):
        if len(self.samples) < limit:
            self.samples.append(s)

    def scale(self, quick: int, thorough: int) -> int:
        return quick if self.quick else thorough


# ---------------------------------------------------------------------------------------
# build
# ---------------------------------------------------------------------------------------
def run(cmd, timeout, cwd=None, env=None, input=None):
    try:
        p = subprocess.run(cmd, cwd=cwd, env=env, input=input, capture_output=True, text=True, timeout=timeout)
        return p.returncode, p.stdout, p.stderr
    except subprocess.TimeoutExpired as e:
        return 124, (e.stdout or b"").decode() if isinstance(e.stdout, bytes) else (e.stdout or ""), "TIMEOUT"


def _write_if_changed(path: Path, text: str) -> bool:
    if path.exists() and path.read_text() == text:
        return False
    path.parent.mkdir(parents=True, exist_ok=True)
    path.write_text(text)
    return True


class BuildLock:
    def __enter__(self):
        BUILD.mkdir(parents=True, exist_ok=True)
        self.f = open(BUILD / ".lock", "w")
        fcntl.flock(self.f, fcntl.LOCK_EX)
        return self

    def __exit__(self, *a):
        fcntl.flock(self.f, fcntl.LOCK_UN)
        self.f.close()


_KEEP_GOLDEN = False


def sync_and_generate(gens: list[str] | None = None) -> dict[str, str]:
    """rsync coq/ to build/coq/, regenerate Gen/*.v from the current /repo tree.

    Returns {generator name: error text} for generators that failed closed."""
    import gen as genmod
    errors: dict[str, str] = {}
    COQ_BUILD.mkdir(parents=True, exist_ok=True)
    rc, out, err = run(["rsync", "-a", "--delete", "--exclude", "Gen/", "--exclude", "*.vo", "--exclude", "*.vok",
                        "--exclude", "*.vos", "--exclude", "*.glob", "--exclude", ".*.aux", "--exclude", "Makefile*",
                        "--exclude", ".Makefile*", "--exclude", "_CoqProject", "--exclude", ".lia.cache",
                        "--exclude", ".nia.cache",
                        str(COQ_SRC) + "/", str(COQ_BUILD) + "/"], 120)
    if rc != 0:
        raise RuntimeError("rsync failed: " + err)
    (COQ_BUILD / "Gen").mkdir(exist_ok=True)
    for name, fn in genmod.GENERATORS.items():
        marker = COQ_BUILD / "Gen" / f".golden_{name}"
        if gens is not None and name not in gens:
            # still make sure a file exists so that _CoqProject is complete; a golden text left behind by an
            # earlier fallback (prove_with_fallback) is never reused silently by another check
            if not (COQ_BUILD / "Gen" / f"{name}.v").exists() or (marker.exists() and not _KEEP_GOLDEN):
                had_golden = marker.exists()
                marker.unlink(missing_ok=True)
                try:
                    _write_if_changed(COQ_BUILD / "Gen" / f"{name}.v", fn())
                except Exception as e:  # noqa
                    if had_golden:
                        _write_if_changed(COQ_BUILD / "Gen" / f"{name}.v",
                                          f"(* translator failed closed: {str(e)[:200].replace('*)', '* )')} *)\n"
                                          "Definition translator_failed : True := tt tt.\n")
            continue
        marker.unlink(missing_ok=True)
        try:
            text = fn()
        except Exception as e:  # fail closed
            errors[name] = f"{type(e).__name__}: {e}"
            # leave a file that does not compile so that dependent proofs cannot go through
            _write_if_changed(COQ_BUILD / "Gen" / f"{name}.v",
                              f"(* translator failed closed: {str(e)[:200].replace('*)', '* )')} *)\n"
                              "Definition translator_failed : True := tt tt.\n")
            continue
        _write_if_changed(COQ_BUILD / "Gen" / f"{name}.v", text)
    # _CoqProject listing every .v file
    files = sorted(str(p.relative_to(COQ_BUILD)) for p in COQ_BUILD.rglob("*.v")
                   if "Cases" not in p.parts)
    proj = (COQ_SRC / "_CoqProject.in").read_text() + "\n".join(files) + "\n"
    if _write_if_changed(COQ_BUILD / "_CoqProject", proj) or not (COQ_BUILD / "Makefile").exists():
        rc, out, err = run(["coq_makefile", "-f", "_CoqProject", "-o", "Makefile"], 60, cwd=COQ_BUILD)
        if rc != 0:
            raise RuntimeError("coq_makefile failed: " + err)
    return errors


def _killed(rc: int, text: str) -> bool:
    """the process was killed from outside (kernel OOM killer, SIGKILL) rather than failing on its own: no Coq error"""
    if "Error:" in text:
        return False
    return rc in (137, -9, 134, -6) or (rc not in (0, 124) and not text.strip()) or "Killed" in text or "Error 137" in text


def make(targets: list[str], timeout: int = 1500) -> tuple[bool, str]:
    """`make -k` of the targets.  A build whose compiler processes were killed from outside (memory pressure on a shared
    machine) or that timed out while the machine is overloaded is retried with fewer jobs: such an event says nothing
    about the proofs (a genuine Coq error always prints `Error:` and is never retried)."""
    jobs = NPROC
    log = ""
    for attempt in range(3):
        cmd = ["make", f"-j{jobs}", "-k"] + targets
        rc, out, err = run(["timeout", str(timeout)] + cmd, timeout + 30, cwd=COQ_BUILD)
        log = out + err
        if rc == 0:
            return True, log
        overloaded = os.getloadavg()[0] > 2 * NPROC
        if not (_killed(rc, log) or (rc == 124 and overloaded)):
            return False, log
        time.sleep(10 * (attempt + 1))
        jobs = max(2, jobs // 2)
    return False, log


def coqc(path: Path, timeout: int = 600, extra: list[str] | None = None) -> tuple[int, str]:
    cmd_tail = ["coqc", "-R", str(COQ_BUILD), "PD", "-w",
                "-notation-overridden,-deprecated-hint-without-locality,-deprecated-instance-without-locality,-ambiguous-paths"]
    cmd_tail += (extra or []) + [str(path)]
    rc, text = 1, ""
    for attempt in range(3):
        t = timeout * (2 if attempt else 1)
        rc, out, err = run(["timeout", str(t)] + cmd_tail, t + 30, cwd=path.parent)
        text = out + err
        if rc == 0:
            break
        overloaded = os.getloadavg()[0] > 2 * NPROC
        if not (_killed(rc, text) or (rc == 124 and overloaded and attempt == 0)):
            break
        time.sleep(5 * (attempt + 1))  # killed from outside / overloaded machine: says nothing about the file
    return rc, text


def grep_forbidden() -> list[str]:
    bad = []
    for p in list(COQ_SRC.rglob("*.v")) + list((COQ_BUILD / "Gen").glob("*.v")):
        txt = p.read_text()
        txt = re.sub(r"\(\*.*?\*\)", "", txt, flags=re.S)
        for m in FORBIDDEN.finditer(txt):
            bad.append(f"{p}: {m.group(0)}")
    return bad


def parse_assumptions(output: str) -> tuple[list[str], list[str]]:
    """Return (all axiom names listed by Print Assumptions, those not on the allow-list)."""
    names = []
    in_ax = False
    for line in output.splitlines():
        if line.startswith("Axioms:"):
            in_ax = True
            continue
        if line.startswith("Closed under the global context"):
            in_ax = False
            continue
        if not in_ax:
            continue
        if not line or line[0] in " \t":
            continue  # continuation of a type
        if line.startswith(("File ", "Warning", "New coercion", "[", "=")):
            in_ax = False
            continue
        m = re.match(r"^([A-Za-z_][\w.']*)\s*(:.*)?$", line)
        if m:
            names.append(m.group(1))
        else:
            in_ax = False
    names = sorted(set(names))
    bad = [n for n in names if n not in ALLOWED_AXIOMS and not n.startswith(ALLOWED_PREFIXES)
           and n.split(".")[-1] not in {"sig_forall_dec", "sig_not_dec", "functional_extensionality_dep", "classic",
                                        "eq_rect_eq", "proof_irrelevance", "JMeq_eq"}]
    return names, bad


def prove(ctx: Ctx, deps: list[str], prop_file: str | None = None, gens: list[str] | None = None,
          timeout: int = 1500) -> bool:
    """Regenerate, build `deps` (.vo targets), then compile Properties/<ID>.v.  Records
    obligations / discharged / axioms in ctx.  Returns True iff every obligation checked."""
    prop_file = prop_file or f"Properties/{ctx.pid}.v"
    with BuildLock():
        gen_err = sync_and_generate(gens)
        for g, e in gen_err.items():
            if gens is None or g in gens:
                ctx.notes.append(f"translator failed closed on {g}: {e}")
        bad = grep_forbidden()
        if bad:
            ctx.broken.append("forbidden construct in development: " + "; ".join(bad[:5]))
        ok, log = make(deps, timeout)
        ctx.checker_cmds.append(f"cd build/coq && make -j{NPROC} " + " ".join(deps))
        src = (COQ_BUILD / prop_file).read_text()
        theorems = re.findall(r"^\s*(?:Theorem|Lemma|Corollary)\s+([\w']+)", src, flags=re.M)
        ctx.obligations += len(theorems)
        if not ok:
            errs = re.findall(r'File "([^"]+)", line (\d+).*?\n(Error:.*?)(?:\n\n|\Z)', log, flags=re.S)
            msg = "; ".join(f"{f}:{l}: {' '.join(e.split())[:200]}" for f, l, e in errs[:4]) or log[-600:]
            ctx.broken.append(f"proof dependencies of {prop_file} do not build: {msg}")
            ctx.extra["build_log_tail"] = log[-1500:]
            return False
        rc, out = coqc(COQ_BUILD / prop_file, timeout=600)
        ctx.checker_cmds.append(f"coqc -R build/coq PD build/coq/{prop_file}")
        if rc != 0:
            ctx.broken.append(f"{prop_file} does not compile: {' '.join(out.split())[-400:]}")
            return False
        names, badax = parse_assumptions(out)
        ctx.axioms[prop_file] = names
        if badax:
            ctx.broken.append(f"{prop_file}: assumptions outside the allow-list: {badax}")
            return False
        if bad:
            return False
        ctx.discharged += len(theorems)
        ctx.extra.setdefault("theorems", []).extend(theorems)
    return True


GOLDEN_DIR = ROOT / "coq_golden"


def golden_text(name: str) -> str | None:
    """Golden copy of a generated file: the text the translator produced from the tree on which the proofs were
    developed (written by harness/update_golden.py, committed, never written by a check)."""
    p = GOLDEN_DIR / f"{name}.v"
    if p.exists():
        return p.read_text()
    try:  # the three generators that carry their golden text inside the module
        import gen  # noqa: F401
        if name == "Gen_shapes":
            import gen_shapes
            return gen_shapes.GOLDEN
        if name == "Gen_refine":
            import gen_refine
            return gen_refine.GOLDEN
        if name == "Gen_refine_R":
            import gen_refine
            return gen_refine.GOLDEN_R
        if name == "Gen_codec":
            import gen_codec
            return gen_codec.golden()
    except Exception:  # noqa
        return None
    return None


def prove_with_fallback(ctx: Ctx, deps: list[str], gens: list[str], prop_file: str | None = None,
                        timeout: int = 1500) -> tuple[bool, bool]:
    """-> (every obligation checked, over the freshly generated text?).

    First the theorems are checked over the model regenerated from the current source (tie = translator).  When the
    translator does not recognise the current source (fails closed) or the fresh text no longer supports the proof
    scripts, the theorems are re-checked over the GOLDEN model instead; the golden model is then a hand-kept model
    in the sense of the brief and the tie to the code is the property's correspondence run (DESIGN.md 2.2), which
    the caller must execute at full strength and which must agree: ctx.extra["translator_fell_back"] is set and the
    caller has to treat every correspondence disagreement as a violation with that input as the replay."""
    nb, ob, dc = len(ctx.broken), ctx.obligations, ctx.discharged
    nn = len(ctx.notes)
    ok = prove(ctx, deps, prop_file=prop_file, gens=gens, timeout=timeout)
    if ok:
        ctx.tie.append("translator (" + ", ".join(gens) + " regenerated from the current source; proofs over the fresh text)")
        diff = []
        for g in gens:
            gt = golden_text(g)
            f = COQ_BUILD / "Gen" / f"{g}.v"
            if gt is not None and f.exists() and f.read_text() != gt:
                diff.append(g)
        if diff:
            ctx.notes.append(", ".join(diff) + " differ(s) textually from the golden copy; the proofs hold over the fresh text")
        return True, True
    first = ctx.broken[nb:]
    if any(b.startswith("forbidden construct") or "assumptions outside" in b for b in first):
        return False, True
    texts = {g: golden_text(g) for g in gens}
    if any(t is None for t in texts.values()):
        return False, True
    del ctx.broken[nb:]
    ctx.obligations, ctx.discharged = ob, dc
    why = [n for n in ctx.notes[nn:] if n.startswith("translator failed closed")]
    ctx.notes.append("fresh generated text does not support the proofs -> golden model (" + ", ".join(gens) + "): "
                     + " | ".join(why + first)[:700])
    ctx.extra["fresh_text_failure"] = (why + first)[:4]
    global _KEEP_GOLDEN
    with BuildLock():
        for g, t in texts.items():
            _write_if_changed(COQ_BUILD / "Gen" / f"{g}.v", t)
            (COQ_BUILD / "Gen" / f".golden_{g}").write_text("golden text in use\n")
    _KEEP_GOLDEN = True
    try:
        ok2 = prove(ctx, deps, prop_file=prop_file, gens=[], timeout=timeout)
    finally:
        _KEEP_GOLDEN = False
    ctx.tie.append("correspondence (the translator did not carry the current source; theorems re-checked over the golden "
                   "model, which the correspondence run ties to the implementation)")
    ctx.extra["translator_fell_back"] = True
    return ok2, False


# ---------------------------------------------------------------------------------------
# correspondence: Cases files evaluated inside Coq
# ---------------------------------------------------------------------------------------
def qlit(x) -> str:
    """Exact Coq Q literal of a Python float/int/Fraction."""
    fr = Fraction(x)
    return f"({fr.numerator} # {fr.denominator})"


def zlit(n: int) -> str:
    return f"({int(n)})%Z"


def blit(b) -> str:
    return "true" if b else "false"


def listlit(items, f=str) -> str:
    return "[" + "; ".join(f(i) for i in items) + "]"


def run_cases(ctx: Ctx, name: str, header: str, cases: list[str], agree_fn: str, shard: int = 300,
              timeout: int = 900) -> list[int]:
    """Write shards `Cases/<name>_<k>.v`; each holds `Definition cases := [c0; c1; ...]` and
    evaluates, inside Coq, the indices on which `agree_fn case` is false.  Returns the global
    indices of disagreeing cases (expected: []).  A shard that fails to compile counts as a
    disagreement of all its cases (recorded in ctx.broken)."""
    d = ctx.casedir
    d.mkdir(parents=True, exist_ok=True)
    for old in d.glob(f"{name}_*"):
        old.unlink()
    files = []
    for k in range(0, len(cases), shard):
        chunk = cases[k:k + shard]
        body = header + "\nDefinition cases := [\n  " + ";\n  ".join(chunk) + "\n].\n"
        body += (f"Definition bad := map fst (filter (fun ic => negb ({agree_fn} (snd ic))) "
                 f"(combine (seq 0 (length cases)) cases)).\n")
        body += "Eval vm_compute in bad.\n"
        p = d / f"{name}_{k // shard}.v"
        p.write_text(body)
        files.append((k, p, len(chunk)))
    bad: list[int] = []

    def one(args):
        k, p, n = args
        rc, out = coqc(p, timeout=timeout)
        return k, p, n, rc, out

    from concurrent.futures import ThreadPoolExecutor
    with ThreadPoolExecutor(max_workers=NPROC) as ex:
        for k, p, n, rc, out in ex.map(one, files):
            if rc != 0:
                ctx.broken.append(f"correspondence shard {p.name} failed to evaluate: {' '.join(out.split())[-300:]}")
                bad.extend(range(k, k + n))
                continue
            m = re.search(r"=\s*\[(.*?)\]\s*:\s*list nat", out, flags=re.S)
            if not m:
                ctx.broken.append(f"correspondence shard {p.name}: unparsable output {out[-200:]!r}")
                bad.extend(range(k, k + n))
                continue
            txt = m.group(1).strip()
            if txt:
                bad.extend(k + int(t.replace("%nat", "").strip()) for t in txt.split(";"))
    ctx.checker_cmds.append(f"coqc -R build/coq PD build/cases/{ctx.pid}/{name}_*.v   ({len(files)} shard(s), vm_compute)")
    return sorted(bad)


# ---------------------------------------------------------------------------------------
# decision, known findings, evidence
# ---------------------------------------------------------------------------------------
def load_known() -> list[dict]:
    if KNOWN.exists():
        return json.loads(KNOWN.read_text())["entries"]
    return []


def write_replay(pid: str, obj: dict) -> str:
    REPLAYS.mkdir(exist_ok=True)
    blob = json.dumps(obj, sort_keys=True, default=str, indent=1)
    h = hashlib.sha1(blob.encode()).hexdigest()[:12]
    p = REPLAYS / f"{pid}_{h}.json"
    p.write_text(blob)
    return str(p)


def finish(ctx: Ctx, level_text: str, trusted: list[str], assumptions: list[str], rule: str,
           exhaustive: bool = False) -> int:
    """Print VIOLATION / KNOWN-FINDING lines, write evidence, return the exit code."""
    code = 0
    nviol = 0
    for v in ctx.violations:
        replay = write_replay(ctx.pid, {"property": ctx.pid, **v})
        tail = "" if v.get("found", True) else " no-failing-input-found"
        print(f"VIOLATION property={ctx.pid} replay={replay}{tail}")
        nviol += 1
        code = 1
    if ctx.broken and not ctx.violations:
        # an obligation or a correspondence no longer checks but the search found no failing input
        replay = write_replay(ctx.pid, {"property": ctx.pid, "found": False, "no_longer_checks": ctx.broken,
                                        "notes": ctx.notes})
        print(f"VIOLATION property={ctx.pid} replay={replay} no-failing-input-found")
        nviol += 1
        code = 1
    for k in ctx.known_printed:
        print(f"KNOWN-FINDING: property={ctx.pid} {k}")
    cov = {
        "obligations": ctx.obligations,
        "discharged": ctx.discharged,
        "checker_cmd": " && ".join(ctx.checker_cmds) or "none",
        "trusted_base": trusted + [f"axioms under Print Assumptions ({f}): " + (", ".join(a) if a else "none (closed under the global context)")
                                   for f, a in ctx.axioms.items()],
        "evaluations": ctx.evaluations,
        "distinct_nontrivial": len(ctx.distinct),
        "rule": rule,
        "samples": ctx.samples or ["(no correspondence cases in this run)"],
        "exhaustive": exhaustive,
        "input_distribution": ctx.hist,
        "tie": ctx.tie,
        "theorems": ctx.extra.get("theorems", []),
        "broken": ctx.broken,
        "notes": ctx.notes,
        "known_findings_reported": ctx.known_printed,
    }
    for k, v in ctx.extra.items():
        if k not in cov:
            cov[k] = v
    if ctx.discharged == 0:
        # schema: a proof-level file needs discharged >= 1; a run in which nothing was discharged
        # reports the counts under other names (and is a violation run anyway)
        cov["obligations_total"] = cov.pop("obligations")
        cov["discharged_total"] = cov.pop("discharged")
    ev = {
        "property_id": ctx.pid,
        "tier": ctx.tier,
        "seed": ctx.seed,
        "level": "proof",
        "coverage": cov,
        "assumptions": assumptions,
        "wall_s": round(time.time() - ctx.t0, 2),
        "violations": nviol,
    }
    EVIDENCE.mkdir(exist_ok=True)
    (EVIDENCE / f"{ctx.pid}.json").write_text(json.dumps(ev, indent=1, default=str))
    print(f"[{ctx.pid}] tier={ctx.tier} obligations={ctx.obligations} discharged={ctx.discharged} "
          f"cases={ctx.evaluations} distinct={len(ctx.distinct)} violations={nviol} wall={ev['wall_s']}s")
    return code


# ---------------------------------------------------------------------------------------
# translator validation: interval-arithmetic sample goals (DESIGN.md 2.2 T)
# ---------------------------------------------------------------------------------------
def rlit(x) -> str:
    """Exact Coq R term of a Python float/int."""
    fr = Fraction(x)
    if fr.denominator == 1:
        return f"({fr.numerator})" if fr.numerator < 0 else f"{fr.numerator}"
    return f"({fr.numerator} / {fr.denominator})"


def sample_goals(ctx: Ctx, name: str, requires: str, goals: list[tuple[str, str, float, float]],
                 unfold: list[str], timeout: int = 900) -> list[tuple[str, str, float]]:
    """goals: (label, coq real expression, value computed by the implementation, abs tolerance).
    Each becomes  Lemma s_i : Rabs (expr - value) <= tol.  closed by `sample_tac` (interval).
    Returns the goals that could not be closed."""
    d = ctx.casedir
    d.mkdir(parents=True, exist_ok=True)
    failed: list[int] = []
    skip: set[int] = set()
    p = d / f"Samples_{name}.v"
    unf = ("unfold " + ", ".join(unfold) + ". ") if unfold else ""
    for _round in range(6):
        lines = [requires, "From PD Require Import Model.Samples.", "Local Open Scope R_scope.", ""]
        index_of_line = {}
        for i, (label, expr, val, tol) in enumerate(goals):
            if i in skip:
                continue
            index_of_line[sum(x.count("\n") + 1 for x in lines) + 1] = i
            lines.append(f"Lemma s_{i} : Rabs ({expr} - {rlit(val)}) <= {rlit(tol)}. "
                         f"Proof. {unf}sample_tac. Qed.")
        p.write_text("\n".join(lines) + "\n")
        rc, out = coqc(p, timeout=timeout)
        if rc == 0:
            break
        m = re.search(r'line (\d+), characters', out)
        if not m or int(m.group(1)) not in index_of_line:
            ctx.broken.append(f"sample goals {name}: cannot evaluate: {' '.join(out.split())[-300:]}")
            return [(g[0], g[1], g[2]) for g in goals]
        i = index_of_line[int(m.group(1))]
        failed.append(i)
        skip.add(i)
    ctx.obligations += len(goals)
    ctx.discharged += len(goals) - len(failed)
    ctx.checker_cmds.append(f"coqc -R build/coq PD build/cases/{ctx.pid}/Samples_{name}.v   ({len(goals)} interval goals)")
    for i in failed:
        ctx.broken.append(f"translator sample goal {goals[i][0]}: generated model and implementation differ "
                          f"(implementation value {goals[i][2]!r})")
    return [(goals[i][0], goals[i][1], goals[i][2]) for i in failed]
