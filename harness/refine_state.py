"""Input dimension 8 ("state kept between calls") for C04 / C05: SEQUENCES of refine_droplet / refine_droplets /
locate_droplets(refine=True) calls within one process on SHARED objects (one grid object, fields on it, candidate objects,
one option dict), judged against a fresh-state reference: the same call made FIRST in a fresh interpreter.

Two reference interpreters run concurrently with the check (started before the other streams): interpreter 0 evaluates the
inputs of every session in the order A-inputs, then B-input; interpreter 1 in the opposite order.  The reference of an input is
the result of the interpreter that met it before the other image of the session; the two interpreters must also agree with each
other (a difference means that the result depends on what was evaluated before -- reported with the order).

What a session checks (each a failure of class "state: ..." with the session as input):
  * every result equals the fresh-state reference bit for bit (same call twice; A, B, A alternately with two images that share
    grid object, shape, data type, intensity levels and number of droplets but differ in content; after a call that raised;
    with fresh equal objects at the end);
  * the field arrays, the candidate objects, the option dict(s) and the grid's arrays (cell coordinates, axes, volumes) are the
    same bytes after every call as before the first;
  * results kept alive together do not change when later calls run, nor when another result is modified in place;
  * refine_droplets with the candidates as list / tuple / Emulsion / one-shot generator for num_processes 1 and 2 returns the
    per-candidate references in order and leaves the container as it was.
"""
from __future__ import annotations

import copy
import json
import random
import subprocess
import sys

import numpy as np

import refine_common as rc

CONTAINERS = ["list", "tuple", "Emulsion", "generator"]
FAILING = ["wrong_dimension", "constant_image_fitted_levels", "method_lm_with_bounds"]


# =========================================================================================
# generators
# =========================================================================================
def _levels(rng: random.Random, isp: dict, k: int):
    a, b = isp["a"], isp["b"]
    gv, gx, adj = rc.OPTION_GRID[k % 8]
    return (b if gv else None), (a + b if gx else None), adj


def gen_refine_session(rng: random.Random, k: int) -> dict:
    """one grid, two images A / B on it (same shape, data type, levels, one droplet each; different droplet), candidates
    cA, cA2 (for A) and cB (same class and mode count), one set of options"""
    fam = ["cart2", "cart1", "polar", "cylindrical", "cart2", "cart3", "spherical", "cart2"][k % 8]
    gs = rc.gen_grid(rng, fam)
    cl = [c for c in rc.classes_for(fam) if not (fam == "cylindrical" and c == "PerturbedDroplet3D")]
    cls = cl[(k // 2) % len(cl)]
    modes = rng.choice([1, 2, 3]) if cls.startswith("Perturbed") else 0
    tcls = cls if cls != "SphericalDroplet" else "DiffuseDroplet"
    kind = ["clean", "affine", "noisy"][k % 3]
    tA = rc.gen_truth(rng, gs, tcls, modes)
    tB = rc.gen_truth(rng, gs, tcls, modes)
    ispA = rc.gen_image_spec(rng, tA, kind)
    ispB = dict(copy.deepcopy(ispA), truth=[tB])          # same a, b, sigma, noise seed: only the droplet differs
    cA = rc.gen_candidate(rng, gs, tA, cls, modes, across=False, tiny=False)
    cA2 = copy.deepcopy(cA)
    cA2["radius"] = cA["radius"] * rng.choice([0.9, 1.1])
    cB = rc.gen_candidate(rng, gs, tB, cls, modes, across=False, tiny=False)
    cB["width"] = cA.get("width") if "width" in cA else None
    if "width" not in cA:
        cB.pop("width", None)
    vmin, vmax, adj = _levels(rng, ispA, k // 3)
    sess = {"grid": gs, "A": ispA, "B": ispB, "cA": cA, "cA2": cA2, "cB": cB, "vmin": vmin, "vmax": vmax, "adjust": adj,
            "tolerance": [None, 1e-6, None, 1e-9][k % 4], "lsq_params": copy.deepcopy(rc.LSQ_PARAMS[(k // 2) % len(rc.LSQ_PARAMS)]),
            "container": CONTAINERS[k % 4], "num_processes": [1, 2][(k // 4) % 2], "failing": FAILING[k % 3], "k": k}
    return sess


def refine_tasks(sess: dict) -> list[dict]:
    """the distinct inputs of the session, A-inputs first"""
    base = {"kind": "refine", "grid": sess["grid"], "vmin": sess["vmin"], "vmax": sess["vmax"], "adjust": sess["adjust"],
            "tolerance": sess["tolerance"], "lsq_params": sess["lsq_params"]}
    return [dict(base, image=sess["A"], candidate=sess["cA"], name="A/cA"),
            dict(base, image=sess["A"], candidate=sess["cA2"], name="A/cA2"),
            dict(base, image=sess["B"], candidate=sess["cB"], name="B/cB")]


# =========================================================================================
# evaluation of one task with fresh objects (reference interpreters; also "fresh equal objects" in the check)
# =========================================================================================
def _refine_kwargs(t: dict, params=None) -> dict:
    kw = {"vmin": t["vmin"], "vmax": t["vmax"], "adjust_values": t["adjust"]}
    if t.get("tolerance") is not None:
        kw["tolerance"] = t["tolerance"]
    if t.get("lsq_params") is not None:
        kw["least_squares_params"] = copy.deepcopy(t["lsq_params"]) if params is None else params
    return kw


def eval_task(t: dict):
    """-> {"out": ...} or {"error": ...}: the call on fresh objects"""
    try:
        if t["kind"] == "refine":
            from droplets.image_analysis import refine_droplet
            grid = rc.make_grid(t["grid"])
            out = refine_droplet(rc.make_image(t["image"], grid), rc.make_droplet(t["candidate"]), **_refine_kwargs(t))
            return {"out": rc.droplet_spec(out)}
        from props import C05
        found = C05.run_locate(t["case"])[0]
        return {"out": found}
    except Exception as e:  # noqa
        return {"error": f"{type(e).__name__}: {e}"[:200]}


# =========================================================================================
# reference interpreters
# =========================================================================================
def start_references(task_lists: list[list[dict]]):
    """two fresh interpreters; 0 evaluates each session's tasks in the given order, 1 in the reverse order"""
    procs = []
    for rev in (False, True):
        job = {"sessions": [list(reversed(tl)) if rev else tl for tl in task_lists]}
        p = subprocess.Popen([sys.executable, __file__], stdin=subprocess.PIPE, stdout=subprocess.PIPE, stderr=subprocess.DEVNULL, text=True)
        p.stdin.write(json.dumps(job))
        p.stdin.close()
        procs.append(p)
    return procs


def collect_references(procs, task_lists, timeout: int = 1500):
    """-> (ref[s][name] = fresh-state result, diffs = [(s, name, result in interpreter 0, in interpreter 1)])"""
    outs = []
    for p in procs:
        txt = p.stdout.read()
        p.wait(timeout=timeout)
        if p.returncode != 0 or not txt:
            raise RuntimeError("reference interpreter failed")
        outs.append(json.loads(txt))
    ref, diffs = [], []
    for s, tl in enumerate(task_lists):
        r0 = {t["name"]: v for t, v in zip(tl, outs[0][s])}
        r1 = {t["name"]: v for t, v in zip(reversed(tl), outs[1][s])}
        d = {}
        for i, t in enumerate(tl):
            nm = t["name"]
            # met first by interpreter 0 if it belongs to the first image of the session, by interpreter 1 otherwise
            d[nm] = r0[nm] if nm.startswith("A") else r1[nm]
            if r0[nm] != r1[nm]:
                diffs.append((s, nm, r0[nm], r1[nm]))
        ref.append(d)
    return ref, diffs


# =========================================================================================
# snapshots
# =========================================================================================
def grid_fingerprint(grid) -> list:
    fp = []
    for name in ("cell_coords", "cell_volumes", "cell_volume_data", "axes_coords", "axes_bounds", "discretization", "shape", "periodic"):
        try:
            v = getattr(grid, name)
        except Exception:  # noqa
            continue
        if isinstance(v, (tuple, list)):
            fp.append((name, [np.asarray(x).tobytes() for x in v]))
        else:
            fp.append((name, np.asarray(v).tobytes()))
    return fp


def droplet_bytes(d):
    return (type(d).__name__, d.data.tobytes())


# =========================================================================================
# C04: one session on shared objects
# =========================================================================================
def run_refine_session(sess: dict, ref: dict, count=lambda k, v: None) -> list[dict]:
    """failures [{"class", "what"}] of the session against the fresh-state references `ref` (name -> result)"""
    from droplets import Emulsion
    from droplets.image_analysis import refine_droplet, refine_droplets
    fails: list[dict] = []

    def fail(cls_, what):
        fails.append({"class": "state: " + cls_, "what": what})

    grid = rc.make_grid(sess["grid"])
    fields = {"A": rc.make_image(sess["A"], grid), "B": rc.make_image(sess["B"], grid)}
    cands = {n: rc.make_droplet(sess[n]) for n in ("cA", "cA2", "cB")}
    params = copy.deepcopy(sess["lsq_params"])
    kw = _refine_kwargs(sess, params=params)           # ONE kwargs dict / option dict for every call of the session

    def snapshot():
        return {"fields": {n: (f.data.tobytes(), str(f.data.dtype)) for n, f in fields.items()},
                "cands": {n: droplet_bytes(c) for n, c in cands.items()}, "params": copy.deepcopy(params), "kw": repr(sorted(kw)),
                "grid": grid_fingerprint(grid)}

    snap0 = snapshot()
    alive: list = []      # (step, object, bytes at return)

    def changed(step):
        now = snapshot()
        for key in snap0:
            if now[key] != snap0[key]:
                what = [n for n in snap0[key] if now[key][n] != snap0[key][n]] if isinstance(snap0[key], dict) and key != "params" else ""
                fail("argument modified", f"after step {step} the caller's {key} {what} differ(s) from before the first call"
                                          + (f": {snap0[key]} -> {now[key]}" if key == "params" else ""))
                snap0[key] = now[key]

    def call(step, img, cand, want_name):
        count("sequence_step", step.split(":")[0])
        try:
            out = refine_droplet(fields[img], cands[cand], **kw)
            got = {"out": rc.droplet_spec(out)}
            alive.append((step, out, droplet_bytes(out)))
        except Exception as e:  # noqa
            got = {"error": f"{type(e).__name__}: {e}"[:200]}
        want = ref[want_name]
        if got != want:
            fail("result differs from the fresh-state result", f"step {step}: refine_droplet(image {img}, candidate {cand}) gave {got}; the same "
                                                               f"call made first in a fresh interpreter gives {want}")
        changed(step)
        return got

    g1 = call("1: A", "A", "cA", "A/cA")
    g2 = call("2: A again", "A", "cA", "A/cA")
    if g1 != g2:
        fail("same call twice", f"the same call on the same objects gave {g1} and then {g2}")
    call("3: B (same grid object, shape, levels; other content)", "B", "cB", "B/cB")
    call("4: A, other candidate", "A", "cA2", "A/cA2")
    # a call that raises in between
    count("failing_call_in_sequence", sess["failing"])
    try:
        if sess["failing"] == "wrong_dimension":
            bad = {"cls": "DiffuseDroplet", "position": [0.0] * (rc.grid_dim(sess["grid"]) + 1), "radius": 1.0, "width": 1.0}
            refine_droplet(fields["A"], rc.make_droplet(bad), **kw)
        elif sess["failing"] == "constant_image_fitted_levels":
            from pde import ScalarField
            refine_droplet(ScalarField(grid, 0.5), cands["cA"], vmin=None, vmax=None, adjust_values=True)
        else:
            refine_droplet(fields["A"], cands["cA"], vmin=sess["vmin"], vmax=sess["vmax"], adjust_values=sess["adjust"],
                           least_squares_params={"method": "lm"})
        count("failing_call_raised", False)
    except Exception:  # noqa
        count("failing_call_raised", True)
    changed("5: a call that raises")
    call("6: B after the failing call", "B", "cB", "B/cB")
    call("7: A after B", "A", "cA", "A/cA")
    # results kept alive together
    for step, obj, b in alive:
        if droplet_bytes(obj) != b:
            fail("result changed by a later call", f"the droplet returned at step {step} holds other data after the later calls")
    if len(alive) >= 2:
        last = alive[-1][1]
        others = [(s_, o, droplet_bytes(o)) for s_, o, _ in alive[:-1]]
        try:
            last.data["position"] += 1.0
            last.data["radius"] *= 2.0
        except Exception:  # noqa
            pass
        for s_, o, b in others:
            if droplet_bytes(o) != b:
                fail("results share a buffer", f"modifying the droplet returned at step {alive[-1][0]} in place changed the one returned at step {s_}")
        changed("8: a result modified in place")
    # fresh equal objects at the end, in this process
    t = refine_tasks(sess)[0]
    got = eval_task(t)
    if got != ref["A/cA"]:
        fail("result differs from the fresh-state result", f"fresh equal objects at the end of the session give {got}; first in a fresh interpreter: {ref['A/cA']}")
    # refine_droplets: the candidates as list / tuple / Emulsion / one-shot generator, serial and with two worker processes
    kind, nproc = sess["container"], sess["num_processes"]
    count("refine_droplets_candidates", f"{kind}, num_processes={nproc}")
    members = [cands["cA"], cands["cA2"]]
    if kind == "list":
        cont = list(members)
    elif kind == "tuple":
        cont = tuple(members)
    elif kind == "Emulsion":
        cont = Emulsion(members)
        members = list(cont)
    else:
        cont = (d for d in members)
    before = [droplet_bytes(d) for d in members]
    ident = [id(d) for d in cont] if kind in ("list", "tuple", "Emulsion") else None
    try:
        res = refine_droplets(fields["A"], cont, num_processes=nproc, **kw)
        got = [{"out": rc.droplet_spec(d)} for d in res]
    except Exception as e:  # noqa
        got = {"error": f"{type(e).__name__}: {e}"[:200]}
    want = [ref["A/cA"], ref["A/cA2"]]
    if any("error" in w for w in want):
        want_cmp = None       # the single call raises: the plural call must raise as well
        if isinstance(got, list):
            fail("result differs from the fresh-state result", f"refine_droplets({kind}, num_processes={nproc}) returned {got} although refine_droplet raises: {want}")
    elif got != want:
        fail("result differs from the fresh-state result", f"refine_droplets(candidates as {kind}, num_processes={nproc}) gave {got}; the candidates "
                                                           f"refined one by one, each first in a fresh interpreter: {want}")
    if [droplet_bytes(d) for d in members] != before or (ident is not None and [id(d) for d in cont] != ident):
        fail("argument modified", f"refine_droplets(candidates as {kind}, num_processes={nproc}) changed the caller's candidates / container")
    changed("9: refine_droplets")
    return fails


# =========================================================================================
# C05: one session of locate_droplets(refine=True) on shared objects
# =========================================================================================
def gen_locate_session(rng: random.Random, k: int) -> dict:
    from props import C05

    def make(r):
        fam = rc.FAMILIES[k % 6]
        gs = C05.gen_grid_c05(r, fam)
        tA = rc.gen_truth(r, gs, "DiffuseDroplet", 0, resolvable=True)
        tB = rc.gen_truth(r, gs, "DiffuseDroplet", 0, resolvable=True)
        ispA = rc.gen_image_spec(r, tA, ["clean", "affine"][k % 2])
        ispB = dict(copy.deepcopy(ispA), truth=[tB])
        return {"grid": gs, "A": ispA, "B": ispB}
    for _ in range(40):
        s = make(rng)
        if not any(C05.meets_own_image({"grid": s["grid"], "image": s[n]}) for n in ("A", "B")):
            break
    else:
        raise RuntimeError("generator: no resolvable pair of images")
    a2, b2 = rng.choice([(0.5, 2.0), (3.0, -1.0), (2.0, 0.5)])
    s["C"] = dict(copy.deepcopy(s["A"]), kind="affine", a=a2 if a2 != s["A"]["a"] else 1.5, b=b2)
    s.update({"rule": C05.RULES[k % 4], "rule2": C05.RULES[(k + 1 + k // 4) % 4], "opt": C05.OPTS[(k // 2) % 3],
              "extra": [{}, {"tolerance": 1e-10}, {"lsq_params": {"method": "trf"}}, {"tolerance": 1e-9, "lsq_params": {"xtol": 1e-11}}][k % 4],
              "parallel": bool((k // 2) % 2), "failing": ["threshold_string", "modes_negative_dim"][k % 2], "k": k})
    return s


def locate_case(sess: dict, img: str, rule: str, nproc: int = 1) -> dict:
    x = dict(copy.deepcopy(sess["extra"]))
    if nproc != 1:
        x["num_processes"] = nproc
    return {"grid": sess["grid"], "image": sess[img], "rule": rule, "opt": sess["opt"], "extra": x}


def locate_tasks(sess: dict) -> list[dict]:
    return [{"kind": "locate", "name": "A/rule", "case": locate_case(sess, "A", sess["rule"])},
            {"kind": "locate", "name": "A/rule2", "case": locate_case(sess, "A", sess["rule2"])},
            {"kind": "locate", "name": "C/rule", "case": locate_case(sess, "C", sess["rule"])},
            {"kind": "locate", "name": "B/rule", "case": locate_case(sess, "B", sess["rule"])}]


def run_locate_session(sess: dict, ref: dict, count=lambda k, v: None) -> list[dict]:
    from droplets.image_analysis import locate_droplets
    from props import C05
    fails: list[dict] = []

    def fail(cls_, what):
        fails.append({"class": "state: " + cls_, "what": what})

    grid = rc.make_grid(sess["grid"])
    fields = {n: rc.make_image(sess[n], grid) for n in ("A", "B", "C")}
    # ONE refine_args dict (and nested least_squares_params) for every call on A and B; C (other levels) has its own
    refine_args = C05.locate_kwargs(locate_case(sess, "A", sess["rule"]), grid)["refine_args"]
    refine_args_c = C05.locate_kwargs(locate_case(sess, "C", sess["rule"]), grid)["refine_args"]

    def snapshot():
        return {"fields": {n: (f.data.tobytes(), str(f.data.dtype)) for n, f in fields.items()}, "refine_args": repr(refine_args),
                "grid": grid_fingerprint(grid)}

    snap0 = snapshot()
    alive: list = []

    def changed(step):
        now = snapshot()
        for key in snap0:
            if now[key] != snap0[key]:
                fail("argument modified", f"after step {step} the caller's {key} differ(s) from before the first call"
                                          + (f": {snap0[key]} -> {now[key]}" if key == "refine_args" else ""))
                snap0[key] = now[key]

    def call(step, img, rule, want_name, nproc=1):
        count("sequence_step", step.split(":")[0])
        case = locate_case(sess, img, rule, nproc)
        try:
            kw = {"refine": True, "refine_args": refine_args_c if img == "C" else refine_args}
            if nproc != 1:
                kw["num_processes"] = nproc
            em = locate_droplets(fields[img], threshold=C05.threshold_of(case), **kw)
            got = {"out": [rc.droplet_spec(d) for d in em]}
            alive.append((step, em, [droplet_bytes(d) for d in em]))
        except Exception as e:  # noqa
            got = {"error": f"{type(e).__name__}: {e}"[:200]}
        if got != ref[want_name]:
            fail("result differs from the fresh-state result", f"step {step}: locate_droplets(image {img}, threshold {rule}, refine=True"
                 f"{', num_processes=%d' % nproc if nproc != 1 else ''}) gave {got}; the same call (serial) made first in a fresh interpreter gives {ref[want_name]}")
        changed(step)
        return got

    g1 = call("1: A", "A", sess["rule"], "A/rule")
    g2 = call("2: A again", "A", sess["rule"], "A/rule")
    if g1 != g2:
        fail("same call twice", f"the same call on the same objects gave {g1} and then {g2}")
    call("3: B (same grid object, shape, levels; other content)", "B", sess["rule"], "B/rule")
    call("4: A, other threshold rule", "A", sess["rule2"], "A/rule2")
    call("4b: C (same grid object, shape and droplet as A; other intensity levels)", "C", sess["rule"], "C/rule")
    count("failing_call_in_sequence", sess["failing"])
    try:
        if sess["failing"] == "threshold_string":
            locate_droplets(fields["A"], threshold="no such rule", refine=True, refine_args=refine_args)
        else:
            locate_droplets(fields["A"], threshold=C05.threshold_of(locate_case(sess, "A", sess["rule"])), modes=2 if grid.dim == 1 else 0,
                            refine=True, refine_args=dict(refine_args, least_squares_params={"method": "lm"}))
        count("failing_call_raised", False)
    except Exception:  # noqa
        count("failing_call_raised", True)
    changed("5: a call that raises")
    call("6: B after the failing call", "B", sess["rule"], "B/rule")
    if sess["parallel"]:
        call("7: A after B, two worker processes", "A", sess["rule"], "A/rule", nproc=2)
    else:
        call("7: A after B", "A", sess["rule"], "A/rule")
    for step, em, b in alive:
        if [droplet_bytes(d) for d in em] != b:
            fail("result changed by a later call", f"the emulsion returned at step {step} holds other data after the later calls")
    if len(alive) >= 2 and len(alive[-1][1]) > 0:
        others = [(s_, e, [droplet_bytes(d) for d in e]) for s_, e, _ in alive[:-1]]
        try:
            alive[-1][1][0].data["radius"] *= 2.0
            alive[-1][1][0].data["position"] += 1.0
        except Exception:  # noqa
            pass
        for s_, e, b in others:
            if [droplet_bytes(d) for d in e] != b:
                fail("results share a buffer", f"modifying a droplet of the emulsion returned at step {alive[-1][0]} changed the one returned at step {s_}")
        changed("8: a result modified in place")
    got = eval_task(locate_tasks(sess)[0])
    if got != ref["A/rule"]:
        fail("result differs from the fresh-state result", f"fresh equal objects at the end of the session give {got}; first in a fresh interpreter: {ref['A/rule']}")
    return fails


def judge_sessions(ctx, which: str, sessions: list[dict], task_lists, procs) -> list[dict]:
    """collect the references, run the sessions, -> failures [{"what", "failure", "stream", "input"}]"""
    out = []
    try:
        ref, diffs = collect_references(procs, task_lists)
    except Exception as e:  # noqa
        ctx.broken.append(f"sequence oracle: reference interpreters unavailable ({type(e).__name__}: {e})")
        return out
    run = run_refine_session if which == "refine" else run_locate_session
    for s_, nm, v0, v1 in diffs:
        out.append({"what": f"fresh interpreters disagree on {nm}: evaluated before the other image of the session {v0 if nm.startswith('A') else v1}, "
                            f"after it {v1 if nm.startswith('A') else v0}", "failure": "state: result depends on earlier calls",
                    "stream": "sequences", "input": json.loads(json.dumps(sessions[s_]))})
    for sess, r in zip(sessions, ref):
        ctx.case(["sequence", which, sess], nontrivial=True)
        ctx.count("sequence_sessions", which)
        for f in run(sess, r, ctx.count):
            out.append({"what": f["what"], "failure": f["class"], "stream": "sequences", "input": json.loads(json.dumps(sess))})
    return out


def replay_session(sess: dict) -> list[dict]:
    which = "refine" if "cA" in sess else "locate"
    tl = [refine_tasks(sess) if which == "refine" else locate_tasks(sess)]
    ref, diffs = collect_references(start_references(tl), tl)
    fails = [{"class": "state: result depends on earlier calls", "what": str(d)} for d in diffs]
    return fails + (run_refine_session if which == "refine" else run_locate_session)(sess, ref[0])


if __name__ == "__main__":      # reference interpreter
    import logging
    import warnings
    logging.disable(logging.WARNING)
    warnings.simplefilter("ignore")
    job = json.load(sys.stdin)
    json.dump([[eval_task(t) for t in tl] for tl in job["sessions"]], sys.stdout)
