#!/bin/bash
# Re-check the compiled property files (and everything they depend on) with the independent checker coqchk and
# record the axioms it reports.  Takes ~1 min per property file; run at the end, not on every change.
cd /verif/build/coq || exit 2
OUT=/verif/notes/coqchk.txt; : > $OUT
for p in C01 C01R C02 C03 C04 C05 C06 C07 C08 C09 C10 C11 C12 C13 C14 C15 C16 C17 C18 C19 C20; do
  echo "===== PD.Properties.$p =====" >> $OUT
  timeout 3000 coqchk -silent -o -R . PD PD.Properties.$p >> $OUT 2>&1; echo "exit=$?" >> $OUT
done
