"""Shared helpers for C02 / C01: recording the intermediate state of locate_droplets_in_mask,
independent torus-component oracle, Coq literals."""
from __future__ import annotations

import itertools
from collections import deque

import numpy as np

import vlib


class Recorder:
    """Records candidates and the distance matrix inside remove_overlapping as called from
    droplets.image_analysis (by substituting the Emulsion class seen there)."""

    def __enter__(self):
        import droplets.image_analysis as ia
        self.ia, self.orig = ia, ia.Emulsion
        log = self.log = []

        class RecEmulsion(self.orig):
            def remove_overlapping(self, min_distance=0, grid=None):
                cands = [(np.array(d.position, float), float(d.volume), float(d.radius), d) for d in self]
                M = self.get_pairwise_distances(subtract_radius=True, grid=grid)
                ids = {id(d): i for i, d in enumerate(self)}
                super().remove_overlapping(min_distance=min_distance, grid=grid)
                log.append({"cands": cands, "M": M, "out": [ids[id(d)] for d in self], "grid": grid})

        ia.Emulsion = RecEmulsion
        return self

    def __exit__(self, *a):
        self.ia.Emulsion = self.orig


# ---- input dimensions shared by the C01 / C02 streams (notes/input_dimensions.md) ---------------
# dtypes in which a 0/1 image is handed over besides the reference dtype (bool mask / float64 field)
MASK_DTYPES = ["uint8", "int64", "float32", "float64"]
FIELD_DTYPES = ["float32", "int64", "uint8", "bool"]
ORIGIN_KINDS = ["mixed", "mixed", "zero", "centred", "positive", "negative"]


def axis_origin(rng, n, h, kind=None):
    """Lower bound of an axis with n cells of width h (all values dyadic): zero, centred box, shifted positive,
    entirely negative coordinates, or anywhere in [-4, 4].  Returns (lo, kind)."""
    kind = kind or rng.choice(ORIGIN_KINDS)
    L = n * h
    if kind == "zero":
        lo = 0.0
    elif kind == "centred":
        lo = -L / 2
    elif kind == "positive":
        lo = rng.randrange(1, 17) / 4.0
    elif kind == "negative":
        lo = -L - rng.randrange(0, 17) / 4.0
    else:
        lo = rng.randrange(-16, 17) / 4.0
    return lo, kind


def order_of(vals):
    """'equal' / 'larger first' / 'larger last' / 'middle differs' for a per-axis tuple (cell counts, spacings)"""
    vals = list(vals)
    if len(vals) == 1:
        return "1-d"
    if all(v == vals[0] for v in vals):
        return "equal"
    if vals[0] > vals[-1]:
        return "larger first"
    if vals[0] < vals[-1]:
        return "larger last"
    return "middle differs"


def count_grid(ctx, grid, origin_kinds=None, prefix=""):
    """histogram keys of the grid geometry dimensions"""
    per = [bool(p) for p in grid.periodic]
    ctx.count(prefix + "periodicity_pattern", "".join("P" if p else "N" for p in per))
    ctx.count(prefix + "cell_count_order", order_of(grid.shape))
    ctx.count(prefix + "spacing_order", order_of([float(h) for h in grid.discretization]))
    ctx.count(prefix + "min_cells_per_axis", min(grid.shape) if min(grid.shape) < 4 else ">=4")
    for k in origin_kinds or []:
        ctx.count(prefix + "origin_kind_per_axis", k)
    los = [b[0] for b in grid.axes_bounds]
    his = [b[1] for b in grid.axes_bounds]
    ctx.count(prefix + "coordinates", "all negative" if all(hi <= 0 for hi in his) else
              "all positive" if all(lo >= 0 for lo in los) else "mixed signs")


def simulate_remove_overlapping(M, radii, stale_radius_cache=False):
    """Emulsion.remove_overlapping() on the recorded surface-distance matrix (indices of the kept droplets).
    With stale_radius_cache the radii are looked up by the CURRENT position in a never-updated array: the
    evidence counts on how many inputs such a variant would decide differently (seeded change C02-3)."""
    n = len(radii)
    if n == 0 or M is None:
        return list(range(n))
    d = np.array(M, float).copy()
    np.fill_diagonal(d, np.inf)
    ids = list(range(n))
    while len(d) > 1:
        x, y = np.unravel_index(np.argmin(d), d.shape)
        if not d[x, y] < 0:
            break
        rx, ry = (radii[x], radii[y]) if stale_radius_cache else (radii[ids[x]], radii[ids[y]])
        i = y if rx > ry else x
        ids.pop(i)
        d = np.delete(np.delete(d, i, 0), i, 1)
    return ids


def count_removals(ctx, rec_M, radii, out, prefix=""):
    n_removed = len(radii) - len(out)
    ctx.count(prefix + "overlap_removals", n_removed if n_removed < 3 else ">=3")
    if n_removed >= 1 and rec_M is not None:
        stale = simulate_remove_overlapping(rec_M, radii, True)
        ctx.count(prefix + "removal_order_sensitive_to_stale_radii", stale != list(out))


def emulsion_key(em):
    """exact (bitwise) content of an emulsion of spherical droplets, or a description of a result of the wrong kind"""
    from droplets import Emulsion, SphericalDroplet
    if not isinstance(em, Emulsion):
        return f"result of class {type(em).__name__}, not an Emulsion"
    key = []
    for d in em:
        if type(d) is not SphericalDroplet:
            return f"member of class {type(d).__name__}, not SphericalDroplet"
        vals = [float(x) for x in np.ravel(d.position)] + [float(d.radius)]
        if np.iscomplexobj(d.position) or np.iscomplexobj(d.radius) or not all(np.isfinite(vals)):
            return f"non-finite or complex droplet data {vals}"
        key.append(tuple(v.hex() for v in vals))
    return key


def same_result(em_ref, em_other, what):
    """None if both calls returned bitwise the same droplets in the same order, else a failure description"""
    a, b = emulsion_key(em_ref), emulsion_key(em_other)
    if isinstance(b, str):
        return f"{what}: {b}"
    if a != b:
        return (f"{what}: result differs from the reference call: "
                f"{[(list(map(float, np.ravel(d.position))), float(d.radius)) for d in em_other]} instead of "
                f"{[(list(map(float, np.ravel(d.position))), float(d.radius)) for d in em_ref]}")
    return None


def grid_lit(grid):
    axes = []
    for (lo, hi), n, per in zip(grid.axes_bounds, grid.shape, grid.periodic):
        axes.append("{| ncell := %s; alo := %s; ahi := %s; aper := %s |}"
                    % (vlib.zlit(n), vlib.qlit(lo), vlib.qlit(hi), vlib.blit(per)))
    return vlib.listlit(axes)


def loc_case_lit(grid, labels, rec):
    cands = vlib.listlit([f"({vlib.listlit(list(p), vlib.qlit)}, {vlib.qlit(v)})" for p, v, r, _ in rec["cands"]])
    rad = vlib.listlit([r for _, _, r, _ in rec["cands"]], vlib.qlit)
    D = vlib.listlit([vlib.listlit(row, vlib.qlit) for row in rec["M"].tolist()])
    return ("{| lc_grid := %s; lc_lab := %s; lc_cands := %s; lc_rad := %s; lc_D := %s; lc_out := %s |}"
            % (grid_lit(grid), vlib.listlit(labels.ravel().tolist(), lambda i: f"{int(i)}%nat"), cands, rad, D,
               vlib.listlit(rec["out"], lambda i: f"{i}%nat")))


# ---- independent reference: components under torus face-adjacency, unwrapped lift -------------
def torus_components(mask: np.ndarray, periodic):
    """Returns a list of components: dict(cells=[index tuples], lifted=[lifted index tuples] or None if winding)."""
    shape = mask.shape
    seen = np.zeros(shape, bool)
    comps = []
    for start in zip(*np.nonzero(mask)):
        if seen[start]:
            continue
        lift = {start: np.zeros(len(shape), int)}
        seen[start] = True
        q = deque([start])
        winding = False
        while q:
            c = q.popleft()
            for ax in range(len(shape)):
                for s in (-1, 1):
                    n = list(c)
                    n[ax] += s
                    o = lift[c].copy()
                    if n[ax] < 0 or n[ax] >= shape[ax]:
                        if not periodic[ax]:
                            continue
                        o[ax] += -1 if n[ax] < 0 else 1
                        n[ax] %= shape[ax]
                    n = tuple(n)
                    if not mask[n]:
                        continue
                    if n in lift:
                        if not np.array_equal(lift[n], o):
                            winding = True
                        continue
                    lift[n] = o
                    seen[n] = True
                    q.append(n)
        cells = list(lift)
        lifted = None if winding else [tuple(np.array(c) + lift[c] * np.array(shape)) for c in cells]
        comps.append({"cells": cells, "lifted": lifted})
    return comps


def plain_components(mask: np.ndarray):
    """Face-connected components without wrapping, numbered in raster order (reference for LabelSpec)."""
    lab = np.zeros(mask.shape, int)
    k = 0
    for start in zip(*np.nonzero(mask)):  # np.nonzero is in C order
        if lab[start]:
            continue
        k += 1
        lab[start] = k
        q = deque([start])
        while q:
            c = q.popleft()
            for ax in range(mask.ndim):
                for s in (-1, 1):
                    n = list(c)
                    n[ax] += s
                    if 0 <= n[ax] < mask.shape[ax]:
                        n = tuple(n)
                        if mask[n] and not lab[n]:
                            lab[n] = k
                            q.append(n)
    return lab, k


def sphere_radius(volume, dim):
    if dim == 1:
        return volume / 2
    if dim == 2:
        return (volume / np.pi) ** 0.5
    return (3 * volume / (4 * np.pi)) ** (1 / 3)


def oracle_cart(grid, mask, em, rec):
    """C02 for Cartesian grids, from the property text. `rec` = recorded candidates (or None when no
    cluster was found).  Returns failure description or None."""
    per = list(map(bool, grid.periodic))
    comps = torus_components(mask, per)
    h = np.array(grid.discretization)
    lo = np.array([b[0] for b in grid.axes_bounds])
    L = np.array([b[1] - b[0] for b in grid.axes_bounds])
    cellvol = float(np.prod(h))
    cands = rec["cands"] if rec else []
    if len(cands) != len(comps):
        return f"{len(cands)} candidate droplet(s) for {len(comps)} connected component(s)"
    # match candidates to components by volume + position
    unused = list(range(len(cands)))
    cand_of = {}
    # components whose position is specified (non-winding) choose first: a winding component of the same volume must
    # not take the candidate that belongs to one of them
    for ci, comp in sorted(enumerate(comps), key=lambda ic: ic[1]["lifted"] is None):
        vol = len(comp["cells"]) * cellvol
        ok = None
        for k in unused:
            p, v, r, _ = cands[k]
            if abs(v - vol) > 1e-9 * max(1, vol):
                continue
            if comp["lifted"] is not None:
                com = lo + (np.mean(np.array(comp["lifted"], float), axis=0) + 0.5) * h
                d = p - com
                for ax in range(len(L)):
                    if per[ax]:
                        d[ax] = (d[ax] + L[ax] / 2) % L[ax] - L[ax] / 2
                if np.any(np.abs(d) > 1e-9 * (1 + np.abs(L))):
                    continue
                if any(per[ax] and not (lo[ax] - 1e-12 <= p[ax] < lo[ax] + L[ax] + 1e-12) for ax in range(len(L))):
                    return f"position {list(p)} outside the box along a periodic axis"
            ok = k
            break
        if ok is None:
            kind = "non-winding" if comp["lifted"] is not None else "winding"
            return (f"no droplet with the volume {vol} and centre of mass of the {kind} component "
                    f"{sorted(comp['cells'])[:6]}...; candidates {[(list(np.round(p, 6)), v) for p, v, _, _ in cands]}")
        unused.remove(ok)
        cand_of[ci] = ok
    # returned droplets: subset of the candidates, pairwise non-overlapping, missing only if overlapped by one at least as large
    out_ids = {id(d) for d in em}
    kept = [k for k, c in enumerate(cands) if id(c[3]) in out_ids]
    if len(kept) != len(em):
        return "returned droplets are not the candidate objects"

    def dist(a, b):
        return float(grid.distance(a, b, coords="cartesian"))
    for a, b in itertools.combinations(kept, 2):
        if dist(cands[a][0], cands[b][0]) < cands[a][2] + cands[b][2] - 1e-12:
            return f"returned droplets {a} and {b} overlap"
    for k in range(len(cands)):
        if k not in kept:
            if not any(j != k and cands[j][2] >= cands[k][2] - 1e-15 and dist(cands[k][0], cands[j][0]) < cands[k][2] + cands[j][2] + 1e-12
                       for j in range(len(cands))):
                return f"component {k} left out although it overlaps no component at least as large"
    return None


# ---- cylindrical / radial grids ---------------------------------------------------------------
def cyl_lit(grid):
    (rlo, R), (zlo, zhi) = grid.axes_bounds
    assert rlo == 0
    return ("{| cg_nr := %s; cg_nz := %s; cg_R := %s; cg_zlo := %s; cg_zhi := %s; cg_per := %s |}"
            % (vlib.zlit(grid.shape[0]), vlib.zlit(grid.shape[1]), vlib.qlit(R), vlib.qlit(zlo), vlib.qlit(zhi),
               vlib.blit(bool(grid.periodic[1]))))


def cyl_components(mask, periodic_z):
    """Components of an (r, z) image; z periodic if requested.  Returns dicts with cells, lifted z (or None), on_axis."""
    comps = torus_components(mask, [False, periodic_z])
    for c in comps:
        c["on_axis"] = any(cell[0] == 0 for cell in c["cells"])
    return comps


def _zext(comp):
    """extent (in cells) of the unwrapped component along z; > nz means the 3x padded image cuts it"""
    zs = [c[1] for c in comp["lifted"]]
    return max(zs) - min(zs) + 1


def oracle_cyl(grid, mask, em, cands, kept):
    """C02 on cylindrical grids from the property text.  Returns a list of (failure class, description)."""
    out = []
    per = bool(grid.periodic[1])
    (rlo, R), (zlo, zhi) = grid.axes_bounds
    nr, nz = grid.shape
    dr, dz = R / nr, (zhi - zlo) / nz
    L = zhi - zlo
    comps = [c for c in cyl_components(mask, per) if c["on_axis"]]
    if not comps:
        if len(em) != 0:
            out.append(("count", f"image without a component on the symmetry axis yields {len(em)} droplet(s)"))
        return out
    vol_cell = lambda i: np.pi * (((i + 1) * dr) ** 2 - (i * dr) ** 2) * dz
    if len(cands) != len(comps):
        # a component that winds around the periodic z axis triggers the spanning fallback (analysis without
        # periodicity): its pieces are then reported separately -> same class as the volume deviation (F29 b)
        cls = "winding volume" if per and any(c["lifted"] is None or _zext(c) > nz for c in comps) else "count"
        out.append((cls, f"{len(cands)} candidate droplet(s) for {len(comps)} component(s) touching the axis"))
        return out
    unused = list(range(len(cands)))
    for comp in comps:
        vol = sum(vol_cell(c[0]) for c in comp["cells"])
        match_v = [k for k in unused if abs(cands[k][1] - vol) <= 1e-9 * vol]
        if not match_v:
            cls = "volume" if (comp["lifted"] is not None and not (per and _zext(comp) > nz)) else "winding volume"
            out.append((cls, f"no droplet with the total cell volume {vol} of the component {sorted(comp['cells'])[:4]}..."))
            continue
        if comp["lifted"] is None:  # winding: position unspecified
            unused.remove(match_v[0])
            continue
        w = np.array([vol_cell(c[0]) for c in comp["cells"]])
        zl = np.array([c[1] for c in comp["lifted"]], float)
        com = zlo + (float((w * zl).sum() / w.sum()) + 0.5) * dz
        com_unweighted = zlo + (float(zl.mean()) + 0.5) * dz
        okk = None
        for k in match_v:
            d = cands[k][0] - com
            if per:
                d = (d + L / 2) % L - L / 2
            if abs(d) <= 1e-9 * (1 + L):
                okk = k
                break
        if okk is None:
            # several components can have exactly the same volume (e.g. discs of 3 and 4 cells radius joined across the
            # boundary and a disc of 5 cells): among the candidates of that volume prefer the one at the unweighted mean
            # (failure class F27) before calling it a wrong position
            def off_unweighted(k):
                d = cands[k][0] - com_unweighted
                return abs((d + L / 2) % L - L / 2 if per else d)
            k = min(match_v, key=off_unweighted)
            d = off_unweighted(k)
            cls = "position is not the volume-weighted centre of mass" if abs(d) <= 1e-9 * (1 + L) else "position"
            out.append((cls, f"component {sorted(comp['cells'])[:5]}...: z={cands[k][0]}, centre of mass {com} (unweighted mean {com_unweighted})"))
            okk = k
        unused.remove(okk)
    # returned droplets never overlap (periodic metric); left out only if overlapped by one at least as large
    def dist(a, b):
        d = abs(a - b)
        return min(d, L - d) if per else d
    for a, b in itertools.combinations(kept, 2):
        if dist(cands[a][0], cands[b][0]) < cands[a][2] + cands[b][2] - 1e-12:
            out.append(("overlap", f"returned droplets at z={cands[a][0]} (r={cands[a][2]:.4g}) and z={cands[b][0]} (r={cands[b][2]:.4g}) overlap as equal-volume spheres"))
            break
    for k in range(len(cands)):
        if k not in kept and not any(j != k and cands[j][2] >= cands[k][2] - 1e-15 and
                                     dist(cands[k][0], cands[j][0]) < cands[k][2] + cands[j][2] + 1e-12 for j in range(len(cands))):
            out.append(("left out", f"component at z={cands[k][0]} left out although it overlaps no component at least as large"))
    return out
