"""Shared helpers for C02 / C01: recording the intermediate state of locate_droplets_in_mask,
independent torus-component oracle, Coq literals."""
from __future__ import annotations

import itertools
from collections import deque

import numpy as np

import vlib


class Recorder:
    """Records candidates and the distance matrix inside remove_overlapping as called from
    droplets.image_analysis (by substituting the Emulsion class seen there)."""

    def __enter__(self):
        import droplets.image_analysis as ia
        self.ia, self.orig = ia, ia.Emulsion
        log = self.log = []

        class RecEmulsion(self.orig):
            def remove_overlapping(self, min_distance=0, grid=None):
                cands = [(np.array(d.position, float), float(d.volume), float(d.radius), d) for d in self]
                M = self.get_pairwise_distances(subtract_radius=True, grid=grid)
                ids = {id(d): i for i, d in enumerate(self)}
                super().remove_overlapping(min_distance=min_distance, grid=grid)
                log.append({"cands": cands, "M": M, "out": [ids[id(d)] for d in self], "grid": grid})

        ia.Emulsion = RecEmulsion
        return self

    def __exit__(self, *a):
        self.ia.Emulsion = self.orig


# ---- input dimensions shared by the C01 / C02 streams (notes/input_dimensions.md) ---------------
# dtypes in which a 0/1 image is handed over besides the reference dtype (bool mask / float64 field)
MASK_DTYPES = ["uint8", "int64", "float32", "float64"]
FIELD_DTYPES = ["float32", "int64", "uint8", "bool"]
ORIGIN_KINDS = ["mixed", "mixed", "zero", "centred", "positive", "negative"]


def axis_origin(rng, n, h, kind=None):
    """Lower bound of an axis with n cells of width h (all values dyadic): zero, centred box, shifted positive,
    entirely negative coordinates, or anywhere in [-4, 4].  Returns (lo, kind)."""
    kind = kind or rng.choice(ORIGIN_KINDS)
    L = n * h
    if kind == "zero":
        lo = 0.0
    elif kind == "centred":
        lo = -L / 2
    elif kind == "positive":
        lo = rng.randrange(1, 17) / 4.0
    elif kind == "negative":
        lo = -L - rng.randrange(0, 17) / 4.0
    else:
        lo = rng.randrange(-16, 17) / 4.0
    return lo, kind


def order_of(vals):
    """'equal' / 'larger first' / 'larger last' / 'middle differs' for a per-axis tuple (cell counts, spacings)"""
    vals = list(vals)
    if len(vals) == 1:
        return "1-d"
    if all(v == vals[0] for v in vals):
        return "equal"
    if vals[0] > vals[-1]:
        return "larger first"
    if vals[0] < vals[-1]:
        return "larger last"
    return "middle differs"


def count_grid(ctx, grid, origin_kinds=None, prefix=""):
    """histogram keys of the grid geometry dimensions"""
    per = [bool(p) for p in grid.periodic]
    ctx.count(prefix + "periodicity_pattern", "".join("P" if p else "N" for p in per))
    ctx.count(prefix + "cell_count_order", order_of(grid.shape))
    ctx.count(prefix + "spacing_order", order_of([float(h) for h in grid.discretization]))
    ctx.count(prefix + "min_cells_per_axis", min(grid.shape) if min(grid.shape) < 4 else ">=4")
    for k in origin_kinds or []:
        ctx.count(prefix + "origin_kind_per_axis", k)
    los = [b[0] for b in grid.axes_bounds]
    his = [b[1] for b in grid.axes_bounds]
    ctx.count(prefix + "coordinates", "all negative" if all(hi <= 0 for hi in his) else
              "all positive" if all(lo >= 0 for lo in los) else "mixed signs")


def simulate_remove_overlapping(M, radii, stale_radius_cache=False):
    """Emulsion.remove_overlapping() on the recorded surface-distance matrix (indices of the kept droplets).
    With stale_radius_cache the radii are looked up by the CURRENT position in a never-updated array: the
    evidence counts on how many inputs such a variant would decide differently (seeded change C02-3)."""
    n = len(radii)
    if n == 0 or M is None:
        return list(range(n))
    d = np.array(M, float).copy()
    np.fill_diagonal(d, np.inf)
    ids = list(range(n))
    while len(d) > 1:
        x, y = np.unravel_index(np.argmin(d), d.shape)
        if not d[x, y] < 0:
            break
        rx, ry = (radii[x], radii[y]) if stale_radius_cache else (radii[ids[x]], radii[ids[y]])
        i = y if rx > ry else x
        ids.pop(i)
        d = np.delete(np.delete(d, i, 0), i, 1)
    return ids


def count_removals(ctx, rec_M, radii, out, prefix=""):
    n_removed = len(radii) - len(out)
    ctx.count(prefix + "overlap_removals", n_removed if n_removed < 3 else ">=3")
    if n_removed >= 1 and rec_M is not None:
        stale = simulate_remove_overlapping(rec_M, radii, True)
        ctx.count(prefix + "removal_order_sensitive_to_stale_radii", stale != list(out))


def emulsion_key(em):
    """exact (bitwise) content of an emulsion of spherical droplets, or a description of a result of the wrong kind"""
    from droplets import Emulsion, SphericalDroplet
    if not isinstance(em, Emulsion):
        return f"result of class {type(em).__name__}, not an Emulsion"
    key = []
    for d in em:
        if type(d) is not SphericalDroplet:
            return f"member of class {type(d).__name__}, not SphericalDroplet"
        vals = [float(x) for x in np.ravel(d.position)] + [float(d.radius)]
        if np.iscomplexobj(d.position) or np.iscomplexobj(d.radius) or not all(np.isfinite(vals)):
            return f"non-finite or complex droplet data {vals}"
        key.append(tuple(v.hex() for v in vals))
    return key


def same_result(em_ref, em_other, what):
    """None if both calls returned bitwise the same droplets in the same order, else a failure description"""
    a, b = emulsion_key(em_ref), emulsion_key(em_other)
    if isinstance(b, str):
        return f"{what}: {b}"
    if a != b:
        return (f"{what}: result differs from the reference call: "
                f"{[(list(map(float, np.ravel(d.position))), float(d.radius)) for d in em_other]} instead of "
                f"{[(list(map(float, np.ravel(d.position))), float(d.radius)) for d in em_ref]}")
    return None


def safe_lit(fn, fails, inp):
    """Coq literal of a recorded case; a non-finite value (NaN / inf never enter Q) in the candidates, radii, distances or the
    result is a property failure with that input, not a crash of the check"""
    try:
        return fn()
    except (ValueError, OverflowError, TypeError) as e:
        fails.append({"what": f"non-finite or non-real value among the candidate droplets / distances / results ({type(e).__name__}: {e})", "input": inp})
        return None


def grid_lit(grid):
    axes = []
    for (lo, hi), n, per in zip(grid.axes_bounds, grid.shape, grid.periodic):
        axes.append("{| ncell := %s; alo := %s; ahi := %s; aper := %s |}"
                    % (vlib.zlit(n), vlib.qlit(lo), vlib.qlit(hi), vlib.blit(per)))
    return vlib.listlit(axes)


def loc_case_lit(grid, labels, rec):
    cands = vlib.listlit([f"({vlib.listlit(list(p), vlib.qlit)}, {vlib.qlit(v)})" for p, v, r, _ in rec["cands"]])
    rad = vlib.listlit([r for _, _, r, _ in rec["cands"]], vlib.qlit)
    D = vlib.listlit([vlib.listlit(row, vlib.qlit) for row in rec["M"].tolist()])
    return ("{| lc_grid := %s; lc_lab := %s; lc_cands := %s; lc_rad := %s; lc_D := %s; lc_out := %s |}"
            % (grid_lit(grid), vlib.listlit(labels.ravel().tolist(), lambda i: f"{int(i)}%nat"), cands, rad, D,
               vlib.listlit(rec["out"], lambda i: f"{i}%nat")))


# ---- independent reference: components under torus face-adjacency, unwrapped lift -------------
def torus_components(mask: np.ndarray, periodic):
    """Returns a list of components: dict(cells=[index tuples], lifted=[lifted index tuples] or None if winding)."""
    shape = mask.shape
    seen = np.zeros(shape, bool)
    comps = []
    for start in zip(*np.nonzero(mask)):
        if seen[start]:
            continue
        lift = {start: np.zeros(len(shape), int)}
        seen[start] = True
        q = deque([start])
        winding = False
        while q:
            c = q.popleft()
            for ax in range(len(shape)):
                for s in (-1, 1):
                    n = list(c)
                    n[ax] += s
                    o = lift[c].copy()
                    if n[ax] < 0 or n[ax] >= shape[ax]:
                        if not periodic[ax]:
                            continue
                        o[ax] += -1 if n[ax] < 0 else 1
                        n[ax] %= shape[ax]
                    n = tuple(n)
                    if not mask[n]:
                        continue
                    if n in lift:
                        if not np.array_equal(lift[n], o):
                            winding = True
                        continue
                    lift[n] = o
                    seen[n] = True
                    q.append(n)
        cells = list(lift)
        lifted = None if winding else [tuple(np.array(c) + lift[c] * np.array(shape)) for c in cells]
        comps.append({"cells": cells, "lifted": lifted})
    return comps


def plain_components(mask: np.ndarray):
    """Face-connected components without wrapping, numbered in raster order (reference for LabelSpec)."""
    lab = np.zeros(mask.shape, int)
    k = 0
    for start in zip(*np.nonzero(mask)):  # np.nonzero is in C order
        if lab[start]:
            continue
        k += 1
        lab[start] = k
        q = deque([start])
        while q:
            c = q.popleft()
            for ax in range(mask.ndim):
                for s in (-1, 1):
                    n = list(c)
                    n[ax] += s
                    if 0 <= n[ax] < mask.shape[ax]:
                        n = tuple(n)
                        if mask[n] and not lab[n]:
                            lab[n] = k
                            q.append(n)
    return lab, k


def sphere_radius(volume, dim):
    if dim == 1:
        return volume / 2
    if dim == 2:
        return (volume / np.pi) ** 0.5
    return (3 * volume / (4 * np.pi)) ** (1 / 3)


def oracle_cart(grid, mask, em, rec):
    """C02 for Cartesian grids, from the property text. `rec` = recorded candidates (or None when no
    cluster was found).  Returns failure description or None."""
    per = list(map(bool, grid.periodic))
    comps = torus_components(mask, per)
    h = np.array(grid.discretization)
    lo = np.array([b[0] for b in grid.axes_bounds])
    L = np.array([b[1] - b[0] for b in grid.axes_bounds])
    cellvol = float(np.prod(h))
    cands = rec["cands"] if rec else []
    if len(cands) != len(comps):
        return f"{len(cands)} candidate droplet(s) for {len(comps)} connected component(s)"
    # match candidates to components by volume + position
    unused = list(range(len(cands)))
    cand_of = {}
    # components whose position is specified (non-winding) choose first: a winding component of the same volume must
    # not take the candidate that belongs to one of them
    for ci, comp in sorted(enumerate(comps), key=lambda ic: ic[1]["lifted"] is None):
        vol = len(comp["cells"]) * cellvol
        ok = None
        for k in unused:
            p, v, r, _ = cands[k]
            if abs(v - vol) > 1e-9 * max(1, vol):
                continue
            if comp["lifted"] is not None:
                com = lo + (np.mean(np.array(comp["lifted"], float), axis=0) + 0.5) * h
                d = p - com
                for ax in range(len(L)):
                    if per[ax]:
                        d[ax] = (d[ax] + L[ax] / 2) % L[ax] - L[ax] / 2
                if np.any(np.abs(d) > 1e-9 * (1 + np.abs(L))):
                    continue
                if any(per[ax] and not (lo[ax] - 1e-12 <= p[ax] < lo[ax] + L[ax] + 1e-12) for ax in range(len(L))):
                    return f"position {list(p)} outside the box along a periodic axis"
            ok = k
            break
        if ok is None:
            kind = "non-winding" if comp["lifted"] is not None else "winding"
            return (f"no droplet with the volume {vol} and centre of mass of the {kind} component "
                    f"{sorted(comp['cells'])[:6]}...; candidates {[(list(np.round(p, 6)), v) for p, v, _, _ in cands]}")
        unused.remove(ok)
        cand_of[ci] = ok
    # returned droplets: subset of the candidates, pairwise non-overlapping, missing only if overlapped by one at least as large
    out_ids = {id(d) for d in em}
    kept = [k for k, c in enumerate(cands) if id(c[3]) in out_ids]
    if len(kept) != len(em):
        return "returned droplets are not the candidate objects"

    def dist(a, b):
        return float(grid.distance(a, b, coords="cartesian"))
    for a, b in itertools.combinations(kept, 2):
        if dist(cands[a][0], cands[b][0]) < cands[a][2] + cands[b][2] - 1e-12:
            return f"returned droplets {a} and {b} overlap"
    for k in range(len(cands)):
        if k not in kept:
            if not any(j != k and cands[j][2] >= cands[k][2] - 1e-15 and dist(cands[k][0], cands[j][0]) < cands[k][2] + cands[j][2] + 1e-12
                       for j in range(len(cands))):
                return f"component {k} left out although it overlaps no component at least as large"
    return None


# ---- cylindrical / radial grids ---------------------------------------------------------------
def cyl_lit(grid):
    (rlo, R), (zlo, zhi) = grid.axes_bounds
    assert rlo == 0
    return ("{| cg_nr := %s; cg_nz := %s; cg_R := %s; cg_zlo := %s; cg_zhi := %s; cg_per := %s |}"
            % (vlib.zlit(grid.shape[0]), vlib.zlit(grid.shape[1]), vlib.qlit(R), vlib.qlit(zlo), vlib.qlit(zhi),
               vlib.blit(bool(grid.periodic[1]))))


def cyl_components(mask, periodic_z):
    """Components of an (r, z) image; z periodic if requested.  Returns dicts with cells, lifted z (or None), on_axis."""
    comps = torus_components(mask, [False, periodic_z])
    for c in comps:
        c["on_axis"] = any(cell[0] == 0 for cell in c["cells"])
    return comps


def _zext(comp):
    """extent (in cells) of the unwrapped component along z; > nz means the 3x padded image cuts it"""
    zs = [c[1] for c in comp["lifted"]]
    return max(zs) - min(zs) + 1


def oracle_cyl(grid, mask, em, cands, kept):
    """C02 on cylindrical grids from the property text.  Returns a list of (failure class, description)."""
    out = []
    per = bool(grid.periodic[1])
    (rlo, R), (zlo, zhi) = grid.axes_bounds
    nr, nz = grid.shape
    dr, dz = R / nr, (zhi - zlo) / nz
    L = zhi - zlo
    comps = [c for c in cyl_components(mask, per) if c["on_axis"]]
    if not comps:
        if len(em) != 0:
            out.append(("count", f"image without a component on the symmetry axis yields {len(em)} droplet(s)"))
        return out
    vol_cell = lambda i: np.pi * (((i + 1) * dr) ** 2 - (i * dr) ** 2) * dz
    if len(cands) != len(comps):
        # a component that winds around the periodic z axis triggers the spanning fallback (analysis without
        # periodicity): its pieces are then reported separately -> same class as the volume deviation (F29 b)
        cls = "winding volume" if per and any(c["lifted"] is None or _zext(c) > nz for c in comps) else "count"
        out.append((cls, f"{len(cands)} candidate droplet(s) for {len(comps)} component(s) touching the axis"))
        return out
    unused = list(range(len(cands)))
    for comp in comps:
        vol = sum(vol_cell(c[0]) for c in comp["cells"])
        match_v = [k for k in unused if abs(cands[k][1] - vol) <= 1e-9 * vol]
        if not match_v:
            cls = "volume" if (comp["lifted"] is not None and not (per and _zext(comp) > nz)) else "winding volume"
            out.append((cls, f"no droplet with the total cell volume {vol} of the component {sorted(comp['cells'])[:4]}..."))
            continue
        if comp["lifted"] is None:  # winding: position unspecified
            unused.remove(match_v[0])
            continue
        w = np.array([vol_cell(c[0]) for c in comp["cells"]])
        zl = np.array([c[1] for c in comp["lifted"]], float)
        com = zlo + (float((w * zl).sum() / w.sum()) + 0.5) * dz
        com_unweighted = zlo + (float(zl.mean()) + 0.5) * dz
        okk = None
        for k in match_v:
            d = cands[k][0] - com
            if per:
                d = (d + L / 2) % L - L / 2
            if abs(d) <= 1e-9 * (1 + L):
                okk = k
                break
        if okk is None:
            # several components can have exactly the same volume (e.g. discs of 3 and 4 cells radius joined across the
            # boundary and a disc of 5 cells): among the candidates of that volume prefer the one at the unweighted mean
            # (failure class F27) before calling it a wrong position
            def off_unweighted(k):
                d = cands[k][0] - com_unweighted
                return abs((d + L / 2) % L - L / 2 if per else d)
            k = min(match_v, key=off_unweighted)
            d = off_unweighted(k)
            cls = "position is not the volume-weighted centre of mass" if abs(d) <= 1e-9 * (1 + L) else "position"
            out.append((cls, f"component {sorted(comp['cells'])[:5]}...: z={cands[k][0]}, centre of mass {com} (unweighted mean {com_unweighted})"))
            okk = k
        unused.remove(okk)
    # returned droplets never overlap (periodic metric); left out only if overlapped by one at least as large
    def dist(a, b):
        d = abs(a - b)
        return min(d, L - d) if per else d
    for a, b in itertools.combinations(kept, 2):
        if dist(cands[a][0], cands[b][0]) < cands[a][2] + cands[b][2] - 1e-12:
            out.append(("overlap", f"returned droplets at z={cands[a][0]} (r={cands[a][2]:.4g}) and z={cands[b][0]} (r={cands[b][2]:.4g}) overlap as equal-volume spheres"))
            break
    for k in range(len(cands)):
        if k not in kept and not any(j != k and cands[j][2] >= cands[k][2] - 1e-15 and
                                     dist(cands[k][0], cands[j][0]) < cands[k][2] + cands[j][2] + 1e-12 for j in range(len(cands))):
            out.append(("left out", f"component at z={cands[k][0]} left out although it overlaps no component at least as large"))
    return out


# ================================================================================================
# input dimension 8 (notes/input_dimensions.md): state kept between calls.
# An input ("member") is a JSON-able dict: family, bounds, shape, periodic and either "mask" (flat 0/1 image, C02) or
# "droplets" ([[position vector, radius], ...] rendered through Emulsion.get_phasefield, C01).  A group is a dict
# {"kind", "family", "members": [m0, m1, extras...]}: m0 and m1 share every aggregate a cache could plausibly be keyed on
# (shape, number of cells, dtype, number of image cells / droplets, radii, total volume ...) but differ otherwise; the extras
# are further images on the grid of m0.  The reference for "right" is the evaluation with fresh objects FIRST in a fresh
# interpreter (two reference interpreters run concurrently with the rest of the check: process j evaluates member j of
# every group before anything else of that group).  In the checking process the objects (grid, fields, emulsion) of a
# group are built once and reused for the whole schedule.
# ================================================================================================
SEQ_LOCATORS = ("locate_droplets", "locate_droplets_in_mask")


def seq_grid_key(spec):
    import json
    return json.dumps([spec["family"], spec["bounds"], spec["shape"], spec["periodic"]])


def seq_build_grid(spec):
    import pde
    fam = spec["family"]
    if fam == "cartesian":
        return pde.CartesianGrid([tuple(b) for b in spec["bounds"]], list(spec["shape"]), periodic=list(spec["periodic"]))
    if fam == "cylindrical":
        return pde.CylindricalSymGrid(spec["bounds"][0][1], tuple(spec["bounds"][1]), list(spec["shape"]),
                                      periodic_z=bool(spec["periodic"][1]))
    return getattr(pde, fam)(tuple(spec["bounds"][0]), int(spec["shape"][0]))


def seq_make_emulsion(spec):
    from droplets import Emulsion, SphericalDroplet
    return Emulsion([SphericalDroplet(np.array(c, float), float(r)) for c, r in spec["droplets"]])


def seq_render(grid, spec, em0=None):
    """the float64 image handed to locate_droplets: the rendered emulsion or the given 0/1 image"""
    from pde import ScalarField
    if "droplets" in spec:
        return (em0 if em0 is not None else seq_make_emulsion(spec)).get_phasefield(grid)
    return ScalarField(grid, np.array(spec["mask"], bool).reshape(grid.shape).astype(float))


def seq_locate(field, maskf):
    """both locators -> ({locator: key or 'raised ...'}, {locator: emulsion or None})"""
    from droplets.image_analysis import locate_droplets, locate_droplets_in_mask
    keys, ems = {}, {}
    for name, fn, arg in (("locate_droplets", locate_droplets, field), ("locate_droplets_in_mask", locate_droplets_in_mask, maskf)):
        try:
            em = fn(arg)
            keys[name], ems[name] = emulsion_key(em), em
        except Exception as e:  # noqa
            keys[name], ems[name] = f"raised {type(e).__name__}: {e}", None
        if isinstance(keys[name], list):
            keys[name] = [list(k) for k in keys[name]]
    return keys, ems


def seq_image_digest(field):
    import hashlib
    return hashlib.sha1(np.ascontiguousarray(field.data).tobytes()).hexdigest() + f" {field.data.dtype} {field.data.shape}"


def seq_eval_fresh(spec):
    """evaluation of one input with fresh objects (what the reference interpreters do)"""
    from pde import ScalarField
    grid = seq_build_grid(spec)
    try:
        field = seq_render(grid, spec)
    except Exception as e:  # noqa
        return {"image": f"raised {type(e).__name__}: {e}"}
    maskf = ScalarField(grid, field.data > 0.5, dtype=bool)
    keys, _ = seq_locate(field, maskf)
    return {"image": seq_image_digest(field), **keys}


def seq_failing_calls(field):
    """calls that raise documented errors, also with an object of the group; the state afterwards must not matter"""
    from droplets.image_analysis import locate_droplets, locate_droplets_in_mask
    out = []
    for fn in (lambda: locate_droplets("not a field"), lambda: locate_droplets(field, threshold="no such rule"),
               lambda: locate_droplets(field, modes=1, refine=False) if field.grid.dim == 1 else locate_droplets(field.data),
               lambda: locate_droplets_in_mask(field.data)):
        try:
            fn()
            out.append("no exception")
        except Exception as e:  # noqa
            out.append(type(e).__name__)
    return out


def seq_start_references(groups):
    import json
    import subprocess
    import sys
    procs = []
    for j in range(2):
        order = [[g_, j] for g_ in range(len(groups))] + [[g_, 1 - j] for g_ in range(len(groups))]
        order += [[g_, k] for g_, grp in enumerate(groups) for k in range(2, len(grp["members"]))]
        p = subprocess.Popen([sys.executable, __file__], stdin=subprocess.PIPE, stdout=subprocess.PIPE,
                             stderr=subprocess.DEVNULL, text=True)
        p.stdin.write(json.dumps({"groups": groups, "order": order}))
        p.stdin.close()
        procs.append(p)
    return procs


def seq_collect_references(procs, groups):
    """-> ({(group, member): result of the evaluation in the freshest state}, [(group, member, call, later, first)])"""
    import json
    outs = []
    for p in procs:
        txt = p.stdout.read()
        p.wait()
        outs.append(json.loads(txt) if p.returncode == 0 and txt.strip() else None)
    if any(o is None for o in outs):
        raise RuntimeError("reference interpreter failed")
    first, later = {}, {}
    for g_, grp in enumerate(groups):
        for k in range(len(grp["members"])):
            j = k if k < 2 else 0
            first[(g_, k)] = outs[j][f"{g_},{k}"]
            later[(g_, k)] = outs[1 - j][f"{g_},{k}"]
    diffs = [(key[0], key[1], call, v, first[key].get(call)) for key, r in later.items() for call, v in r.items()
             if v != first[key].get(call)]
    return first, diffs


def grid_arrays(grid):
    """the geometry a locator reads from the grid, incl. the arrays of its cached properties (copies)"""
    out = {}
    for name in ("cell_volumes", "cell_coords", "axes_coords", "cell_volume_data", "discretization", "axes_bounds", "shape",
                 "periodic", "volume", "typical_discretization"):
        try:
            v = getattr(grid, name)
        except Exception as e:  # noqa
            v = f"raised {type(e).__name__}"
        out[name] = _deep_copy_arrays(v)
    try:
        out["state"] = _deep_copy_arrays(grid.state)
    except Exception as e:  # noqa
        out["state"] = f"raised {type(e).__name__}"
    return out


def _deep_copy_arrays(v):
    if isinstance(v, np.ndarray):
        return v.copy()
    if isinstance(v, (tuple, list)):
        return tuple(_deep_copy_arrays(x) for x in v)
    if isinstance(v, dict):
        return {k: _deep_copy_arrays(x) for k, x in v.items()}
    return v


def _deep_equal(a, b):
    if isinstance(a, np.ndarray) or isinstance(b, np.ndarray):
        a, b = np.asarray(a), np.asarray(b)
        return a.shape == b.shape and a.dtype == b.dtype and bool(np.array_equal(a, b, equal_nan=(a.dtype.kind == "f")))
    if isinstance(a, (tuple, list)) and isinstance(b, (tuple, list)):
        return len(a) == len(b) and all(_deep_equal(x, y) for x, y in zip(a, b))
    if isinstance(a, dict) and isinstance(b, dict):
        return a.keys() == b.keys() and all(_deep_equal(a[k], b[k]) for k in a)
    return type(a) is type(b) and a == b


def changed_grid_arrays(grid, want):
    return [name for name, v in grid_arrays(grid).items() if not _deep_equal(v, want[name])]


def _arrays_of(v):
    if isinstance(v, np.ndarray):
        yield v
    elif isinstance(v, (tuple, list)):
        for x in v:
            yield from _arrays_of(x)


def seq_run_group(ctx, rng, grp, first, judge, oracle=None, quiet_counts=False):
    """The schedule of one group on REUSED objects.  judge(member index, step, what) records a failure.
    oracle(spec, grid, field, emulsions) -> failure text or None is the property oracle (state-free reference)."""
    from pde import ScalarField
    members = grp["members"]
    count = (lambda *a: None) if quiet_counts else ctx.count
    grids, twins, objs = {}, {}, {}
    pretouch = rng.random() < 0.5   # read the grid's cached arrays before the first call (then a locator sees them cached)
    count("sequence_grid_cached_arrays_read_before_first_call", pretouch)

    def get_objects(k):
        spec = members[k]
        gk = seq_grid_key(spec)
        if gk not in grids:
            grids[gk] = seq_build_grid(spec)
            twins[gk] = grid_arrays(seq_build_grid(spec))   # a fresh equal grid that no locator ever sees
            if pretouch:
                grid_arrays(grids[gk])
        if k not in objs:
            grid = grids[gk]
            em0 = seq_make_emulsion(spec) if "droplets" in spec else None
            field = seq_render(grid, spec, em0)
            maskf = ScalarField(grid, field.data > 0.5, dtype=bool)
            objs[k] = {"grid": grid, "gk": gk, "em0": em0, "field": field, "maskf": maskf, "field0": field.data.copy(),
                       "mask0": maskf.data.copy(), "em0_data": None if em0 is None else [d.data.copy() for d in em0]}
        return objs[k]

    order = [0, 1] if rng.random() < 0.5 else [1, 0]
    schedule = [(order[0], "first call"), (order[0], "same call again on the same objects"),
                (order[1], "after the input that shares its aggregates"), (order[0], "repeated after the other input"),
                (None, "calls that raise"), (order[1], "repeated after failing calls")]
    schedule += [(k, "further image on the reused grid") for k in range(2, len(members))]
    schedule += [(order[0], "after many calls on the reused grid")]
    alive = []   # every output stays alive until the end of the group: (member, step, locator, emulsion, key at creation)
    for k, step in schedule:
        if k is None:
            o = get_objects(order[0])
            count("sequence_failing_calls", ",".join(seq_failing_calls(o["field"])))
            continue
        spec = members[k]
        o = get_objects(k)
        if o["em0"] is not None and step != "first call":
            # render again from the reused Emulsion object onto the reused grid
            try:
                again = seq_render(o["grid"], spec, o["em0"])
                if not np.array_equal(again.data, o["field0"]):
                    judge(k, step, "the image rendered from the same emulsion on the same grid object differs from the first rendering")
                o["field"] = again
            except Exception as e:  # noqa
                judge(k, step, f"rendering raised {type(e).__name__}: {e}")
        keys, ems = seq_locate(o["field"], o["maskf"])
        ctx.case([grp["family"], "sequence", grp["kind"], step, k, spec], nontrivial=True)
        count("sequence_step", step)
        ref = first[k]
        if seq_image_digest(o["field"]) != ref.get("image"):
            judge(k, step, f"rendered image differs from the one rendered with fresh objects in a fresh interpreter")
        for name in SEQ_LOCATORS:
            if keys[name] != ref.get(name):
                judge(k, step, f"{name}: result {_short(keys[name])} differs from the result with fresh objects in a fresh interpreter "
                               f"{_short(ref.get(name))}")
            if ems[name] is not None:
                alive.append((k, step, name, ems[name], keys[name]))
        # arguments unchanged
        if o["field"].data.dtype != o["field0"].dtype or not np.array_equal(o["field"].data, o["field0"]):
            judge(k, step, "the data of the field passed to locate_droplets was modified")
        if o["maskf"].data.dtype != o["mask0"].dtype or not np.array_equal(o["maskf"].data, o["mask0"]):
            judge(k, step, "the data of the mask passed to locate_droplets_in_mask was modified")
        if o["em0"] is not None and not all(_deep_equal(d.data, d0) for d, d0 in zip(o["em0"], o["em0_data"])):
            judge(k, step, "the droplets of the rendered emulsion were modified")
        ch = changed_grid_arrays(o["grid"], twins[o["gk"]])
        if ch:
            judge(k, step, f"arrays of the grid object differ from those of a fresh equal grid after the call: {ch}")
        if oracle is not None and ems["locate_droplets"] is not None:
            f = oracle(spec, o["grid"], o["field"], ems)
            if f:
                judge(k, step, f"property oracle: {f}")
    # ---- outputs kept alive together
    count("sequence_outputs_kept_alive_together", len(alive) if len(alive) < 10 else ">=10")
    for k, step, name, em, key0 in alive:
        now = emulsion_key(em)
        now = [list(x) for x in now] if isinstance(now, list) else now
        if now != key0:
            judge(k, step, f"{name}: an emulsion returned earlier changed while later calls were made")
    bufs = []
    for idx, (k, step, name, em, key0) in enumerate(alive):
        for d in em:
            bufs.append((idx, d.data))
    watched = [a for o in objs.values() for a in (o["field"].data, o["maskf"].data)]
    watched += [a for g in grids.values() for v in (g.cell_volumes, g.cell_coords, g.axes_coords, g.cell_volume_data) for a in _arrays_of(v)]
    shared = False
    for i, (ia, a) in enumerate(bufs):
        if any(np.shares_memory(a, w) for w in watched):
            judge(alive[ia][0], alive[ia][1], f"{alive[ia][2]}: a returned droplet shares memory with an argument or a cached array of the grid")
            shared = True
        for ib, b in bufs[i + 1:]:
            if ia != ib and np.shares_memory(a, b):
                judge(alive[ia][0], alive[ia][1], f"{alive[ia][2]}: droplets of two emulsions returned by different calls share memory")
                shared = True
                break
        if shared:
            break
    # mutate every droplet of the first non-empty output in place; nothing else may change
    victim = next((i for i, a in enumerate(alive) if len(a[3]) > 0), None)
    count("sequence_output_mutated_in_place", victim is not None)
    if victim is not None:
        for d in alive[victim][3]:
            d.position += 1.25
            d.radius = 3 * d.radius + 1
        for i, (k, step, name, em, key0) in enumerate(alive):
            if i == victim or em is alive[victim][3]:
                if i != victim:
                    judge(k, step, f"{name}: two calls returned the same Emulsion object")
                continue
            now = emulsion_key(em)
            now = [list(x) for x in now] if isinstance(now, list) else now
            if now != key0:
                judge(k, step, f"{name}: modifying the droplets returned by another call changed this emulsion (shared droplets or buffers)")
        k = alive[victim][0]
        o = objs[k]
        keys, _ = seq_locate(o["field"], o["maskf"])
        count("sequence_step", "after modifying an earlier output in place")
        for name in SEQ_LOCATORS:
            if keys[name] != first[k].get(name):
                judge(k, "after modifying an earlier output in place", f"{name}: result {_short(keys[name])} differs from the fresh reference {_short(first[k].get(name))}")
        for gk, g in grids.items():
            ch = changed_grid_arrays(g, twins[gk])
            if ch:
                judge(k, "after modifying an earlier output in place", f"arrays of the grid object changed: {ch}")


def _short(key):
    if isinstance(key, list):
        return [[float.fromhex(x) for x in d] for d in key[:4]] + (["..."] if len(key) > 4 else [])
    return key


def sequence_oracle(ctx, rng, groups, procs, oracle=None):
    """runs every group; returns failures [{"what", "input"}] (at most one per group and failure text)"""
    fails = []
    try:
        first, diffs = seq_collect_references(procs, groups)
    except Exception as e:  # noqa
        ctx.broken.append(f"sequence oracle: reference interpreters unavailable ({type(e).__name__}: {e})")
        return fails
    seen = set()

    def add(g_, k, step, what):
        if (g_, what[:60]) in seen or sum(1 for s in seen if s[0] == g_) >= 2:
            return
        seen.add((g_, what[:60]))
        fails.append({"what": f"sequence ({groups[g_]['kind']}; step: {step}; member {k}): {what}",
                      "input": {"sequence": True, "group": groups[g_], "member": k, "step": step}})

    for g_, k, call, later, fresh in diffs:
        add(g_, k, "fresh interpreter: evaluated after the other inputs of the group", f"{call}: {_short(later)} instead of {_short(fresh)} (evaluated first)")
    for g_, grp in enumerate(groups):
        ctx.count("sequence_family", grp["family"])
        ctx.count("sequence_group_kind", grp["kind"])
        ctx.count("sequence_locators", "+".join(SEQ_LOCATORS))
        try:
            seq_run_group(ctx, rng, grp, {k: first[(g_, k)] for k in range(len(grp["members"]))},
                          lambda k, step, what, g_=g_: add(g_, k, step, what), oracle)
        except Exception as e:  # noqa
            add(g_, 0, "schedule", f"raised {type(e).__name__}: {e}")
    return fails


def replay_sequence(inp, oracle=None):
    """replay of a failing sequence input (fresh reference interpreters for this one group)"""
    import random

    class _Ctx:
        broken = []

        def count(self, *a, **k):
            pass

        def case(self, *a, **k):
            pass
    groups = [inp["group"]]
    fails = sequence_oracle(_Ctx(), random.Random(0), groups, seq_start_references(groups), oracle)
    fails += sequence_oracle(_Ctx(), random.Random(1), groups, seq_start_references(groups), oracle)
    return fails[0]["what"] if fails else (_Ctx.broken[0] if _Ctx.broken else None)


if __name__ == "__main__":  # reference interpreter of seq_start_references
    import json
    import sys
    import warnings
    warnings.simplefilter("ignore")
    job = json.load(sys.stdin)
    res = {}
    for g_, k in job["order"]:
        res[f"{g_},{k}"] = seq_eval_fresh(job["groups"][g_]["members"][k])
    json.dump(res, sys.stdout)
