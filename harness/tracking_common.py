"""Shared helpers of the C06 / C07 checks (droplet tracking).

A *history* is a plain dict (JSON-able, used verbatim as replay input):
    {"dim": d, "grid": None | [[lo, hi, ncells, periodic], ...] | {"kind": "cylinder" | "spherical" | "polar", ...},
     "times": [t0, t1, ...], "frames": [[[pos..., radius], ...], ...],
     "var": {...}}          (optional; every key has a default, see VAR_DEFAULT)
"var" says HOW the time course and the call are put together from these values (audit against
notes/input_dimensions.md): droplet class (and a unique tag carried in a field that neither `overlaps` nor the
distance looks at), provenance of the objects (copy / deepcopy / pickle / file / append / shared objects / result of a
previous tracking), numeric type of the time codes and of `max_dist`, sign of a zero time code, `progress`, whether
`method` / `max_dist` are passed or left at their defaults, and whether one time course and one grid object are reused
for all calls.
A *config* is ("overlap", None) or ("distance", max_dist) with max_dist a float or None (= default inf).

Droplets are identified by (frame index, index in the frame).  The implementation copies droplets on
append, so droplets of the result are matched back by their data (time stamp, class, bytes of the data record); every
generator makes this triple unique inside a history.  WITHOUT the time stamp (needed to judge C07 on results whose
stamps are wrong) the identification may be ambiguous -- a droplet that does not change between two frames --; the
ambiguous case is handled explicitly: every identification that is consistent with the data is enumerated and a
statement counts as violated only if it is violated under every one of them (`ident_alternatives`).
"""
from __future__ import annotations

import contextlib
import copy
import functools
import io
import itertools
import math
import numbers
import os
import pickle
import random
import tempfile
from fractions import Fraction

import numpy as np

import vlib

INF = float("inf")

VAR_DEFAULT = {
    "cls": "spherical",        # spherical | diffuse | perturbed | mixed (class by (frame + index) % 3)
    "tag": False,              # diffuse / perturbed droplets carry a unique interface_width
    "prov": "fresh",           # see PROVENANCES
    "time_type": "float",      # float | int | np.float64 | np.int64 | np.float32 | mixed   (0d: accepted in replays only)
    "neg_zero": False,         # a time code 0 is written -0.0 (float kinds only)
    "md_type": "float",        # float | int | np.float64 | np.float32 | 0d   (type of a finite max_dist)
    "md_inf": "omit",          # omit | inf | np.inf                        (how the default cut-off is passed)
    "progress": None,          # None (omitted) | False | True
    "method_default": False,   # the overlap method is selected by NOT passing `method`
    "reuse": False,            # one time course + one grid object for all configs; first config run twice
    "overlap_max_dist": False,  # method="overlap" is called with max_dist=1.0 (documented as unused: a warning is logged)
}
PROVENANCES = ["fresh", "droplet_copy", "droplet_deepcopy", "droplet_pickle", "emulsion_copy", "emulsion_pickle",
               "etc_pickle", "etc_deepcopy", "etc_copyctor", "etc_append", "etc_append_nocopy", "etc_slice",
               "etc_file", "shared_objects", "from_tracks", "ctor_tuples", "ctor_array_times", "ctor_one_shot_iterables"]
# inputs that are reported in the evidence notes but not judged (see notes/audit_task.md); each entry:
# (name, what happens, why it is not judged)
SUSPECTED = [
    ("max_dist=None passed explicitly",
     "TypeError ('>' not supported between 'float' and 'NoneType') as soon as a frame with droplets follows a frame "
     "with droplets (method='distance')",
     "the docstring documents `max_dist` as 'a maximal distance'; None is not a distance, the default is np.inf "
     "(decision of the lead pending)"),
]


def var_of(hist):
    v = dict(VAR_DEFAULT)
    v.update(hist.get("var") or {})
    return v


def is_cart(hist):
    return hist["grid"] is None or isinstance(hist["grid"], list)


# ---------------------------------------------------------------------------------------------
# running the implementation
# ---------------------------------------------------------------------------------------------
def make_grid(spec):
    if spec is None:
        return None
    if isinstance(spec, dict):
        import pde
        if spec["kind"] == "cylinder":
            return pde.CylindricalSymGrid(spec["radius"], tuple(spec["z"]), tuple(spec["shape"]),
                                          periodic_z=bool(spec["periodic_z"]))
        r = spec["radius"]
        r = tuple(r) if isinstance(r, (list, tuple)) else r
        if spec["kind"] == "spherical":
            return pde.SphericalSymGrid(r, spec["shape"])
        if spec["kind"] == "polar":
            return pde.PolarSymGrid(r, spec["shape"])
        raise KeyError(spec["kind"])
    from pde import CartesianGrid
    return CartesianGrid([(a[0], a[1]) for a in spec], [a[2] for a in spec], periodic=[bool(a[3]) for a in spec])


def droplet_class(var, dim, f, j):
    c = var["cls"]
    if c == "mixed":
        c = ("spherical", "diffuse", "perturbed")[(f + j) % 3]
    if c == "perturbed" and dim == 1:
        c = "diffuse"
    return c


def make_droplet(d, cname, tag):
    from droplets import DiffuseDroplet, SphericalDroplet
    pos, r = np.array(d[:-1], dtype=float), float(d[-1])
    if cname == "spherical":
        return SphericalDroplet(pos, r)
    if cname == "diffuse":
        return DiffuseDroplet(pos, r, interface_width=tag)
    from droplets.droplets import PerturbedDroplet2D, PerturbedDroplet3D
    if len(pos) == 2:
        return PerturbedDroplet2D(pos, r, interface_width=tag, amplitudes=[0.0625, -0.03125])
    return PerturbedDroplet3D(pos, r, interface_width=tag, amplitudes=[0.0625, 0.0, -0.03125])


def make_droplets(hist):
    """reference droplets, freshly constructed from the values of the history"""
    var = var_of(hist)
    out, uid = [], 0
    for f, fr in enumerate(hist["frames"]):
        row = []
        for j, d in enumerate(fr):
            uid += 1
            row.append(make_droplet(d, droplet_class(var, hist["dim"], f, j), uid * 2.0 ** -12 if var["tag"] else None))
        out.append(row)
    return out


def _integral(x):
    return float(x) == int(x)


def make_times(hist):
    """time codes in the numeric type the history asks for (values unchanged)"""
    var = var_of(hist)
    tt = var["time_type"]
    out = []
    for i, t in enumerate(hist["times"]):
        t = float(t)
        kind = tt
        if kind == "mixed":
            kind = ("int", "float", "np.float64")[i % 3]
        if kind in ("int", "np.int64") and not _integral(t):
            kind = "float"
        if kind == "np.int64" and abs(t) >= 2.0 ** 62:
            kind = "int"
        if kind == "int" and abs(t) >= 2.0 ** 62 and var["prov"] == "etc_file":
            kind = "float"          # HDF5 attributes cannot hold Python integers beyond 64 bits (not tracking's business)
        if kind == "np.float32" and float(np.float32(t)) != t:
            kind = "np.float64"
        if t == 0 and var["neg_zero"] and kind in ("float", "np.float64", "np.float32", "0d"):
            t = -0.0
        out.append({"float": float, "int": int, "np.float64": np.float64, "np.int64": np.int64,
                    "np.float32": np.float32, "0d": lambda x: np.array(float(x))}[kind](t))
    return out


def make_max_dist_kwargs(hist, max_dist):
    """-> (kwargs, label of the kind actually used)"""
    var = var_of(hist)
    if max_dist is None or math.isinf(max_dist):
        how = var["md_inf"] if max_dist is None else "inf"
        if how == "omit":
            return {}, "omitted"
        return {"max_dist": float("inf") if how == "inf" else np.inf}, how
    mt = var["md_type"]
    if mt == "int" and not _integral(max_dist):
        mt = "float"
    if mt == "np.float32" and float(np.float32(max_dist)) != max_dist:
        mt = "np.float64"
    val = {"float": float, "int": int, "np.float64": np.float64, "np.float32": np.float32,
           "0d": lambda x: np.array(float(x))}[mt](max_dist)
    return {"max_dist": val}, mt


def _dkey(d):
    """identity of a droplet's content: class + bytes of its data record"""
    return (type(d).__name__, d.data.tobytes())


def _scratch_dir():
    d = vlib.BUILD / "cases" / "tracking_tmp"
    d.mkdir(parents=True, exist_ok=True)
    return d


def apply_provenance(hist, drops, times):
    """time course whose objects have the provenance the history asks for"""
    from droplets import DropletTrackList, Emulsion, EmulsionTimeCourse
    prov = var_of(hist)["prov"]
    if prov == "droplet_copy":
        drops = [[d.copy() for d in fr] for fr in drops]
    elif prov == "droplet_deepcopy":
        drops = [[copy.deepcopy(d) for d in fr] for fr in drops]
    elif prov == "droplet_pickle":      # what worker processes return
        drops = [[pickle.loads(pickle.dumps(d)) for d in fr] for fr in drops]
    ems = [Emulsion(fr) for fr in drops]
    if prov == "emulsion_copy":
        ems = [e.copy() for e in ems]
    elif prov == "emulsion_pickle":
        ems = [pickle.loads(pickle.dumps(e)) for e in ems]
    caller = None
    if prov in ("etc_append", "etc_append_nocopy"):
        etc = EmulsionTimeCourse()
        for e, t in zip(ems, times):
            etc.append(e, time=t, copy=(prov == "etc_append"))
    elif prov == "ctor_tuples":          # the constructor's arguments are the caller's tuples, inspected after every call
        caller = {"emulsions": tuple(ems), "times": tuple(times)}
        etc = EmulsionTimeCourse(caller["emulsions"], caller["times"])
    elif prov == "ctor_array_times":     # times: np.ndarray (documented)
        caller = {"emulsions": list(ems), "times": np.array([float(t) for t in times], dtype=float)}
        etc = EmulsionTimeCourse(caller["emulsions"], caller["times"])
    elif prov == "ctor_one_shot_iterables":   # emulsions: Iterable[Emulsion] (documented) given as a generator, each
        # emulsion built from a generator of droplets; times as an iterator over a tuple
        caller = {"emulsions": tuple(ems), "times": tuple(times)}
        etc = EmulsionTimeCourse((Emulsion(d for d in e) for e in caller["emulsions"]), iter(caller["times"]))
    else:
        etc = EmulsionTimeCourse(ems, list(times))
    if caller is not None:
        caller["before"] = _caller_snapshot(caller)
    if prov == "etc_pickle":
        etc = pickle.loads(pickle.dumps(etc))
    elif prov == "etc_deepcopy":
        etc = copy.deepcopy(etc)
    elif prov == "etc_copyctor":
        etc = EmulsionTimeCourse(etc)
    elif prov == "etc_slice":
        etc = etc[0:len(etc.times)]
    elif prov == "etc_file":            # element of a file-read collection (time codes come back as numpy scalars)
        fd, path = tempfile.mkstemp(suffix=".h5", dir=_scratch_dir())
        os.close(fd)
        try:
            import warnings
            with warnings.catch_warnings():
                warnings.simplefilter("ignore")
                etc.to_file(path)
                etc = EmulsionTimeCourse.from_file(path, progress=False)
        finally:
            os.remove(path)
    elif prov == "shared_objects":      # one droplet object is a member of several frames
        pool = {}
        for e in etc.emulsions:
            for j in range(len(e)):
                k = _dkey(e[j])
                if k in pool:
                    list.__setitem__(e, j, pool[k])
                else:
                    pool[k] = e[j]
    elif prov == "from_tracks":         # result of a previous operation: the droplet objects of an earlier tracking
        with contextlib.redirect_stderr(io.StringIO()):
            trs = DropletTrackList.from_emulsion_time_course(etc)
        have = {}
        for tr in trs:
            for t, d in zip(tr.times, tr.droplets):
                have.setdefault((float(t),) + _dkey(d), d)
        for t, e in zip(etc.times, etc.emulsions):
            for j in range(len(e)):
                d = have.get((float(t),) + _dkey(e[j]))
                if d is not None:
                    list.__setitem__(e, j, d)
    return etc, caller


def _caller_snapshot(caller):
    ts = caller["times"]
    return (type(caller["emulsions"]).__name__, [[_dkey(d) for d in e] for e in caller["emulsions"]], [id(e) for e in caller["emulsions"]],
            type(ts).__name__, ts.tobytes() if isinstance(ts, np.ndarray) else [repr(t) for t in ts])


def build_input(hist):
    """-> dict(grid, etc, refs, problems, caller): the objects handed to the implementation and fresh reference droplets;
    caller: the containers given to the EmulsionTimeCourse constructor (tuples / array), inspected after every call"""
    refs = make_droplets(hist)
    times = make_times(hist)
    etc, caller = apply_provenance(hist, make_droplets(hist), times)
    problems = []
    if caller is not None:
        if not isinstance(etc.times, list) or not isinstance(etc.emulsions, list) or etc.times is caller["times"] \
                or etc.emulsions is caller["emulsions"] or any(a is b for a in etc.emulsions for b in caller["emulsions"]):
            problems.append("time course shares its times / emulsions containers (or emulsions) with the constructor's arguments")
    # the provenance must not change the values (otherwise another property's subject is broken: report, do not hide)
    ok = len(etc.times) == len(times) and len(etc.emulsions) == len(refs)
    if ok:
        for f in range(len(refs)):
            if not (float(etc.times[f]) == float(hist["times"][f])) or len(etc.emulsions[f]) != len(refs[f]):
                ok = False
                break
            if any(_dkey(a) != _dkey(b) or a.data.dtype != b.data.dtype for a, b in zip(etc.emulsions[f], refs[f])):
                ok = False
                break
    if not ok:
        problems.append(f"time course built with provenance {var_of(hist)['prov']!r} does not hold the given times / droplets")
    return {"grid": make_grid(hist["grid"]), "etc": etc, "refs": refs, "problems": problems, "caller": caller}


def make_time_course(hist, drops=None):
    return build_input(hist)["etc"]


def _key(t, d):
    return (float(t),) + _dkey(d)


def hist_keys(hist, refs=None):
    refs = refs if refs is not None else make_droplets(hist)
    keys = {}
    for f, fr in enumerate(refs):
        for j, d in enumerate(fr):
            k = _key(hist["times"][f], d)
            if k in keys:
                raise RuntimeError(f"generator produced indistinguishable droplets: frame {f}, {hist['frames'][f][j]}")
            keys[k] = (f, j)
    return keys


def _snapshot(etc):
    """Bit-exact, structure-revealing snapshot of a time course."""
    return ([repr(t) for t in etc.times],
            [[(type(d).__name__, d.data.tobytes(), d.data.dtype) for d in e] for e in etc.emulsions])


def _grid_snapshot(grid):
    """state of a grid object including the arrays its (cached) properties hand out"""
    if grid is None:
        return None
    out = [type(grid).__name__, repr(grid.state)]
    for name in ("periodic", "shape", "axes_bounds", "discretization", "axes_coords", "cell_volume_data", "volume"):
        try:
            v = getattr(grid, name)
        except Exception:  # noqa
            continue
        if isinstance(v, np.ndarray):
            out.append((name, v.tobytes()))
        elif isinstance(v, (tuple, list)) and all(isinstance(x, np.ndarray) for x in v):
            out.append((name, [x.tobytes() for x in v]))
        else:
            out.append((name, repr(v)))
    return out


def _real_time(t):
    """a time stamp must be a real, non-NaN number (Python or numpy scalar, 0-d array)"""
    if isinstance(t, bool):
        return False
    if isinstance(t, np.ndarray):
        if t.ndim != 0 or t.dtype.kind not in "fiu":
            return False
        t = t[()]
    if not isinstance(t, (numbers.Real, np.floating, np.integer)):
        return False
    return not math.isnan(float(t))


MAX_ALTERNATIVES = 720


def ident_alternatives(keys, struct):
    """Identification of the droplets of a result WITHOUT their time stamps.
    keys: (time, class, bytes) -> (f, j) of the history;  struct: tracks as lists of (stamp, class, bytes).
    Returns (list of alternative track lists [[stamp, f, j], ...], note).  Every identification that is consistent with
    the data (a bijection between result droplets and history droplets of equal content) is returned; [] when there is
    none (droplets lost / duplicated / altered: C06's statement) or there are more than MAX_ALTERNATIVES."""
    groups = {}
    for (t_, *k), fj in keys.items():
        groups.setdefault(tuple(k), []).append(fj)
    places = {}
    for a, tr in enumerate(struct):
        if not tr:
            return [], "impossible"
        for b, (t, *k) in enumerate(tr):
            places.setdefault(tuple(k), []).append((a, b))
    if set(places) != set(groups) or any(len(places[k]) != len(groups[k]) for k in groups):
        return [], "impossible"
    amb = sorted(k for k in groups if len(groups[k]) > 1)
    total = 1
    for k in amb:
        total *= math.factorial(len(groups[k]))
        if total > MAX_ALTERNATIVES:
            return [], "too-many"
    base = [[[float(t), None, None] for (t, *k) in tr] for tr in struct]
    for k in groups:
        if len(groups[k]) == 1:
            (a, b), (f, j) = places[k][0], groups[k][0]
            base[a][b][1:] = [f, j]
    alts = []
    for choice in itertools.product(*[itertools.permutations(sorted(groups[k])) for k in amb]):
        alt = [[list(e) for e in tr] for tr in base]
        for k, perm in zip(amb, choice):
            for (a, b), (f, j) in zip(places[k], perm):
                alt[a][b][1:] = [f, j]
        alts.append(alt)
    return alts, ("unique" if not amb else "alternatives")


def run_impl(hist, config, deep=True, prebuilt=None, keep=False):
    """Run from_emulsion_time_course.  Returns dict:
       raised : None | exception class name
       tracks : list of tracks, each a list of [time, f, j]   (None if raised / not canonicalisable)
       ident_alts : identifications without the time stamps (see ident_alternatives)
       problems : list of strings (property text items that can be judged while canonicalising:
                  droplet altered / unknown, input modified, wrong return type)"""
    from droplets import DropletTrack, DropletTrackList
    method, max_dist = config
    var = var_of(hist)
    inp = prebuilt if prebuilt is not None else build_input(hist)
    grid, etc, originals = inp["grid"], inp["etc"], inp["refs"]
    before = _snapshot(etc)
    before_grid = _grid_snapshot(grid)
    before_copy = copy.deepcopy(etc) if deep else None
    kwargs, md_kind = ({}, "n/a") if method == "overlap" else make_max_dist_kwargs(hist, max_dist)
    if not (method == "overlap" and var["method_default"]):
        kwargs["method"] = method
    if method == "overlap" and var["overlap_max_dist"]:
        kwargs["max_dist"] = 1.0
    if var["progress"] is not None:
        kwargs["progress"] = bool(var["progress"])
    out = {"raised": None, "tracks": None, "problems": list(inp["problems"]), "msg": "", "md_kind": md_kind,
           "ident_alts": [], "ident_note": "n/a", "tracks_partial": []}
    try:
        with contextlib.redirect_stderr(io.StringIO()):     # progress bars
            res = DropletTrackList.from_emulsion_time_course(etc, grid=grid, **kwargs)
    except Exception as e:  # noqa
        out["raised"] = type(e).__name__
        out["msg"] = str(e)[:200]
        res = None
    try:
        if _snapshot(etc) != before or (deep and not (etc == before_copy)):
            out["problems"].append("input time course modified")
        if _grid_snapshot(grid) != before_grid:
            out["problems"].append("grid object modified")
        if inp.get("caller") is not None and _caller_snapshot(inp["caller"]) != inp["caller"]["before"]:
            out["problems"].append("containers given to the EmulsionTimeCourse constructor (tuple / array) modified")
    except Exception as e:  # noqa
        out["problems"].append(f"input cannot be inspected after the call ({type(e).__name__}: {str(e)[:100]})")
    if keep:
        out["_res"], out["_inp"] = res, inp
    if res is None:
        return out
    try:
        _canonicalise(hist, out, res, etc, originals, deep, DropletTrack, DropletTrackList)
    except Exception as e:  # noqa -- a result of the wrong kind is a failure of the property, not of the check
        out["problems"].append(f"result is not a list of droplet tracks that can be read ({type(e).__name__}: {str(e)[:120]})")
        out["tracks"] = None
    return out


def _canonicalise(hist, out, res, etc, originals, deep, DropletTrack, DropletTrackList):
    if not isinstance(res, DropletTrackList):
        out["problems"].append(f"result is a {type(res).__name__}, not a DropletTrackList")
    keys = hist_keys(hist, originals)
    tracks, struct = [], []
    ok = True
    for tr in res:
        if not isinstance(tr, DropletTrack):
            out["problems"].append(f"element of the result is a {type(tr).__name__}, not a DropletTrack")
            ok = False
            continue
        if len(tr.times) != len(tr.droplets):
            out["problems"].append("track with different numbers of times and droplets")
            ok = False
            continue
        if len(tr.times) == 0:
            out["problems"].append("empty track returned")
            ok = False
            struct.append([])
            continue
        ent, st = [], []
        for t, d in zip(tr.times, tr.droplets):
            if not _real_time(t):
                out["problems"].append(f"time stamp {t!r} is not a real number")
                ok = False
                st.append((float("nan"),) + _dkey(d))
                continue
            k = _key(t, d)
            st.append(k)
            if k not in keys:
                out["problems"].append(f"droplet in a track is not a droplet of its frame (altered data or wrong time stamp): "
                                       f"time={t!r} {d!r}")
                ok = False
                continue
            f, j = keys[k]
            orig = originals[f][j]
            if type(d) is not type(orig) or d.data.tobytes() != orig.data.tobytes() or d.data.dtype != orig.data.dtype \
                    or (deep and not (d == orig)):
                out["problems"].append(f"droplet ({f},{j}) altered")
            if any(d is o for e in etc.emulsions for o in e):
                out["problems"].append(f"track shares droplet object ({f},{j}) with the input (no copy)")
            ent.append([float(t), f, j])
        tracks.append(ent)
        struct.append(st)
    ids = [id(d) for tr in res if isinstance(tr, DropletTrack) for d in tr.droplets]
    if len(set(ids)) != len(ids):
        out["problems"].append("one droplet object is an entry of two tracks / two entries of a track")
    out["tracks"] = tracks if ok else None
    out["tracks_partial"] = tracks
    if ok:
        out["ident_alts"], out["ident_note"] = [tracks], "stamps-right"
    else:
        out["ident_alts"], out["ident_note"] = ident_alternatives(keys, struct)


# ---------------------------------------------------------------------------------------------
# the implementation's overlap relation and distance table
# ---------------------------------------------------------------------------------------------
def needed_pairs(hist, full=False):
    """(a, b) pairs the algorithm may consult: a in frame f-1 or an earlier droplet of frame f, b in frame f.
    full: every pair with frame(a) <= frame(b) (needed when times are not strictly increasing)."""
    sizes = [len(fr) for fr in hist["frames"]]
    pairs = []
    for f, n in enumerate(sizes):
        srcs = range(0, f + 1) if full else range(max(0, f - 1), f + 1)
        for g in srcs:
            for i in range(sizes[g]):
                for j in range(n):
                    if g == f and i == j:
                        continue
                    pairs.append(((g, i), (f, j)))
    return pairs


class TableError(Exception):
    """the overlap predicate / the distance of the implementation gave something that is not a bool / a finite float"""


def impl_tables(hist, full=False):
    """ov[(a,b)] = a.overlaps(b, grid=grid);  D[(a,b)] = cdist entry with the metric the code uses."""
    from scipy.spatial import distance
    grid = make_grid(hist["grid"])
    drops = make_droplets(hist)
    metric = "euclidean" if grid is None else functools.partial(grid.distance, coords="cartesian")
    ov, D = {}, {}
    for a, b in needed_pairs(hist, full):
        da, db = drops[a[0]][a[1]], drops[b[0]][b[1]]
        try:
            o = da.overlaps(db, grid=grid)
            d = distance.cdist([da.position], [db.position], metric=metric)[0, 0]
        except Exception as e:  # noqa
            raise TableError(f"overlaps / distance of droplets {a} and {b} raised {type(e).__name__}: {str(e)[:120]}")
        if not isinstance(o, (bool, np.bool_)):
            raise TableError(f"overlaps({a},{b}) returned {o!r} ({type(o).__name__}), not a bool")
        if isinstance(d, complex) or not isinstance(d, (float, np.floating)) or not math.isfinite(float(d)):
            raise TableError(f"distance of {a} and {b} is {d!r}, not a finite float")
        ov[(a, b)] = bool(o)
        D[(a, b)] = float(d)
    return ov, D


# ---------------------------------------------------------------------------------------------
# exact reference metric (independent of py-pde): squared periodic distance as a Fraction
# ---------------------------------------------------------------------------------------------
def exact_dist2(hist, a, b):
    pa = hist["frames"][a[0]][a[1]][:-1]
    pb = hist["frames"][b[0]][b[1]][:-1]
    tot = Fraction(0)
    for ax, (x, y) in enumerate(zip(pa, pb)):
        d = Fraction(y) - Fraction(x)
        if hist["grid"] is not None and hist["grid"][ax][3]:
            L = Fraction(hist["grid"][ax][1]) - Fraction(hist["grid"][ax][0])
            d = (d + L / 2) % L - L / 2
        tot += d * d
    return tot


def exact_overlap(hist, a, b):
    ra = Fraction(hist["frames"][a[0]][a[1]][-1])
    rb = Fraction(hist["frames"][b[0]][b[1]][-1])
    s = ra + rb
    return s > 0 and exact_dist2(hist, a, b) < s * s


def metric_failures(hist, ov, D):
    """Property text (C07): distances and overlaps are measured with the (periodic) grid metric.
    Judged on Cartesian grids (and without grid); on cylindrical / spherical / polar grids the metric is whatever
    py-pde's grid.distance computes (the periodic z-axis of a cylinder is not wrapped by py-pde 0.58: dependency)."""
    fails = []
    if not is_cart(hist):
        return fails
    for (a, b), d in D.items():
        d2 = exact_dist2(hist, a, b)
        # d is the correctly rounded sqrt of a sum of exactly representable squares (coarse dyadic inputs):
        # |d^2 - d2| <= d2 * 2^-50
        if abs(Fraction(d) ** 2 - d2) > d2 * Fraction(1, 2 ** 50):
            fails.append(f"distance of {a}->{b} is {d!r}, grid metric gives sqrt({float(d2)!r})")
    for (a, b), o in ov.items():
        if o != exact_overlap(hist, a, b):
            fails.append(f"overlaps({a},{b}) = {o}, grid metric says {not o}")
    return fails


# ---------------------------------------------------------------------------------------------
# property oracles, written from the property text
# ---------------------------------------------------------------------------------------------
def inframe_nonoverlap(hist, ov):
    for f, fr in enumerate(hist["frames"]):
        for i in range(len(fr)):
            for j in range(len(fr)):
                if i != j and ov[((f, i), (f, j))]:
                    return False
    return True


def strictly_increasing(ts):
    return all(a < b for a, b in zip(ts, ts[1:]))


def oracle_C06(hist, config, res, ov):
    """Returns list of failure strings (empty = property holds on this input)."""
    fails = []
    if res["raised"]:
        return [f"raised {res['raised']}: {res['msg']}"]
    fails += res["problems"]
    tracks = res["tracks"] if res["tracks"] is not None else res.get("tracks_partial", [])
    seen = {}
    for k, tr in enumerate(tracks):
        for (t, f, j) in tr:
            seen[(f, j)] = seen.get((f, j), 0) + 1
            if t != float(hist["times"][f]):
                fails.append(f"droplet ({f},{j}) stamped with time {t!r}, frame time is {hist['times'][f]!r}")
    for f, fr in enumerate(hist["frames"]):
        for j in range(len(fr)):
            c = seen.get((f, j), 0)
            if c != 1:
                fails.append(f"droplet ({f},{j}) appears {c} times in the tracks")
    if inframe_nonoverlap(hist, ov) and strictly_increasing(hist["times"]):
        for k, tr in enumerate(tracks):
            fs = [f for (_, f, _) in tr]
            if len(set(fs)) != len(fs):
                fails.append(f"track {k} holds two droplets of one frame: frames {fs}")
            elif fs != list(range(fs[0], fs[0] + len(fs))):
                fails.append(f"track {k} does not cover a gap-free run of consecutive frames: {fs}")
    return fails


def links_of(tracks):
    """frame f -> set of ((f-1? any), (f, j)) consecutive pairs whose second droplet is in frame f."""
    links = {}
    for tr in tracks:
        for (t1, f1, j1), (t2, f2, j2) in zip(tr, tr[1:]):
            links.setdefault(f2, set()).add(((f1, j1), (f2, j2)))
    return links


def greedy_reference(rows, cols, W):
    """'repeatedly join the closest remaining pair' (W[(a,b)] = distance or None when beyond the cut-off).
    Returns None when the closest pair is not unique at some step (the text then fixes nothing)."""
    rows, cols, out = list(rows), list(cols), set()
    while True:
        cand = [(W[(a, b)], a, b) for a in rows for b in cols if W[(a, b)] is not None]
        if not cand:
            return out
        m = min(c[0] for c in cand)
        best = [c for c in cand if c[0] == m]
        if len(best) > 1:
            return None
        _, a, b = best[0]
        out.add((a, b))
        rows.remove(a)
        cols.remove(b)


def ident_candidates(res):
    """the identifications of the result's droplets under which the identity statements are judged: the one given by the
    (right) time stamps, else every identification consistent with the droplets' data"""
    if res["raised"]:
        return []
    if res["tracks"] is not None:
        return [res["tracks"]]
    return res.get("ident_alts") or []


def oracle_C07(hist, config, res, ov, D):
    """C07 is quantified over time courses whose droplets do not overlap within a frame (checked inside for the
    statements that need it).  A result that raised, or whose droplets cannot be identified at all (lost, duplicated,
    altered droplets), is C06's business.  When the time stamps are wrong and a droplet's data occur in several frames,
    a statement counts as violated only if it is violated under EVERY consistent identification."""
    cands = ident_candidates(res)
    if not cands:
        return []
    best = None
    for tracks in cands:
        fs = _judge_C07(hist, config, tracks, ov, D)
        if not fs:
            return []
        if best is None or len(fs) < len(best):
            best = fs
    if len(cands) > 1:
        best = [f + f"  [under each of the {len(cands)} identifications of the unstamped droplets]" for f in best[:3]]
    return best


def _judge_C07(hist, config, tracks, ov, D):
    fails = []
    method, max_dist = config
    sizes = [len(fr) for fr in hist["frames"]]
    links = links_of(tracks)
    starts = {(tr[0][1], tr[0][2]) for tr in tracks}
    ends = {(tr[-1][1], tr[-1][2]) for tr in tracks}
    clean = inframe_nonoverlap(hist, ov) and strictly_increasing(hist["times"])
    md = INF if max_dist is None else max_dist
    for f2, ls in links.items():
        for (a, b) in ls:
            if a[0] != f2 - 1 and clean:
                fails.append(f"link {a}->{b} skips or repeats a frame")
    if not clean:
        # the text quantifies over non-overlapping frames; only the unconditional parts are judged
        for f2, ls in links.items():
            for (a, b) in ls:
                if (a, b) not in ov:
                    continue
                if method == "overlap" and not ov[(a, b)]:
                    fails.append(f"overlap method linked {a}->{b} which do not overlap")
                if method == "distance" and D[(a, b)] > md:
                    fails.append(f"distance method linked {a}->{b} at distance {D[(a, b)]!r} > cut-off {md!r}")
        return fails
    for f in range(len(sizes)):
        prev = [(f - 1, i) for i in range(sizes[f - 1])] if f > 0 else []
        now = [(f, j) for j in range(sizes[f])]
        ls = links.get(f, set())
        ls_known = {(a, b) for (a, b) in ls if (a, b) in ov and (a, b) in D}   # others: reported as frame-skipping links
        if method == "overlap":
            for (a, b) in ls_known:
                if not ov[(a, b)]:
                    fails.append(f"overlap method linked {a}->{b} which do not overlap")
            for b in now:
                if not any(ov[(a, b)] for a in prev) and b not in starts:
                    fails.append(f"droplet {b} overlaps no droplet of the previous frame but does not start a track")
            rel = {(a, b) for a in prev for b in now if ov[(a, b)]}
            one_to_one = (all(sum(1 for (a, b) in rel if a == x) <= 1 for x in prev)
                          and all(sum(1 for (a, b) in rel if b == y) <= 1 for y in now))
            if one_to_one and ls != rel:
                fails.append(f"overlap relation between frames {f - 1} and {f} is one-to-one ({sorted(rel)}) but links are {sorted(ls)}")
        else:
            for (a, b) in ls_known:
                if D[(a, b)] > md:
                    fails.append(f"distance method linked {a}->{b} at distance {D[(a, b)]!r} > cut-off {md!r}")
            linked_prev = {a for (a, b) in ls}
            linked_now = {b for (a, b) in ls}
            for a in prev:
                for b in now:
                    if a not in linked_prev and b not in linked_now and D[(a, b)] <= md:
                        fails.append(f"track ends with {a} while a new track starts with {b} within the cut-off "
                                     f"(distance {D[(a, b)]!r} <= {md!r})")
            W = {(a, b): (D[(a, b)] if D[(a, b)] <= md else None) for a in prev for b in now}
            ref = greedy_reference(prev, now, W)
            if ref is not None and ref != ls:
                fails.append(f"frame {f}: links {sorted(ls)} differ from closest-pair-first matching {sorted(ref)}")
    return fails


# ---------------------------------------------------------------------------------------------
# generators
# ---------------------------------------------------------------------------------------------
def lattice_class(name):
    """Small exhaustive classes: droplet kinds (position, radius) on a lattice; radii chosen so that
    touching (d == r1 + r2, not an overlap), overlapping and distance ties all occur.  Origins differ between the
    classes (0, centred box, entirely negative coordinates); the periodic axis is the first, the last or the middle one."""
    if name == "1d-3x2":       # 3 positions x 2 radii, period 3 when periodic; box centred on the origin
        kinds = [[x, r] for x in (-1.0, 0.0, 1.0) for r in (0.5, 0.75)]
        return {"dim": 1, "kinds": kinds, "grid": [[-1.5, 1.5, 3, True]], "cutoffs": [None, 1.0, 0.5]}
    if name == "1d-4x2":
        kinds = [[x, r] for x in (0.5, 1.5, 2.5, 3.5) for r in (0.5, 0.75)]
        return {"dim": 1, "kinds": kinds, "grid": [[0.0, 4.0, 4, True]], "cutoffs": [None, 1.0, 1.5]}
    if name == "1d-2x2":
        # at distance 1: 0.375+0.375 apart, 0.375+0.625 touching (not an overlap), 0.625+0.625 overlapping
        kinds = [[x, r] for x in (0.5, 1.5) for r in (0.375, 0.625)]
        return {"dim": 1, "kinds": kinds, "grid": [[0.0, 2.0, 2, True]], "cutoffs": [None, 1.0, 0.5]}
    if name == "2d-2x2":       # 2 x 2 lattice, one radius, periodic in x only (period 3): periodic axis first
        kinds = [[x, y, 0.625] for x in (0.5, 2.5) for y in (0.5, 1.5)]
        return {"dim": 2, "kinds": kinds, "grid": [[0.0, 3.0, 3, True], [0.0, 2.0, 2, False]],
                "cutoffs": [None, 1.0, 1.25]}
    if name == "2d-2x2T":      # the same transposed: periodic axis LAST, coordinates entirely negative, cut-off 0
        kinds = [[y, x, 0.625] for x in (-2.5, -0.5) for y in (-5.5, -4.5)]
        return {"dim": 2, "kinds": kinds, "grid": [[-6.0, -4.0, 2, False], [-3.0, 0.0, 3, True]],
                "cutoffs": [None, 1.0, 0.0]}
    if name == "3d-mid":       # periodic axis in the MIDDLE, a 1-cell axis first, shifted positive origin
        kinds = [[7.5, y, z, 0.625] for y in (10.5, 12.5) for z in (0.5, 1.5)]
        return {"dim": 3, "kinds": kinds, "grid": [[7.0, 8.0, 1, False], [10.0, 13.0, 3, True], [0.0, 2.0, 2, False]],
                "cutoffs": [None, 1.0, 1.25]}
    if name == "2d-2x2x2":
        kinds = [[x, y, r] for x in (0.5, 2.5) for y in (0.5, 1.5) for r in (0.5, 0.75)]
        return {"dim": 2, "kinds": kinds, "grid": [[0.0, 3.0, 3, True], [0.0, 2.0, 2, True]],
                "cutoffs": [None, 1.0, 1.25]}
    raise KeyError(name)


def lattice_frames(nk, maxdrop):
    """all frames with <= maxdrop droplets of pairwise different kinds, in every order"""
    out = [()]
    for n in range(1, maxdrop + 1):
        out += list(itertools.permutations(range(nk), n))
    return out


def lattice_histories(nk, maxframes, maxdrop):
    frs = lattice_frames(nk, maxdrop)
    for nf in range(0, maxframes + 1):
        yield from itertools.product(frs, repeat=nf)


# time codes of the exhaustive classes: 0 as first, interior and last time code, with steps != 1 before and after it
TIME_PATTERNS = {
    "0,1,2": lambda n: [float(i) for i in range(n)],
    "zero-interior": lambda n: [-2.5, 0.0, 0.5, 3.0][:n],
    "zero-last": lambda n: [-2.5 * (n - 1 - i) if i < n - 1 else 0.0 for i in range(n)] if n != 2 else [-0.25, 0.0],
    "zero-first-step2.5": lambda n: [2.5 * i for i in range(n)],
    "no-zero": lambda n: [10.0 + 0.25 * i * i for i in range(n)],
    "zero-interior-int": lambda n: [-3.0, 0.0, 2.0, 5.0][:n],
}

CHEAP_PROVENANCES = ["droplet_copy", "droplet_deepcopy", "droplet_pickle", "emulsion_copy", "emulsion_pickle",
                     "etc_pickle", "etc_deepcopy", "etc_copyctor", "etc_append", "etc_append_nocopy", "etc_slice",
                     "shared_objects", "from_tracks", "ctor_tuples", "ctor_array_times", "ctor_one_shot_iterables"]


def random_var(rng: random.Random, dim, times, heavy=True, uniform_class=False):
    """how the time course and the call are assembled; every choice from rng"""
    var = {}
    cls = rng.choice(["spherical", "spherical", "diffuse", "diffuse", "perturbed", "mixed"])
    if uniform_class and cls == "mixed":
        cls = "diffuse"
    var["cls"] = cls
    var["tag"] = cls != "spherical" and rng.random() < 0.8
    u = rng.random()
    if u < 0.35:
        var["prov"] = "fresh"
    elif heavy and u < 0.45 and cls != "mixed":
        var["prov"] = "etc_file"
    else:
        var["prov"] = rng.choice(CHEAP_PROVENANCES)
    integral = all(_integral(t) for t in times)
    # (0-d arrays are not offered as time codes: a time code is documented as a float and nothing promises that
    # unhashable stand-ins work; `max_dist` is only ever compared with an array, there a 0-d array is a valid number)
    kinds = ["float", "float", "np.float64", "mixed"] + (["int", "int", "np.int64"] if integral else [])
    if all(float(np.float32(t)) == t for t in times):
        kinds.append("np.float32")
    var["time_type"] = rng.choice(kinds)
    var["neg_zero"] = rng.random() < 0.3
    var["md_type"] = rng.choice(["float", "float", "int", "np.float64", "np.float32", "0d"])
    var["md_inf"] = rng.choice(["omit", "omit", "inf", "np.inf"])
    var["progress"] = rng.choice([None, None, False, True])
    var["method_default"] = rng.random() < 0.3
    var["reuse"] = rng.random() < 0.3
    var["overlap_max_dist"] = rng.random() < 0.15
    return var


def lattice_history(cls, kind_hist, with_grid, times=None, var=None):
    h = {"dim": cls["dim"], "grid": cls["grid"] if with_grid else None,
         "times": list(times) if times is not None else [float(i) for i in range(len(kind_hist))],
         "frames": [[list(cls["kinds"][k]) for k in fr] for fr in kind_hist]}
    if var:
        h["var"] = var
    return h


def _scaled(x, k):
    return math.ldexp(float(x), k)


def random_history(rng: random.Random, max_frames=8, max_drops=5, allow_nonmonotone=False, plain=False):
    """Random history on a coarse dyadic lattice: appear / disappear / split / merge / drift / ties / empty frames.
    Geometry: per-axis length, origin (0 / centred / shifted positive / entirely negative), cell count (1, 2, L, 2L) and
    periodicity; droplets hugging faces and corners; radius exactly 0; the whole picture scaled by 2^-30 / 2^30.
    plain=True: the distribution of the first build round (origin 0, equal axes), kept as a sub-stream."""
    dim = rng.choice([1, 1, 2, 2, 3])
    if plain or rng.random() < 0.3:
        L0 = rng.choice([4.0, 6.0, 8.0])
        Ls = [L0] * dim
    else:
        Ls = [rng.choice([4.0, 6.0, 8.0]) for _ in range(dim)]
    if plain or rng.random() < 0.3:
        los = [0.0] * dim
    else:
        los = [rng.choice([0.0, -Ls[ax] / 2, 3.0, -Ls[ax] - 2.0]) for ax in range(dim)]
    ncs = [int(Ls[ax]) if plain else rng.choice([1, 2, int(Ls[ax]), 2 * int(Ls[ax])]) for ax in range(dim)]
    periodic = [rng.random() < 0.6 for _ in range(dim)]
    has_grid = rng.random() < (0.6 if plain else 0.7)
    grid = [[los[ax], los[ax] + Ls[ax], ncs[ax], periodic[ax]] for ax in range(dim)] if has_grid else None
    nf = rng.randint(0, max_frames)
    step = rng.choice([0.25, 0.5, 1.0])
    # dense: frequent overlaps inside a frame; sparse: small radii, mostly non-overlapping frames (the class C07 and the
    # second half of C06 quantify over)
    radii = [0.25, 0.5, 0.75, 1.0, 1.25] if rng.random() < 0.4 else [0.125, 0.25, 0.25, 0.375]
    hug = (not plain) and rng.random() < 0.3           # new droplets sit on / next to the faces and corners of the box
    zero_r = (not plain) and rng.random() < 0.2        # some droplets have radius exactly 0
    unique_r = plain or rng.random() < 0.8             # radii perturbed so that (position, radius) is unique
    frames = []
    cur = []
    uid = 0
    p_empty = rng.choice([0.0, 0.1, 0.3])

    def fresh_pos():
        out = []
        for ax in range(dim):
            n = int(Ls[ax] / step)
            k = rng.choice([0, 1, n - 1, n]) if hug else rng.randrange(0, n + 1)
            out.append(los[ax] + k * step)
        return out

    for f in range(nf):
        mode = rng.random()
        if mode < p_empty:
            new = []
        else:
            new = []
            for d in cur:
                u = rng.random()
                if u < 0.12:
                    continue  # disappears
                pos = [(x + rng.choice([-1, 0, 0, 1]) * step) for x in d[:-1]]
                if grid is not None:
                    pos = [los[ax] + (x - los[ax]) % Ls[ax] if periodic[ax] else min(max(x, los[ax]), los[ax] + Ls[ax])
                           for ax, x in enumerate(pos)]
                r = d[-1] if rng.random() < 0.7 else rng.choice(radii)
                new.append(pos + [r])
                if u > 0.88:   # split: a second droplet next to it
                    pos2 = list(pos)
                    pos2[rng.randrange(dim)] += rng.choice([-1, 1]) * rng.choice([0.5, 1.0, 1.5])
                    new.append(pos2 + [rng.choice(radii)])
            while len(new) < max_drops and rng.random() < (0.5 if new else 0.8):
                new.append(fresh_pos() + [0.0 if zero_r and rng.random() < 0.3 else rng.choice(radii)])
            if len(new) >= 2 and rng.random() < 0.1:   # merge: drop one of a close pair
                new.pop(rng.randrange(len(new)))
            rng.shuffle(new)
            new = new[:max_drops]
        # unique radius perturbation (exact in binary64) so that result droplets can be matched back; droplets of
        # radius exactly 0 and the droplets of `not unique_r` histories keep their radius (then no two droplets of a
        # frame may have the same data; the same data in DIFFERENT frames is the ambiguous case of ident_alternatives)
        fr = []
        for d in new:
            uid += 1
            if d[-1] == 0.0:
                r = 0.0
            else:
                base = round(d[-1] * 8) / 8
                r = base + uid * 2.0 ** -20 if unique_r else max(base, 0.125)
            cand = [float(x) for x in d[:-1]] + [r]
            if cand not in fr:
                fr.append(cand)
        frames.append(fr)
        cur = [list(d) for d in fr]
    if allow_nonmonotone and nf > 0:
        times = [float(rng.randrange(0, 3)) for _ in range(nf)]
    elif plain:
        t, times = rng.choice([0.0, -1.5, 10.0]), []
        for f in range(nf):
            times.append(t)
            t += rng.choice([0.25, 1.0, 1.0, 2.5])
    else:
        times = random_times(rng, nf)
    h = {"dim": dim, "grid": grid, "times": times, "frames": frames}
    if not plain:
        k = rng.choice([0, 0, 0, -30, 30])
        if k:
            h = scale_history(h, k)
        h["var"] = random_var(rng, dim, times)
        h["var"]["scale_pow2"] = k
    return h


def scale_history(h, k):
    """the same picture in other units: every length multiplied by 2^k (exact)"""
    out = dict(h)
    out["frames"] = [[[_scaled(x, k) for x in d] for d in fr] for fr in h["frames"]]
    if isinstance(h["grid"], list):
        out["grid"] = [[_scaled(a[0], k), _scaled(a[1], k), a[2], a[3]] for a in h["grid"]]
    return out


def random_times(rng: random.Random, nf):
    """strictly increasing time codes: integral or quarter steps, steps of one ulp, huge steps; with probability 1/2 a
    chosen frame (first / interior / last) gets the time code 0 exactly"""
    if nf == 0:
        return []
    style = rng.choice(["quarters", "quarters", "integral", "ulp", "huge"])
    if style == "ulp":
        t0 = rng.choice([1.0, -3.0, 1024.0])
        ts = [t0]
        for _ in range(nf - 1):
            ts.append(math.nextafter(ts[-1], INF))
            if rng.random() < 0.3:
                ts[-1] = math.nextafter(ts[-1], INF)
        return ts
    if style == "huge":
        t0 = rng.choice([-2.0 ** 80, 0.0, 2.0 ** 60])
        ts = [t0]
        for _ in range(nf - 1):
            ts.append(ts[-1] + rng.choice([2.0 ** 30, 2.0 ** 40, 3 * 2.0 ** 35]))
    else:
        steps = [1.0, 2.0, 3.0, 1.0] if style == "integral" else [0.25, 1.0, 1.0, 2.5, 0.75]
        t, ts = rng.choice([0.0, -2.0, 10.0, -7.0]), []
        for _ in range(nf):
            ts.append(t)
            t += rng.choice(steps)
    if rng.random() < 0.5:
        k = rng.choice([0, nf - 1, rng.randrange(nf)])
        ts = [t - ts[k] for t in ts]           # exact: all values are small multiples of 1/4 (or of 2^30)
    return ts


def drift_history(rng: random.Random, plain=False):
    """k well separated droplets drifting rigidly across a periodic boundary by less than their radius per frame;
    with the grid supplied each droplet must keep its identity (C07, last sentence).  The drift axis (periodic) is the
    first, the last or the middle axis; the other axes have any periodicity, another length and another origin."""
    dim = rng.choice([1, 2]) if plain else rng.choice([1, 2, 2, 3, 3])
    k = rng.randint(1, 3)
    L = 12.0
    r = 1.0
    step = rng.choice([0.25, 0.5, 0.75])
    direction = rng.choice([-1, 1])
    nf = rng.randint(3, 8)
    axd = 0 if plain else rng.randrange(dim)                # the axis along which the droplets drift
    lo_d = 0.0 if plain else rng.choice([0.0, -6.0, 3.0, -20.0])
    grid, others = [], []
    for ax in range(dim):
        if ax == axd:
            grid.append([lo_d, lo_d + L, 12 if plain else rng.choice([12, 1, 2, 24]), True])
        else:
            lo = 0.0 if plain else rng.choice([0.0, -2.0, 5.0, -9.0])
            grid.append([lo, lo + 4.0, 4 if plain else rng.choice([4, 1, 2]), (not plain) and rng.random() < 0.5])
    base = []
    for i in range(k):
        pos = []
        for ax in range(dim):
            if ax == axd:
                pos.append(lo_d + (L / k) * i + 0.5)
            else:
                pos.append(grid[ax][0] + rng.randrange(0, 4) * 1.0)
        base.append(pos)
    frames = []
    for f in range(nf):
        fr = []
        order = list(range(k))
        rng.shuffle(order)
        for i in order:
            pos = list(base[i])
            pos[axd] = lo_d + (pos[axd] - lo_d + direction * step * f) % L
            fr.append(pos + [r + (i + 1) * 2.0 ** -10])     # radius identifies the physical droplet
        frames.append(fr)
    h = {"dim": dim, "grid": grid, "times": [0.5 * f for f in range(nf)], "frames": frames}
    if not plain:
        z = rng.randrange(nf + 1)                         # time code 0 at any frame (or none), steps of 0.5
        if z < nf:
            h["times"] = [0.5 * (f - z) for f in range(nf)]
        h["var"] = random_var(rng, dim, h["times"])
    return h


def long_history(rng: random.Random, nf):
    """long time course (many frames, <= 2 droplets per frame): a droplet drifting slowly on a periodic axis, a second one
    that appears and disappears, some frames without droplets"""
    L = 8.0
    grid = [[-4.0, 4.0, 8, True]] if rng.random() < 0.7 else None
    x = 0.0
    frames = []
    uid = 0
    for f in range(nf):
        fr = []
        if rng.random() > 0.03:
            x = -4.0 + (x + 4.0 + rng.choice([0.0, 0.125, 0.25])) % L
            uid += 1
            fr.append([x, 0.5 + (uid % 4096) * 2.0 ** -20])
        if rng.random() < 0.25:
            uid += 1
            fr.append([-4.0 + (x + 4.0 + 3.5) % L, 0.25 + (uid % 4096) * 2.0 ** -20])
        rng.shuffle(fr)
        frames.append(fr)
    z = rng.randrange(nf)
    times = [0.25 * (f - z) for f in range(nf)]
    h = {"dim": 1, "grid": grid, "times": times, "frames": frames}
    h["var"] = random_var(rng, 1, times, heavy=False)
    h["var"]["reuse"] = False
    return h


def foreign_grid_history(rng: random.Random):
    """3-d / 2-d histories tracked with a cylindrical, spherical or polar grid object as `grid` (any GridBase is
    accepted; the metric is py-pde's grid.distance).  Judged: everything except the comparison of the metric with the
    Cartesian Grid model."""
    kind = rng.choice(["cylinder", "cylinder", "spherical", "polar"])
    if kind == "cylinder":
        narrow = rng.random() < 0.5
        spec = {"kind": "cylinder", "radius": 2.0 if narrow else 8.0, "z": rng.choice([[0.0, 8.0], [-4.0, 4.0], [-12.0, -4.0]]),
                "shape": [2, 16] if narrow else [8, 2], "periodic_z": rng.random() < 0.6}
        dim = 3
    elif kind == "spherical":
        spec = {"kind": "spherical", "radius": rng.choice([8.0, [1.0, 8.0]]), "shape": rng.choice([1, 2, 8])}
        dim = 3
    else:
        spec = {"kind": "polar", "radius": rng.choice([8.0, [2.0, 8.0]]), "shape": rng.choice([1, 4])}
        dim = 2
    h = random_history(rng, 5, 3, plain=True)
    while h["dim"] != dim:
        h = random_history(rng, 5, 3, plain=True)
    h["grid"] = spec
    if kind == "cylinder":      # move into the z-range of the cylinder
        z0 = spec["z"][0]
        h["frames"] = [[d[:2] + [d[2] + z0] + d[3:] for d in fr] for fr in h["frames"]]
    h["var"] = random_var(rng, dim, h["times"])
    return h


def time_zero_position(times):
    z = [i for i, t in enumerate(times) if t == 0]
    if not z:
        return "none"
    i, n = z[0], len(times)
    where = "only" if n == 1 else "first" if i == 0 else "last" if i == n - 1 else "interior"
    if i > 0:
        where += ",prev-step=1" if times[i] - times[i - 1] == 1 else ",prev-step!=1"
    return where


def empty_frame_positions(sizes):
    n = len(sizes)
    if n == 0 or all(sizes):
        return ["none"]
    if not any(sizes):
        return ["all"]
    out = set()
    for i, s in enumerate(sizes):
        if s == 0:
            out.add("first" if i == 0 else "last" if i == n - 1 else "interior")
            if i + 1 < n and sizes[i + 1] == 0:
                out.add("two-consecutive")
    return sorted(out)


def drift_applicable(hist, config):
    """Premise of 'droplets that move less than their separation keep their identity', decided exactly
    (rational arithmetic, periodic metric of the supplied grid): the same physical droplets (identified by
    their radius) in every frame; between consecutive frames every droplet moves by less than its distance
    to any other droplet (distance method, and not farther than the cut-off) resp. still overlaps itself and
    nothing else (overlap method)."""
    method, md = config
    frames = hist["frames"]
    if len(frames) < 2 or not frames[0] or not strictly_increasing(hist["times"]):
        return False
    radii = sorted(d[-1] for d in frames[0])
    if len(set(radii)) != len(radii) or any(sorted(d[-1] for d in fr) != radii for fr in frames):
        return False
    idx = [{d[-1]: j for j, d in enumerate(fr)} for fr in frames]
    for f in range(len(frames) - 1):
        for r in radii:
            a = (f, idx[f][r])
            own = exact_dist2(hist, a, (f + 1, idx[f + 1][r]))
            if method == "distance" and md is not None and own > Fraction(md) ** 2:
                return False
            if method == "overlap" and not own < (2 * Fraction(r)) ** 2:
                return False
            for r2 in radii:
                if r2 == r:
                    continue
                cross1 = exact_dist2(hist, a, (f + 1, idx[f + 1][r2]))
                cross2 = exact_dist2(hist, (f, idx[f][r2]), (f + 1, idx[f + 1][r]))
                if method == "distance" and not (own < cross1 and own < cross2):
                    return False
                if method == "overlap":
                    s2 = (Fraction(r) + Fraction(r2)) ** 2
                    if cross1 < s2 or cross2 < s2:
                        return False
                    for g in (f, f + 1):   # no overlap within a frame
                        if exact_dist2(hist, (g, idx[g][r]), (g, idx[g][r2])) < s2:
                            return False
    return True


def drift_failures(hist, config, res):
    """under the premise above every track must consist of one physical droplet in all frames"""
    cands = ident_candidates(res)
    if not cands or not is_cart(hist) or not drift_applicable(hist, config):
        return []
    nf = len(hist["frames"])
    best = None
    for tracks in cands:
        fails = []
        for tr in tracks:
            rs = {hist["frames"][f][j][-1] for (_, f, j) in tr}
            if len(rs) != 1 or len(tr) != nf:
                fails.append(f"droplets moving less than their separation lost their identity: track {[(f, j) for (_, f, j) in tr]}")
        if not fails:
            return []
        if best is None or len(fails) < len(best):
            best = fails
    return best


# ---------------------------------------------------------------------------------------------
# Coq literals.  Elaborating literals is the expensive part of a correspondence run (~0.3 ms per token),
# so cases are encoded compactly: droplets of a result are written as (frame, index) -- that the time
# stamp of the implementation's entry equals times[frame] exactly has been established when the droplet
# was matched back (run_impl); the model's time stamp is compared with times[frame] inside Coq --,
# configs with identical results are grouped, and the lattice classes share one table per class.
# ---------------------------------------------------------------------------------------------
def did_lit(a):
    return f"({a[0]},{a[1]})"


def impl_lit(res):
    if res["raised"] or res["tracks"] is None:
        return "None"
    return "Some " + vlib.listlit(res["tracks"], lambda tr: vlib.listlit(tr, lambda e: f"({e[1]},{e[2]})"))


def config_lit(config):
    method, md = config
    if method == "overlap":
        return "CfgOv"
    return "(CfgDist " + ("None" if md is None or math.isinf(md) else f"(Some {vlib.qlit(md)})") + ")"


def outs_lit(outs):
    groups = {}
    for cfg, res in outs:
        groups.setdefault(impl_lit(res), []).append(cfg)
    return vlib.listlit(list(groups.items()), lambda g: f"({vlib.listlit(g[1], config_lit)},{g[0]})")


HEADER = """From Coq Require Import List Bool Arith QArith.
Import ListNotations.
From PD Require Import Model.Tracking.
Local Open Scope nat_scope.

Inductive cfg := CfgOv | CfgDist (md : option Q).
Definition out := option (list (list did)).          (* None: the implementation raised *)
Definition outs := list (list cfg * out).

(* tables keyed by labels of type L (droplet ids for general cases, kind numbers for lattice cases) *)
Section Tab.
  Variable L : Type.
  Variable leqb : L -> L -> bool.
  Fixpoint lookup {V : Type} (tbl : list (L * L * V)) (a b : L) : option V :=
    match tbl with
    | [] => None
    | (x, y, v) :: r => if leqb a x && leqb b y then Some v else lookup r a b
    end.
End Tab.

(* pairs of droplets the algorithm may consult *)
Fixpoint sizes_pairs (full : bool) (sizes : list nat) (f : nat) (prev : list (nat * nat))
  : list (bool * did * did) :=          (* flag: pair of consecutive frames (needs a distance) *)
  match sizes with
  | [] => []
  | n :: rest =>
      let now := frame_ids f n in
      let srcs := flat_map (fun gn => frame_ids (fst gn) (snd gn))
                           (if full then prev else match prev with [] => [] | x :: _ => [x] end) in
      flat_map (fun a => map (fun b => (true, a, b)) now) srcs
      ++ flat_map (fun a => flat_map (fun b => if did_eqb a b then [] else [(false, a, b)]) now) now
      ++ sizes_pairs full rest (S f) ((f, n) :: prev)
  end.

Definition track_set_eqb (a b : list (list entry)) : bool :=
  Nat.eqb (length a) (length b) && forallb (fun x => existsb (list_eqb entry_eqb x) b) a
  && forallb (fun x => existsb (list_eqb entry_eqb x) a) b.

(* attach times[frame] to the implementation's entries; a frame index out of range -> None *)
Fixpoint stamp_track (times : list Q) (tr : list did) : option (list entry) :=
  match tr with
  | [] => Some []
  | d :: r => match nth_error times (fst d), stamp_track times r with
              | Some t, Some l => Some ((t, d) :: l)
              | _, _ => None
              end
  end.
Fixpoint stamp (times : list Q) (trs : list (list did)) : option (list (list entry)) :=
  match trs with
  | [] => Some []
  | tr :: r => match stamp_track times tr, stamp times r with
               | Some x, Some l => Some (x :: l)
               | _, _ => None
               end
  end.

(* tracks are compared as a SET of tracks (the property does not order the list of tracks; inside a
   track the order is fixed); the implementation must not raise and the model must not fail *)
Definition same (times : list Q) (model : res (list track)) (impl : out) : bool :=
  match model, impl with
  | Ok trs, Some l => match stamp times l with
                      | Some l' => track_set_eqb (map entries trs) l'
                      | None => false
                      end
  | _, _ => false
  end.

Definition agree_with (ov : did -> did -> bool) (D : did -> did -> Q) (frames : list frame) (o : outs) : bool :=
  forallb (fun co =>
    forallb (fun c => same (map fst frames)
                           (track_all (match c with CfgOv => MOverlap ov | CfgDist md => MDistance D md end) frames)
                           (snd co)) (fst co)) o.

(* ---- general cases: tables keyed by droplet ids ---- *)
Definition gcase := (bool * list frame * list (did * did * bool) * list (did * did * Q) * outs)%type.
Definition gagree (c : gcase) : bool :=
  let '(full, frames, ot, dt, o) := c in
  forallb (fun p => let '(consec, a, b) := p in
                    match lookup did did_eqb ot a b with None => false | Some _ => true end
                    && (negb consec || match lookup did did_eqb dt a b with None => false | Some _ => true end))
          (sizes_pairs full (map snd frames) 0 [])
  && agree_with (fun a b => match lookup did did_eqb ot a b with Some true => true | _ => false end)
                (fun a b => match lookup did did_eqb dt a b with Some q => q | None => 0%Q end) frames o.

(* ---- lattice cases: droplets are kinds, one table per class; the time codes are part of the case ---- *)
Definition ktab := (list (nat * nat * bool) * list (nat * nat * Q))%type.
Definition lcase := (ktab * list Q * list (list nat) * outs)%type.
Definition kind_of (kf : list (list nat)) (a : did) : option nat :=
  match nth_error kf (fst a) with Some l => nth_error l (snd a) | None => None end.
Definition look {V : Type} (kf : list (list nat)) (tbl : list (nat * nat * V)) (a b : did) : option V :=
  match kind_of kf a, kind_of kf b with
  | Some x, Some y => lookup nat Nat.eqb tbl x y
  | _, _ => None
  end.
Definition lagree (c : lcase) : bool :=
  let '((ot, dt), ts, kf, o) := c in
  let frames := combine ts (map (@length nat) kf) in
  Nat.eqb (length ts) (length kf) &&
  forallb (fun p => let '(_, a, b) := p in
                    match look kf ot a b, look kf dt a b with Some _, Some _ => true | _, _ => false end)
          (sizes_pairs false (map snd frames) 0 [])
  && agree_with (fun a b => match look kf ot a b with Some true => true | _ => false end)
                (fun a b => match look kf dt a b with Some q => q | None => 0%Q end) frames o.
"""


HEADER_APPEND = """From Coq Require Import List Bool Arith QArith.
Import ListNotations.
From PD Require Import Model.Tracking.

(* (time arguments of a history of DropletTrack.append calls on a fresh track: None = omitted,
    the time codes the implementation stored) *)
Definition acase := (list (option Q) * list Q)%type.
Definition aagree (c : acase) : bool := list_eqb Qeq_bool (appends (fst c)) (snd c).
"""


def gcase_lit(hist, ov, D, outs, full=False):
    ot = vlib.listlit(sorted(ov.items()), lambda kv: f"({did_lit(kv[0][0])},{did_lit(kv[0][1])},{vlib.blit(kv[1])})")
    dd = [kv for kv in sorted(D.items()) if full or kv[0][0][0] != kv[0][1][0]]
    dt = vlib.listlit(dd, lambda kv: f"({did_lit(kv[0][0])},{did_lit(kv[0][1])},{vlib.qlit(kv[1])})")
    fr = vlib.listlit(list(zip(hist["times"], hist["frames"])), lambda p: f"({vlib.qlit(p[0])},{len(p[1])})")
    return f"({vlib.blit(full)},{fr},{ot},{dt},{outs_lit(outs)})"


def lcase_lit(tabname, times, kind_hist, outs):
    return f"({tabname},{vlib.listlit(times, vlib.qlit)},{vlib.listlit(kind_hist, lambda fr: vlib.listlit(fr))},{outs_lit(outs)})"


def class_tables(cls, with_grid):
    """overlap relation and distance table of a lattice class, keyed by kind numbers, computed by the implementation
    on droplets of these kinds"""
    nk = len(cls["kinds"])
    h = {"dim": cls["dim"], "grid": cls["grid"] if with_grid else None, "times": [0.0, 1.0],
         "frames": [[list(k) for k in cls["kinds"]], [list(k) for k in cls["kinds"]]]}
    ov, D = impl_tables(h)
    ot = {(a, b): ov[((0, a), (1, b))] for a in range(nk) for b in range(nk)}
    dt = {(a, b): D[((0, a), (1, b))] for a in range(nk) for b in range(nk)}
    for a in range(nk):          # in-frame pairs are computed on droplets of the same frame: must coincide
        for b in range(nk):
            if a != b and (ov[((1, a), (1, b))] != ot[(a, b)] or D[((1, a), (1, b))] != dt[(a, b)]):
                raise RuntimeError("overlap/distance of a pair of droplets depends on something other than their data")
    return ot, dt


def class_tables_lit(name, ot, dt):
    o = vlib.listlit(sorted(ot.items()), lambda kv: f"({kv[0][0]},{kv[0][1]},{vlib.blit(kv[1])})")
    d = vlib.listlit(sorted(dt.items()), lambda kv: f"({kv[0][0]},{kv[0][1]},{vlib.qlit(kv[1])})")
    return f"Definition {name} : ktab := ({o},{d}).\n"


HEADER_METRIC = """From Coq Require Import List Bool ZArith QArith Qabs.
Import ListNotations.
From PD Require Import Model.Grid Model.Tracking.
Local Open Scope Q_scope.

(* (grid or None, position a, position b, cdist entry, radius a + radius b, a.overlaps(b)) *)
Definition mcase := (option grid * list Q * list Q * Q * Q * bool)%type.
Definition magree (c : mcase) : bool :=
  let '(g, p, q, d, rr, o) := c in
  let d2 := match g with Some g => dist2 g p q | None => edist2 p q end in
  (* the implementation's distance is the correctly rounded square root of d2 (coarse dyadic inputs) *)
  Qle_bool (Qabs (d * d - d2)) (d2 * (1 # 1125899906842624))
  (* overlap: distance < r1 + r2, compared on squares *)
  && Bool.eqb o (Qlt_b 0 rr && Qlt_b d2 (rr * rr)).
"""


def metric_case_lits(hist, ov, D, limit=4):
    out = []
    if not is_cart(hist):
        return out
    for (a, b) in sorted(D):
        if len(out) >= limit:
            break
        da, db = hist["frames"][a[0]][a[1]], hist["frames"][b[0]][b[1]]
        if hist["grid"] is None:
            g = "None"
        else:
            g = "(Some " + vlib.listlit(hist["grid"], lambda ax: f"(Build_axis {vlib.zlit(ax[2])} {vlib.qlit(ax[0])} "
                                                                  f"{vlib.qlit(ax[1])} {vlib.blit(ax[3])})") + ")"
        rr = Fraction(da[-1]) + Fraction(db[-1])
        out.append(f"({g},{vlib.listlit(da[:-1], vlib.qlit)},{vlib.listlit(db[:-1], vlib.qlit)},"
                   f"{vlib.qlit(D[(a, b)])},{vlib.qlit(rr)},{vlib.blit(ov[(a, b)])})")
    return out


# ---------------------------------------------------------------------------------------------
# the check (shared by C06 and C07; the tie to /repo is the same correspondence)
# ---------------------------------------------------------------------------------------------
TRUSTED = [
    "Coq 8.16.1 kernel + vm_compute (no native_compute)",
    "hand-written model coq/Model/Tracking.v of DropletTrackList.from_emulsion_time_course (and of the time-code rule of "
    "DropletTrack.append), tied to /repo by the correspondence run (model evaluated inside Coq on the implementation's "
    "own overlap relation and distance table)",
    "harness/tracking_common.py: canonicalisation (droplets matched back by time stamp + class + bytes of the data "
    "record; without the stamp: every identification consistent with the data), float.as_integer_ratio, table "
    "extraction by calling SphericalDroplet.overlaps / scipy cdist pairwise on freshly constructed droplets",
    "oracles (premises or inputs of the theorems): SphericalDroplet.overlaps(grid=) as relation ov, scipy cdist with "
    "the code's metric as table D (precondition: two non-empty point sets), np.argmin = first minimum in C order",
]
ASSUME = [
    "times strictly increasing (property quantifier); the model itself compares time VALUES like the code",
    "all droplets of a time course have the same space dimension (DropletTrack.append raises otherwise)",
    "cdist computes entry (i, j) from points i and j only, and deterministically (checked implicitly: tables are "
    "extracted pairwise, the implementation computes them matrix-wise)",
    "distances are finite (positions finite, no overflow); non-finite values never enter Q",
    "time codes are finite real numbers (Python / numpy scalars, 0-d arrays); NaN is not ordered, inf never enters Q",
]
RULE = ("one case = one history x one grid choice, evaluated for the overlap method and the distance method with "
        "three cut-offs; exhaustive lattice classes + seeded random histories (appear/disappear/split/merge/drift/"
        "empty frames/ties; origins, axis lengths, cell counts, periodicity masks, scales, droplet classes, provenances, "
        "numeric types, options: see input_distribution); distinct = distinct (history, grid, config) triples; "
        "non-trivial = at least two frames of which at least one holds a droplet")

ALL_CONFIGS = lambda cutoffs: [("overlap", None)] + [("distance", c) for c in cutoffs]  # noqa
CLASS_TABLES = {}      # tabname -> (cls, with_grid, ot, dt); filled by build_items before the workers are forked


def _hist_stats(hist, D):
    sizes = [len(fr) for fr in hist["frames"]]
    vals = {}
    for (a, b), d in D.items():
        if a[0] + 1 == b[0]:
            vals.setdefault(b[0], []).append(d)
    ties = any(len(v) != len(set(v)) for v in vals.values())
    return sizes, ties


def _geometry_stats(hist):
    """where the droplets sit relative to the box (Cartesian grids)"""
    st = {"radius_zero": 0, "on_face": 0, "on_corner": 0, "straddles_periodic_face": 0, "touches_nonperiodic_face": 0,
          "centre_outside_box": 0, "droplets": 0}
    g = hist["grid"]
    for fr in hist["frames"]:
        for d in fr:
            st["droplets"] += 1
            r = d[-1]
            if r == 0:
                st["radius_zero"] += 1
            if not isinstance(g, list):
                continue
            faces = [x == a[0] or x == a[1] for x, a in zip(d[:-1], g)]
            st["on_face"] += any(faces)
            st["on_corner"] += len(faces) > 1 and all(faces)
            st["centre_outside_box"] += any(x < a[0] or x > a[1] for x, a in zip(d[:-1], g))
            st["straddles_periodic_face"] += any(a[3] and (x - r < a[0] < x + r or x - r < a[1] < x + r) for x, a in zip(d[:-1], g))
            st["touches_nonperiodic_face"] += any((not a[3]) and r > 0 and (x - r == a[0] or x + r == a[1]) for x, a in zip(d[:-1], g))
    return st


def _same_data_in_other_frames(hist):
    seen = {}
    for f, fr in enumerate(hist["frames"]):
        for d in fr:
            seen.setdefault(tuple(d), set()).add(f)
    return sum(1 for v in seen.values() if len(v) > 1)


def _res_sig(res):
    return (res["raised"], sorted(map(str, res.get("tracks_partial") or [])), sorted(res["problems"]))


def process(item):
    """item = dict(hist, configs, full, pid, kind, lat, coq).  Runs the implementation and the oracles; returns a plain dict."""
    hist, configs, full, pid, kind = item["hist"], item["configs"], item["full"], item["pid"], item["kind"]
    var = var_of(hist)
    sizes = [len(fr) for fr in hist["frames"]]
    try:
        ov, D = impl_tables(hist, full)
    except TableError as e:
        return {"lit": None, "fails": [(configs[0], "metric: " + str(e))], "sizes": sizes, "ties": False, "metric": [],
                "clean": False, "raised": [], "ntracks": [], "md_kinds": [], "ident": [], "cut_eq": [], "geo": _geometry_stats(hist),
                "same_data": 0}
    outs, fails = [], []
    if item.get("lat"):      # the class tables were computed on plain droplets of each kind: must hold for these droplets
        cls, with_grid, ot, dt = CLASS_TABLES[item["lat"][0]]
        kh = item["lat"][1]
        for (a, b) in ov:
            ka, kb = kh[a[0]][a[1]], kh[b[0]][b[1]]
            if ov[(a, b)] != ot[(ka, kb)] or D[(a, b)] != dt[(ka, kb)]:
                fails.append((configs[0], f"metric: overlap / distance of droplets {a}, {b} depends on something other than "
                                          f"position and radius (class {var['cls']})"))
                break
    try:
        first = build_input(hist)
    except Exception as e:  # noqa -- copying / pickling / storing the time course failed: not a statement about tracking,
        # but an input on which the library fails; C06 reports it, both checks go on with freshly built objects
        if pid == "C06":
            fails.append((configs[0], f"time course cannot be built with provenance {var['prov']!r}, time codes as "
                                      f"{var['time_type']!r} ({type(e).__name__}: {str(e)[:150]})"))
        hist = dict(hist)
        hist["var"] = dict(var, prov="fresh", time_type="float")
        var = var_of(hist)
        first = build_input(hist)
    prebuilt = first if var["reuse"] else None
    for n, cfg in enumerate(configs):
        # bit-exact snapshot comparison always; the (weaker, allclose-based) == of the library on a deep copy
        # additionally for the first config of every history
        res = run_impl(hist, cfg, deep=(n == 0), prebuilt=prebuilt if prebuilt is not None else first if n == 0 else None)
        outs.append((cfg, res))
        fs = []
        try:
            if pid == "C06":
                fs = oracle_C06(hist, cfg, res, ov)
            else:
                fs = oracle_C07(hist, cfg, res, ov, D)
                fs += drift_failures(hist, cfg, res)
        except Exception as e:  # noqa -- a result the oracle cannot even interpret is a failure of the property
            fs = [f"result cannot be judged by the property oracle ({type(e).__name__}: {str(e)[:120]})"]
        if prebuilt is not None and n == 0:       # repeated operation on the same objects
            again = run_impl(hist, cfg, deep=False, prebuilt=prebuilt)
            if _res_sig(again) != _res_sig(res):
                fs.append("a second call with the same time course and grid objects gives another result")
        for f in fs:
            fails.append((cfg, f))
    if pid == "C07":
        for f in metric_failures(hist, ov, D):
            fails.append((configs[0], "metric: " + f))
    _, ties = _hist_stats(hist, D)
    lit = None
    if item.get("coq", True):
        if item.get("lat"):
            lit = lcase_lit(item["lat"][0], hist["times"], item["lat"][1], outs)
        else:
            lit = gcase_lit(hist, ov, D, outs, full)
    consec = {d for (a, b), d in D.items() if a[0] + 1 == b[0]}
    return {"lit": lit, "fails": fails, "sizes": sizes, "ties": ties,
            "metric": metric_case_lits(hist, ov, D) if pid == "C07" and not item.get("lat") and item.get("coq", True) else [],
            "clean": inframe_nonoverlap(hist, ov), "raised": [r["raised"] for _, r in outs if r["raised"]],
            "ntracks": [len(r["tracks"]) if r["tracks"] is not None else -1 for _, r in outs],
            "md_kinds": [r["md_kind"] for _, r in outs], "ident": [r["ident_note"] for _, r in outs],
            "cut_eq": [cfg[1] in consec for cfg in configs if cfg[0] == "distance" and cfg[1] is not None],
            "geo": _geometry_stats(hist), "same_data": _same_data_in_other_frames(hist)}


def mkitem(hist, configs, pid, kind, full=False, lat=None, coq=True):
    return {"hist": hist, "configs": configs, "full": full, "pid": pid, "kind": kind, "lat": lat, "coq": coq}


def _pool_map(fn, items, chunk=64):
    import multiprocessing as mp
    if len(items) < 200:
        return [fn(x) for x in items]
    with mp.get_context("fork").Pool(min(vlib.NPROC, 16)) as pool:
        return pool.map(fn, items, chunksize=chunk)


# ---------------------------------------------------------------------------------------------
# DropletTrack.append (anchor "copy on append"): histories of appends with and without an explicit time code
# ---------------------------------------------------------------------------------------------
APPEND_TIME_VALUES = [0.0, 0.0, 0.0, 1.0, -1.0, -1.5, 2.5, 10.0, 0.25]


def random_append_case(rng: random.Random):
    dim = rng.choice([1, 2, 3])
    n = rng.choice([1, 2, 2, 3, 4, 6])
    two = rng.random() < 0.4          # two tracks alive together, appends interleaved between them
    if two:
        n = max(n, 3)
    ops = []
    for i in range(n):
        how = rng.choice(["omit", "none_kw", "kw", "kw", "kw", "pos"])
        t = None
        tt = "n/a"
        if how in ("kw", "pos"):
            t = rng.choice(APPEND_TIME_VALUES)
            tt = rng.choice(["float", "float", "np.float64", "np.float32", "neg_zero"] + (["int", "int", "np.int64"] if _integral(t) else []))
            if tt == "neg_zero" and t != 0:
                tt = "float"
        op = {"how": how, "time": t, "time_type": tt,
              "cls": rng.choice(["spherical", "diffuse", "perturbed"]),
              "prov": rng.choice(["fresh", "copy", "deepcopy", "pickle", "same_object_as_previous", "member_of_emulsion"])}
        if two:
            op["track"] = rng.choice([0, 1])
        ops.append(op)
    case = {"dim": dim, "ops": ops}
    if two:
        case["tracks"] = 2
        case["second_track_created"] = rng.choice(["at-start", "after-first-append"])
    return case


def _append_time_obj(t, tt):
    if tt == "neg_zero":
        return -0.0
    return {"float": float, "int": int, "np.float64": np.float64, "np.int64": np.int64, "np.float32": np.float32,
            "0d": lambda x: np.array(float(x))}[tt](t)


def process_append(case):
    """-> dict(lits, fails); the property statement judged: the droplet is stored as an unchanged copy, stamped with the
    time code that was given (0 included); the default time code is compared with the model inside Coq (per track).
    With two tracks: the appends are interleaved, the tracks must not share lists or droplet objects, and an append to one
    track must leave the other one as it was."""
    from droplets import DropletTrack, Emulsion
    fails = []
    lits = []
    ntr = case.get("tracks", 1)
    try:
        tracks = [DropletTrack()]
        if ntr == 2 and case.get("second_track_created") == "at-start":
            tracks.append(DropletTrack())
        prev = None
        given = [[] for _ in range(ntr)]
        used = []          # the track every append went to
        for i, op in enumerate(case["ops"]):
            if ntr == 2 and len(tracks) == 1 and i >= 1:
                tracks.append(DropletTrack())
            k = op.get("track", 0) if len(tracks) > 1 else 0
            track = tracks[k]
            used.append(k)
            d = make_droplet([float(i + ax) for ax in range(case["dim"])] + [0.5 + i * 0.125],
                             droplet_class({"cls": op["cls"]}, case["dim"], 0, 0), (i + 1) * 2.0 ** -12)
            if op["prov"] == "copy":
                d = d.copy()
            elif op["prov"] == "deepcopy":
                d = copy.deepcopy(d)
            elif op["prov"] == "pickle":
                d = pickle.loads(pickle.dumps(d))
            elif op["prov"] == "member_of_emulsion":
                d = Emulsion([d])[0]
            elif op["prov"] == "same_object_as_previous" and prev is not None:
                d = prev
            before = _dkey(d)
            held = list(track.droplets)
            stamps = [float(t) for t in track.times]
            others = [([repr(t) for t in o.times], [(id(x),) + _dkey(x) for x in o.droplets]) for o in tracks if o is not track]
            if op["how"] == "omit":
                track.append(d)
            elif op["how"] == "none_kw":
                track.append(d, time=None)
            else:
                tobj = _append_time_obj(op["time"], op["time_type"])
                if op["how"] == "kw":
                    track.append(d, time=tobj)
                else:
                    track.append(d, tobj)
            given[k].append(op["time"] if op["how"] in ("kw", "pos") else None)
            n = len(given[k])
            where = f"append #{i} ({op['how']}, time={op['time']!r} as {op['time_type']}" + (f", track {k})" if ntr == 2 else ")")
            if len(track.times) != n or len(track.droplets) != n:
                fails.append(f"{where}: track holds {len(track.droplets)} droplets and {len(track.times)} times after {n} appends")
                break
            if not all(_real_time(t) for t in track.times):
                fails.append(f"{where}: stored time codes {track.times!r} are not all real numbers")
                break
            if track.droplets[-1] is d or any(track.droplets[-1] is o for o in held):
                fails.append(f"{where}: the droplet was stored without a copy")
            if _dkey(track.droplets[-1]) != before or _dkey(d) != before:
                fails.append(f"{where}: droplet altered")
            if any(a is not b for a, b in zip(track.droplets, held)) or [float(t) for t in track.times[:-1]] != stamps:
                fails.append(f"{where}: earlier entries of the track changed")
            if given[k][-1] is not None and float(track.times[-1]) != float(op["time"]):
                fails.append(f"{where}: droplet stamped with {track.times[-1]!r}, the time code given is {op['time']!r}")
            now = [([repr(t) for t in o.times], [(id(x),) + _dkey(x) for x in o.droplets]) for o in tracks if o is not track]
            if now != others:
                fails.append(f"{where}: the append changed the OTHER track")
            prev = d
        if len(tracks) == 2:
            a, b = tracks
            if a.times is b.times or a.droplets is b.droplets:
                fails.append("two tracks share their list of times / droplets")
            if any(x is y for x in a.droplets for y in b.droplets):
                fails.append("two tracks hold the same droplet object")
        if ntr == 2 and len(tracks) == 2 and not case.get("_alone"):
            # state-free reference: the appends of each track made alone, on a fresh track, give the same time codes
            for k, track in enumerate(tracks):
                sub = [{key: v for key, v in op.items() if key != "track"} for op, u in zip(case["ops"], used) if u == k]
                if not sub:
                    continue
                alone = process_append({"dim": case["dim"], "ops": sub, "_alone": True})
                mine = [float(t) for t in track.times] if all(_real_time(t) for t in track.times) else None
                ref = alone.get("times")
                if ref is not None and mine is not None and mine != ref[0]:
                    fails.append(f"track {k} holds the time codes {mine} after appends interleaved with appends to another track; "
                                 f"the same appends made alone give {ref[0]}")
        for k, track in enumerate(tracks):
            if all(_real_time(t) for t in track.times) and len(track.times) == len(given[k]):
                lits.append(f"({vlib.listlit(given[k], lambda t: 'None' if t is None else '(Some ' + vlib.qlit(t) + ')')},"
                            f"{vlib.listlit([float(t) for t in track.times], vlib.qlit)})")
    except Exception as e:  # noqa
        fails.append(f"append raised {type(e).__name__}: {str(e)[:150]}")
    out = {"lits": lits, "fails": fails}
    try:
        out["times"] = [[float(t) for t in tr.times] for tr in tracks]
    except Exception:  # noqa
        out["times"] = None
    return out


def shrink_append(case):
    cur = copy.deepcopy(case)
    changed = True
    while changed:
        changed = False
        for i in range(len(cur["ops"]) - 1, -1, -1):
            c = copy.deepcopy(cur)
            del c["ops"][i]
            if c["ops"] and process_append(c)["fails"]:
                cur, changed = c, True
    if cur.get("tracks") == 2:
        c = copy.deepcopy(cur)
        c.pop("tracks")
        c.pop("second_track_created", None)
        for op in c["ops"]:
            op.pop("track", None)
        if process_append(c)["fails"]:
            cur = c
    for op in cur["ops"]:
        for key, val in (("prov", "fresh"), ("cls", "spherical"), ("how", "kw" if op["how"] == "pos" else op["how"])):
            c = copy.deepcopy(cur)
            c["ops"][cur["ops"].index(op)][key] = val
            if process_append(c)["fails"]:
                op[key] = val
    return cur


def run_append_stream(ctx, rng, pid):
    cases = [random_append_case(rng) for _ in range(ctx.scale(300, 3000))]
    results = [process_append(c) for c in cases]
    for c, r in zip(cases, results):
        ctx.case(["append", c], nontrivial=len(c["ops"]) >= 2)
        ctx.count("append:ops_per_history", len(c["ops"]))
        ctx.count("append:tracks_alive_together", c.get("tracks", 1))
        if c.get("tracks") == 2:
            seq = [op["track"] for op in c["ops"]]
            ctx.count("append:interleaving", "alternating at least twice" if sum(1 for x, y in zip(seq, seq[1:]) if x != y) >= 2
                      else "one switch" if len(set(seq)) == 2 else "all on one track")
        for i, op in enumerate(c["ops"]):
            arg = {"omit": "omitted", "none_kw": "None"}.get(op["how"])
            if arg is None:
                arg = ("0" if op["time"] == 0 else "nonzero") + (",first" if i == 0 else ",later") + ("" if op["how"] == "kw" else ",positional")
            ctx.count("append:time_argument", arg)
            ctx.count("append:time_type", op["time_type"])
            ctx.count("append:droplet_provenance", op["prov"])
            ctx.count("append:droplet_class", op["cls"])
    lits = [(i, l) for i, r in enumerate(results) for l in r["lits"]]
    bad = _run_cases(ctx, "append", HEADER_APPEND, [l for _, l in lits], "aagree", 400)
    if bad:
        first = cases[lits[bad[0]][0]]
        ctx.broken.append(f"correspondence DropletTrack.append: time codes stored by the implementation differ from the model "
                          f"(append_times) on {len(bad)} append histories, first: {first}")
    reported = 0
    for c, r in zip(cases, results):
        if r["fails"] and reported < 2:
            small = shrink_append(c)
            rr = process_append(small)
            ctx.violations.append({"what": (rr["fails"] or r["fails"])[0], "input": {"append_case": small, "kind": "append"},
                                   "found": True, "broken": ctx.broken[:3]})
            reported += 1
    if bad and not reported:
        # the default time code (not part of the property text) differs from the model: no statement fails; the smallest
        # disagreeing append history is the replay input
        ctx.extra["append_disagreeing"] = [cases[lits[b][0]] for b in bad[:3]]
        small = min((cases[lits[b][0]] for b in bad), key=lambda c: len(c["ops"]))
        ctx.violations.append({"what": "time codes stored by DropletTrack.append differ from the verified model on this history of "
                                       "appends (default time code; no statement of the property text fails on it)",
                               "input": {"append_case": small, "kind": "append"}, "found": False, "broken": ctx.broken[:3]})
    ctx.tie.append("correspondence: time codes of histories of DropletTrack.append calls (explicit incl. 0 / omitted / None; "
                   "keyword and positional; one track or two tracks with interleaved appends) compared with Model/Tracking.v "
                   "`appends` inside Coq")


# ---------------------------------------------------------------------------------------------
# SEQUENCES of calls within one process (notes/input_dimensions.md item 8: state kept between calls).
# A sequence = two time courses that share every aggregate (dimension, grid, time codes, number of frames, number of
# droplets per frame, droplet classes) but differ in content, and a list of calls
#     {"h": 0 | 1, "config": [method, max_dist], "objects": "shared" | "fresh"}      a tracking call
#     {"h": 0 | 1, "raiser": kind, "objects": ...}                                    a call that is expected to fail
# "shared": ONE time course object and ONE grid object per history serve all such calls (different methods and
# cut-offs in the generated order); "fresh": equal objects built for this call.  Judged: every call by the property
# oracle and (inside Coq) against the state-free model; equal calls give bit-identical results wherever they stand in
# the sequence and whatever objects they get; inputs unchanged after every call (also after a failing one); all results
# are kept alive together and share no droplet / list object with each other or with an input; mutating one result
# changes no other result and no input.  Every sequence runs in a process of its own (forked from the main process
# before any tracking call was made there); a failing sequence is re-run in a fresh interpreter for the record.
# ---------------------------------------------------------------------------------------------
SEQ_RAISERS = ["unknown_method", "max_dist_not_a_number", "mixed_dimension_time_course"]


def twin_history(rng: random.Random, h):
    """a history with the same dimension, grid, time codes, frame count, droplet counts and classes as h, other content"""
    dim = h["dim"]
    bounds = []
    for ax in range(dim):
        if isinstance(h["grid"], list):
            bounds.append((h["grid"][ax][0], h["grid"][ax][1]))
        else:
            xs = [d[ax] for fr in h["frames"] for d in fr]
            lo, hi = (min(xs), max(xs)) if xs else (0.0, 1.0)
            bounds.append((lo, hi if hi > lo else lo + 1.0))
    frames = []
    for fr in h["frames"]:
        new = []
        for d in fr:
            for _ in range(20):
                pos = [lo + rng.randrange(0, 17) * (hi - lo) / 16 for lo, hi in bounds]
                cand = pos + [d[-1] + (abs(d[-1]) if d[-1] else max(hi - lo for lo, hi in bounds)) * 2.0 ** -21]
                if cand not in new:
                    break
            new.append(cand)
        frames.append(new)
    out = copy.deepcopy(h)
    out["frames"] = frames
    return out


def random_sequence(rng: random.Random):
    hA = random_history(rng, 4, 3)
    while sum(len(fr) for fr in hA["frames"]) < 2:
        hA = random_history(rng, 4, 3)
    if hA["var"]["prov"] == "etc_file":
        hA["var"]["prov"] = "ctor_tuples"
    hA["var"]["reuse"] = False
    hB = twin_history(rng, hA)
    k = hA["var"].get("scale_pow2", 0)
    pool = ALL_CONFIGS(_scaled_cutoffs([None, rng.choice([0.5, 1.0, 2.0]), rng.choice([0.0, 0.75, 3.0])], k))
    calls = []
    for i in range(rng.randint(4, 8)):
        calls.append({"h": i % 2 if rng.random() < 0.7 else rng.choice([0, 1]), "config": list(rng.choice(pool)),
                      "objects": "shared" if rng.random() < 0.7 else "fresh"})
    if rng.random() < 0.8:                   # the same call again, later, on the same or on fresh objects
        c = dict(rng.choice(calls))
        c["objects"] = rng.choice(["shared", "fresh"])
        calls.append(c)
    if rng.random() < 0.5:                   # a failing call somewhere in the middle
        calls.insert(rng.randrange(1, len(calls)), {"h": rng.choice([0, 1]), "raiser": rng.choice(SEQ_RAISERS), "objects": "shared"})
    return {"histories": [hA, hB], "calls": calls, "mutate": rng.randrange(len(calls))}


def _run_raiser(kind, h, inp):
    """a call that is expected to fail (possibly after part of the work is done) -> (exception name or None, problems)"""
    from droplets import DropletTrackList, Emulsion, EmulsionTimeCourse, SphericalDroplet
    etc, grid = inp["etc"], inp["grid"]
    before, before_grid = _snapshot(etc), _grid_snapshot(grid)
    raised = None
    try:
        with contextlib.redirect_stderr(io.StringIO()):
            if kind == "unknown_method":
                DropletTrackList.from_emulsion_time_course(etc, method="nearest", grid=grid)
            elif kind == "max_dist_not_a_number":
                DropletTrackList.from_emulsion_time_course(etc, method="distance", grid=grid, max_dist="far")
            else:
                t_next = etc.times[-1] + 1 if len(etc.times) else 0
                bad = EmulsionTimeCourse(list(etc.emulsions) + [Emulsion([SphericalDroplet(np.zeros(h["dim"] + 1), 1.0)])],
                                         list(etc.times) + [t_next])
                DropletTrackList.from_emulsion_time_course(bad, method="overlap")
    except Exception as e:  # noqa
        raised = type(e).__name__
    problems = []
    if _snapshot(etc) != before:
        problems.append(f"input time course modified by a call that {'raised ' + raised if raised else 'was expected to fail'} ({kind})")
    if _grid_snapshot(grid) != before_grid:
        problems.append(f"grid object modified by a failing call ({kind})")
    return raised, problems


def _raw_sig(res):
    """bit-exact content of a result, in the order returned"""
    raw = res.get("_res")
    if raw is None:
        return ("raised", res["raised"])
    return [([repr(t) for t in tr.times], [_dkey(d) for d in tr.droplets]) for tr in raw]


def isolated_sig(arg):
    """the result of one call on fresh objects, made first thing in a process of its own (fresh-state reference)"""
    h, cfg = arg
    return _raw_sig(run_impl(h, tuple(cfg), deep=False, keep=True))


def process_sequence(arg):
    seq, pid = arg[0], arg[1]
    reference = arg[2] if len(arg) > 2 else None      # {(h, config as json): isolated_sig}
    hists = seq["histories"]
    fails, lits = [], []
    stats = {"calls": 0, "raisers": [], "shared": 0, "fresh": 0, "repeated": 0, "switches": 0, "orders": set()}
    try:
        tables = [impl_tables(h) for h in hists]
    except TableError as e:
        return {"lits": [], "fails": [(0, "metric: " + str(e))], "stats": None}
    shared = [None, None]
    done = []          # per call: None (raiser) or the result dict with the raw objects
    inputs = []        # every input object that was used
    try:
        for i, call in enumerate(seq["calls"]):
            h = hists[call["h"]]
            if call["objects"] == "shared":
                if shared[call["h"]] is None:
                    shared[call["h"]] = build_input(h)
                    inputs.append(shared[call["h"]])
                inp = shared[call["h"]]
            else:
                inp = build_input(h)
                inputs.append(inp)
            stats[call["objects"]] += 1
            if "raiser" in call:
                raised, problems = _run_raiser(call["raiser"], h, inp)
                stats["raisers"].append((call["raiser"], raised is not None))
                fails += [(i, p) for p in problems]
                done.append(None)
                continue
            cfg = tuple(call["config"])
            res = run_impl(h, cfg, deep=False, prebuilt=inp, keep=True)
            stats["calls"] += 1
            ov, D = tables[call["h"]]
            try:
                fs = oracle_C06(h, cfg, res, ov) if pid == "C06" else oracle_C07(h, cfg, res, ov, D) + drift_failures(h, cfg, res)
            except Exception as e:  # noqa
                fs = [f"result cannot be judged by the property oracle ({type(e).__name__}: {str(e)[:120]})"]
            fails += [(i, f"call #{i} {call}: {f}") for f in fs]
            done.append(res)
    except Exception as e:  # noqa
        fails.append((len(done), f"sequence could not be carried out ({type(e).__name__}: {str(e)[:150]})"))
    # equal calls, equal results (bit-identical, order of the tracks included)
    first = {}
    prev_h = None
    for i, (call, res) in enumerate(zip(seq["calls"], done)):
        if res is None:
            continue
        stats["switches"] += prev_h is not None and prev_h != call["h"]
        prev_h = call["h"]
        key = (call["h"], json_key(call["config"]))
        sig = _raw_sig(res)
        if reference is not None and key in reference and reference[key] != sig:
            fails.append((i, f"call #{i} {call} gives another result in this sequence than the same call made first in a fresh "
                             f"process ({len(sig) if isinstance(sig, list) else sig} vs "
                             f"{len(reference[key]) if isinstance(reference[key], list) else reference[key]} tracks)"))
        if key in first:
            stats["repeated"] += 1
            j, sig0 = first[key]
            if sig != sig0:
                fails.append((i, f"call #{i} {call} gives another result than the equal call #{j} {seq['calls'][j]} earlier in the "
                                 f"sequence ({len(sig) if isinstance(sig, list) else sig} vs {len(sig0) if isinstance(sig0, list) else sig0} tracks)"))
        else:
            first[key] = (i, sig)
    for hi in (0, 1):
        stats["orders"].add(tuple(json_key(c["config"]) for c in seq["calls"] if c["h"] == hi and "config" in c and c["objects"] == "shared"))
    # results kept alive together: no shared objects
    try:
        owner = {}
        for n, inp in enumerate(inputs):
            for x in [inp["etc"].times, inp["etc"].emulsions] + list(inp["etc"].emulsions):
                owner.setdefault(id(x), set()).add(f"input {n}")
            for e in inp["etc"].emulsions:
                for d in e:
                    owner.setdefault(id(d), set()).add(f"input {n}")
        for i, res in enumerate(done):
            raw = None if res is None else res.get("_res")
            if raw is None:
                continue
            owner.setdefault(id(raw), set()).add(f"result of call #{i}")
            for tr in raw:
                for x in [tr, tr.times, tr.droplets] + list(tr.droplets):
                    owner.setdefault(id(x), set()).add(f"result of call #{i}")
        for who in owner.values():
            if len(who) > 1:
                fails.append((len(done) - 1, f"an object (droplet / list of times / list of droplets / track) is shared between {sorted(who)}"))
                break
        # mutate one result: nothing else may change
        alive = [i for i, res in enumerate(done) if res is not None and res.get("_res") is not None]
        if alive:
            m = min(alive, key=lambda i: (abs(i - seq.get("mutate", 0)), i))
            snaps = {i: _raw_sig(done[i]) for i in alive if i != m}
            in_snaps = [(_snapshot(inp["etc"]), _grid_snapshot(inp["grid"])) for inp in inputs]
            raw = done[m]["_res"]
            for tr in list(raw):
                tr.times.append(1e9)
                if tr.droplets:
                    tr.droplets[0].data["radius"] = 12345.0
                    tr.droplets[0].position[...] = -777.0
                    tr.droplets.pop()
            raw.clear()
            for i, sn in snaps.items():
                if _raw_sig(done[i]) != sn:
                    fails.append((max(i, m), f"mutating the result of call #{m} changed the result of call #{i} (shared buffers)"))
                    break
            for n, inp in enumerate(inputs):
                if (_snapshot(inp["etc"]), _grid_snapshot(inp["grid"])) != in_snaps[n]:
                    fails.append((m, f"mutating the result of call #{m} changed an input time course / grid (shared buffers)"))
                    break
    except Exception as e:  # noqa
        fails.append((len(done) - 1, f"results cannot be inspected ({type(e).__name__}: {str(e)[:150]})"))
    for hi, h in enumerate(hists):
        outs = [(tuple(c["config"]), r) for c, r in zip(seq["calls"], done) if r is not None and c["h"] == hi]
        if outs:
            lits.append(gcase_lit(h, tables[hi][0], tables[hi][1], outs))
    stats["orders"] = len({o for o in stats["orders"] if len(o) > 1})
    return {"lits": lits, "fails": fails, "stats": stats}


def json_key(x):
    import json
    return json.dumps(x)


def _fork_map(fn, items):
    """every item in a process of its own, forked from this one"""
    import multiprocessing as mp
    if not items:
        return []
    with mp.get_context("fork").Pool(min(vlib.NPROC, 16), maxtasksperchild=1) as pool:
        return pool.map(fn, items, chunksize=1)


def _fresh_interpreter_fails(seq, pid):
    """the sequence evaluated first thing in a fresh interpreter -> list of failure texts (None: could not be run)"""
    import json
    import subprocess
    import sys
    code = ("import sys, json\nimport tracking_common as tc\nseq = json.load(sys.stdin)\n"
            f"r = tc.process_sequence((seq, {pid!r}))\nprint('FAILS=' + json.dumps([f for _, f in r['fails']]))\n")
    try:
        p = subprocess.run([sys.executable, "-c", code], input=json.dumps(seq), capture_output=True, text=True, timeout=600)
        for line in p.stdout.splitlines():
            if line.startswith("FAILS="):
                return json.loads(line[6:])
    except Exception:  # noqa
        pass
    return None


def sequence_reference(seq):
    keys = sorted({(c["h"], json_key(c["config"])) for c in seq["calls"] if "config" in c})
    import json
    sigs = _fork_map(isolated_sig, [(seq["histories"][h], json.loads(cfg)) for h, cfg in keys])
    return dict(zip(keys, sigs))


def shrink_sequence(seq, pid, reference=None):
    """drop calls (each candidate evaluated in a forked process) while the sequence keeps failing"""
    def failing(s):
        ref = sequence_reference(s) if reference is not None else None    # the histories' assembly may have changed
        return bool(_fork_map(process_sequence, [(s, pid, ref)])[0]["fails"])
    cur = copy.deepcopy(seq)
    for _ in range(3):
        changed = False
        for i in range(len(cur["calls"]) - 1, -1, -1):
            if len(cur["calls"]) <= 1:
                break
            c = copy.deepcopy(cur)
            del c["calls"][i]
            if failing(c):
                cur, changed = c, True
        if not changed:
            break
    for hi in (0, 1):       # simpler assembly of the time courses
        for key, val in VAR_SIMPLE.items():
            if cur["histories"][hi].get("var", {}).get(key, val) != val:
                c = copy.deepcopy(cur)
                c["histories"][hi]["var"][key] = val
                if failing(c):
                    cur = c
    return cur


def run_sequence_stream(ctx, rng, pid):
    seqs = [random_sequence(rng) for _ in range(ctx.scale(120, 1000))]
    results = _fork_map(process_sequence, [(s, pid) for s in seqs])
    lits = []
    for n, (sq, r) in enumerate(zip(seqs, results)):
        ctx.case(["sequence", sq], nontrivial=True)
        ctx.count("sequence:calls_per_sequence", len(sq["calls"]))
        st = r["stats"]
        if st:
            ctx.count("sequence:tracking_calls", "total", st["calls"])
            ctx.count("sequence:objects", "shared time course + grid object", st["shared"])
            ctx.count("sequence:objects", "fresh equal objects", st["fresh"])
            ctx.count("sequence:equal_call_repeated_later", "calls", st["repeated"])
            ctx.count("sequence:switches_between_the_two_time_courses", st["switches"] if st["switches"] < 4 else ">=4")
            ctx.count("sequence:shared_object_tracked_with_several_configs_in_order", "sequences", st["orders"])
            for kind, raised in st["raisers"]:
                ctx.count("sequence:failing_call_in_the_middle", f"{kind}: {'raised' if raised else 'did not raise on this input'}")
            if not st["raisers"]:
                ctx.count("sequence:failing_call_in_the_middle", "none")
        ctx.count("sequence:provenance_of_the_time_courses", var_of(sq["histories"][0])["prov"])
        lits += [(n, l) for l in r["lits"]]
    bad = _run_cases(ctx, "seq", HEADER, [l for _, l in lits], "gagree", 100)
    reported = 0
    for sq, r in zip(seqs, results):
        if r["fails"] and reported < 2:
            small = shrink_sequence(sq, pid)
            rr = _fork_map(process_sequence, [(small, pid)])[0]
            fresh = _fresh_interpreter_fails(small, pid)
            ctx.violations.append({"what": (rr["fails"] or r["fails"])[0][1],
                                   "input": {"sequence": small, "kind": "sequence"}, "found": True,
                                   "reproduces_in_a_fresh_interpreter": bool(fresh) if fresh is not None else "not run",
                                   "broken": ctx.broken[:3]})
            reported += 1
    if bad:
        sq = seqs[lits[bad[0]][0]]
        ctx.broken.append(f"correspondence (sequences of calls in one process): model and implementation differ on {len(bad)} "
                          f"(time course, calls) group(s), first sequence: {str(sq)[:600]}")
        # the model says some result is not the state-free one: compare every call of the disagreeing sequences with the
        # same call made first in a process of its own; a difference is a failing input (the sequence)
        for n in sorted({lits[b][0] for b in bad})[:6]:
            if reported >= 2:
                break
            ref = sequence_reference(seqs[n])
            r2 = _fork_map(process_sequence, [(seqs[n], pid, ref)])[0]
            if r2["fails"]:
                small = shrink_sequence(seqs[n], pid, reference=ref)
                rr = _fork_map(process_sequence, [(small, pid, sequence_reference(small))])[0]
                ctx.violations.append({"what": (rr["fails"] or r2["fails"])[0][1],
                                       "input": {"sequence": small, "kind": "sequence", "with_fresh_process_reference": True},
                                       "found": True, "broken": ctx.broken[:3]})
                reported += 1
        if not reported:
            # neither a statement of the property text nor the fresh-process reference separates this sequence: the
            # deviation from the model is not a matter of the sequence; reported (found = False) only if nothing else is
            ctx.extra["_sequence_unexplained"] = sq
    ctx.tie.append("sequences: several tracking calls in one process on two look-alike time courses (shared / fresh objects, "
                   "methods and cut-offs in generated orders, a failing call in between), each result compared with the state-free "
                   "model inside Coq and with the equal calls of the sequence; results kept alive together and mutated")


VAR_SIMPLE = {"cls": "spherical", "tag": False, "prov": "fresh", "time_type": "float", "neg_zero": False, "md_type": "float",
              "md_inf": "omit", "progress": None, "method_default": False, "reuse": False, "overlap_max_dist": False}


def shrink(hist, cfg, pid, kind):
    """greedy delta debugging on frames and droplets, then on the way the call is assembled; keeps a failing history failing"""
    def failing(h):
        try:
            r = process(mkitem(h, [cfg], pid, kind, full=not strictly_increasing(h["times"]), coq=False))
        except Exception:  # noqa
            return False
        return bool(r["fails"])
    cur = copy.deepcopy(hist)
    if len(cur["frames"]) > 40:       # long histories: first try prefixes / suffixes (binary), then the fine pass
        for _ in range(12):
            n = len(cur["frames"])
            if n <= 8:
                break
            for lo, hi in ((0, n // 2), (n // 2, n), (0, 3 * n // 4), (n // 4, n)):
                h = copy.deepcopy(cur)
                h["frames"], h["times"] = h["frames"][lo:hi], h["times"][lo:hi]
                if failing(h):
                    cur = h
                    break
            else:
                break
    changed = len(cur["frames"]) <= 40
    while changed:
        changed = False
        for f in range(len(cur["frames"]) - 1, -1, -1):
            h = copy.deepcopy(cur)
            del h["frames"][f]
            del h["times"][f]
            if failing(h):
                cur, changed = h, True
        for f in range(len(cur["frames"])):
            for j in range(len(cur["frames"][f]) - 1, -1, -1):
                h = copy.deepcopy(cur)
                del h["frames"][f][j]
                if failing(h):
                    cur, changed = h, True
    if cur.get("var"):
        for key, val in VAR_SIMPLE.items():
            if cur["var"].get(key, val) != val:
                h = copy.deepcopy(cur)
                h["var"][key] = val
                if failing(h):
                    cur = h
    return cur


def _scaled_cutoffs(cut, k):
    return [c if c is None else _scaled(c, k) for c in cut]


def _distance_cutoff(rng, h):
    """a cut-off that EQUALS the distance of some pair of consecutive frames (boundary of `dists > max_dist`)"""
    pairs = [((f, i), (f + 1, j)) for f in range(len(h["frames"]) - 1)
             for i in range(len(h["frames"][f])) for j in range(len(h["frames"][f + 1]))]
    if not pairs or not is_cart(h):
        return None
    a, b = rng.choice(pairs)
    return math.sqrt(float(exact_dist2(h, a, b)))


def build_items(ctx, rng, pid):
    """-> (lattice items, general items, Coq text defining the lattice tables)"""
    lat, gen, tabtext = [], [], ""
    if ctx.quick:
        plan = [("1d-2x2", 3, 2), ("1d-3x2", 2, 2), ("2d-2x2", 2, 2), ("2d-2x2T", 2, 2), ("3d-mid", 2, 2)]
    else:
        plan = [("1d-2x2", 3, 2), ("1d-3x2", 3, 2), ("1d-4x2", 2, 2), ("2d-2x2", 3, 2), ("2d-2x2T", 2, 2), ("3d-mid", 2, 2),
                ("2d-2x2x2", 2, 2)]
    patterns = sorted(TIME_PATTERNS)
    for name, maxframes, maxdrop in plan:
        cls = lattice_class(name)
        n = 0
        for with_grid in (False, True):
            tabname = "tab_" + name.replace("-", "_") + ("_grid" if with_grid else "_nogrid")
            ot, dt = class_tables(cls, with_grid)
            CLASS_TABLES[tabname] = (cls, with_grid, ot, dt)
            tabtext += class_tables_lit(tabname, ot, dt)
            for kh in lattice_histories(len(cls["kinds"]), maxframes, maxdrop):
                # the first build round's form (times 0, 1, 2, ...; fresh plain droplets) for half of the histories,
                # the other half with other time codes / classes / provenances / types / options
                if rng.random() < 0.5:
                    times, var = None, None
                else:
                    times = TIME_PATTERNS[rng.choice(patterns)](len(kh))
                    var = random_var(rng, cls["dim"], times, heavy=False)
                lat.append(mkitem(lattice_history(cls, kh, with_grid, times, var), ALL_CONFIGS(cls["cutoffs"]), pid,
                                  "lattice:" + name, lat=(tabname, [list(fr) for fr in kh])))
                n += 1
        ctx.count("exhaustive_class", f"{name}: all histories of <= {maxframes} frames x <= {maxdrop} droplets, with and without grid", n)
    for i in range(ctx.scale(700, 6000)):
        plain = i % 4 == 0
        h = random_history(rng, 8, 5, plain=plain)
        k = var_of(h).get("scale_pow2", 0)
        cut = [None, rng.choice([0.5, 1.0, 1.5, 2.0]), rng.choice([0.25, 0.75, 3.0])]
        if not plain:
            u = rng.random()
            if u < 0.15:
                cut[2] = 0.0                      # boundary value: only coinciding centres are linked
            elif u < 0.2:
                cut[2] = -1.0                     # below every distance: nothing is linked
            cut = _scaled_cutoffs(cut, k)
            if rng.random() < 0.3:
                c = _distance_cutoff(rng, h)
                if c is not None:
                    cut[1] = c
        gen.append(mkitem(h, ALL_CONFIGS(cut), pid, "random"))
    for i in range(ctx.scale(60, 400)):   # time VALUES that repeat / decrease: correspondence only
        h = random_history(rng, 5, 3, allow_nonmonotone=True, plain=True)
        gen.append(mkitem(h, ALL_CONFIGS([None, 1.0, 0.5]), pid, "random-nonmonotone-times", full=True))
    for i in range(ctx.scale(90, 500)):
        gen.append(mkitem(drift_history(rng, plain=(i % 3 == 0)), ALL_CONFIGS([None, 1.0, 3.0]), pid, "drift"))
    for i in range(ctx.scale(40, 300)):
        gen.append(mkitem(foreign_grid_history(rng), ALL_CONFIGS([None, 1.0, rng.choice([0.0, 2.0])]), pid, "foreign-grid"))
    for i in range(ctx.scale(4, 20)):     # long histories inside Coq (crossing 10 and 100 frames)
        gen.append(mkitem(long_history(rng, rng.choice([30, 101, 150])), ALL_CONFIGS([None, 0.25, 0.125]), pid, "long"))
    for i in range(ctx.scale(1, 4)):      # > 1000 frames: property oracle only (the literal of such a case costs minutes)
        gen.append(mkitem(long_history(rng, 1100 + 7 * i), [("overlap", None), ("distance", 0.25)], pid,
                          "long-oracle-only", coq=False))
    return lat, gen, tabtext


def record_violations(ctx, pid, items, results, limit=4):
    seen = set()
    for item, r in zip(items, results):
        for cfg, f in r["fails"]:
            sig = (cfg[0], "".join(ch for ch in f.split(":")[0] if not ch.isdigit())[:40])
            if sig in seen or len(ctx.violations) >= limit:
                continue
            seen.add(sig)
            small = shrink(item["hist"], cfg, pid, item["kind"])
            rr = process(mkitem(small, [cfg], pid, item["kind"], full=not strictly_increasing(small["times"]), coq=False))
            what = rr["fails"][0][1] if rr["fails"] else f
            if any(v["what"] == what and v["input"].get("history") == small and v["input"].get("config") == list(cfg)
                   for v in ctx.violations):
                continue
            ctx.violations.append({"what": what, "input": {"history": small, "config": list(cfg), "kind": item["kind"]},
                                   "found": True, "broken": ctx.broken[:3]})


def _count_item(ctx, item, r):
    hist, configs, kind = item["hist"], item["configs"], item["kind"]
    var = var_of(hist)
    nontrivial = len(r["sizes"]) >= 2 and any(r["sizes"])
    for cfg in configs:
        ctx.case([hist, list(cfg)], nontrivial=nontrivial)
        ctx.count("method", cfg[0])
        ctx.count("cutoff", "n/a" if cfg[0] == "overlap" else ("inf" if cfg[1] is None else
                                                              cfg[1] if cfg[1] in (0.0, -1.0, 0.25, 0.5, 0.75, 1.0, 1.25, 1.5, 2.0, 3.0)
                                                              else "other (scaled / equal to a distance)"))
    ctx.count("kind", kind.split(":")[0])
    nf = len(r["sizes"])
    ctx.count("frames", nf if nf <= 8 else "9..99" if nf < 100 else "100..999" if nf < 1000 else ">=1000")
    for n in r["sizes"]:
        ctx.count("droplets_per_frame", n)
    ctx.count("empty_frames_in_history", sum(1 for n in r["sizes"] if n == 0))
    for w in empty_frame_positions(r["sizes"]):
        ctx.count("empty_frame_position", w)
    ctx.count("distance_ties_between_consecutive_frames", r["ties"])
    ctx.count("in_frame_non_overlap", r["clean"])
    g = hist["grid"]
    if g is None:
        ctx.count("grid", "none")
    elif isinstance(g, dict):
        ctx.count("grid", g["kind"] + (":periodic_z=%s" % g["periodic_z"] if g["kind"] == "cylinder" else
                                        ":inner-radius>0" if isinstance(g["radius"], list) else ""))
    else:
        ctx.count("grid", "periodic:" + "".join("1" if a[3] else "0" for a in g))
        for a in g:
            lo, hi = a[0], a[1]
            ctx.count("grid_axis_origin", "0" if lo == 0 else "centred" if lo == -hi else "negative" if hi <= 0 else
                      "positive" if lo > 0 else "mixed")
            ctx.count("grid_axis_cells", a[2] if a[2] <= 2 else ">2")
        if len(g) > 1:
            Ls = [a[1] - a[0] for a in g]
            ctx.count("grid_axis_lengths", "equal" if len(set(Ls)) == 1 else "larger-first" if Ls[0] == max(Ls) and Ls[-1] != max(Ls)
                      else "larger-last" if Ls[-1] == max(Ls) and Ls[0] != max(Ls) else "other-unequal")
            per = [i for i, a in enumerate(g) if a[3]]
            if len(per) == 1:
                ctx.count("single_periodic_axis", "first" if per[0] == 0 else "last" if per[0] == len(g) - 1 else "middle")
    ctx.count("dim", hist["dim"])
    for e in r["raised"]:
        ctx.count("raised", e)
    # audit dimensions (notes/input_dimensions.md)
    ctx.count("time_zero", time_zero_position(hist["times"]))
    ts = hist["times"]
    if len(ts) >= 2:
        steps = {b - a for a, b in zip(ts, ts[1:])}
        ctx.count("time_steps", "not increasing" if min(steps) <= 0 else
                  "contains a one-ulp step" if any(b == math.nextafter(a, INF) for a, b in zip(ts, ts[1:])) else
                  "all 1" if steps == {1.0} else ">= 2^30" if max(steps) >= 2.0 ** 30 else "mixed (multiples of 1/4)")
    ctx.count("time_type", var["time_type"])
    if any(t == 0 for t in ts):
        ctx.count("time_zero_written_as", "-0.0" if var["neg_zero"] and var["time_type"] in ("float", "np.float64", "np.float32", "0d", "mixed") else "0")
    ctx.count("droplet_class", var["cls"] + ("+unique-tag" if var["tag"] else ""))
    ctx.count("provenance", var["prov"])
    ctx.count("progress", var["progress"])
    ctx.count("method_keyword", "default (omitted) for overlap" if var["method_default"] else "explicit")
    ctx.count("same_objects_reused_for_all_calls", var["reuse"])
    ctx.count("overlap_method_called_with_unused_max_dist", var["overlap_max_dist"])
    ctx.count("scale_pow2", var.get("scale_pow2", 0))
    for k in r["md_kinds"]:
        if k != "n/a":
            ctx.count("max_dist_passed_as", k)
    for k in r["ident"]:
        ctx.count("identification_without_time_stamps", k)
    for k in r["cut_eq"]:
        ctx.count("cutoff_equals_a_distance_of_the_history", k)
    ctx.count("histories_with_same_droplet_data_in_several_frames", r["same_data"] > 0)
    for k, v in r["geo"].items():
        if v:
            ctx.count("droplet_geometry", k, v)
    ctx.count("in_coq", bool(r["lit"]))


def _run_cases(ctx, name, header, lits, fn, shard):
    """vlib.run_cases; a shard whose coqc process died without any output (killed by the kernel under memory pressure,
    seen with ~150 runnable processes on the build host) says nothing about /repo: such a run is repeated once.  A shard
    that fails twice, or fails with a message from Coq, stays in ctx.broken."""
    n0, c0 = len(ctx.broken), len(ctx.checker_cmds)
    bad = vlib.run_cases(ctx, name, header, lits, fn, shard=shard)
    died = [b for b in ctx.broken[n0:] if "failed to evaluate: " in b and b.split("failed to evaluate: ", 1)[1].strip() in ("", "TIMEOUT")]
    if died and len(died) == len(ctx.broken) - n0:
        import time
        del ctx.broken[n0:]
        del ctx.checker_cmds[c0:]
        ctx.notes.append(f"{len(died)} shard(s) of `{name}` ended without output from coqc (process killed); evaluated a second time")
        time.sleep(10)
        bad = vlib.run_cases(ctx, name, header, lits, fn, shard=shard)
    return bad


def _stage(ctx, name):
    import time
    now = time.time()
    st = ctx.extra.setdefault("stage_wall_s", {})
    st[name] = round(now - ctx.extra.get("_stage_t", ctx.t0), 1)
    ctx.extra["_stage_t"] = now


def run_check(ctx, pid, deps):
    rng = random.Random(ctx.seed)
    vlib.prove(ctx, deps, gens=[])
    _stage(ctx, "proofs")
    ctx.tie.append("correspondence: Model/Tracking.v evaluated inside Coq on the implementation's overlap relation / "
                   "cdist table, compared with DropletTrackList.from_emulsion_time_course (both methods, 3 cut-offs, +-grid)")
    lat, gen, tabtext = build_items(ctx, rng, pid)
    items = lat + gen
    results = _pool_map(process, items)
    _stage(ctx, "implementation + oracles on the histories")
    for item, r in zip(items, results):
        _count_item(ctx, item, r)
    for idx in (len(lat) // 3, len(lat) + len(gen) // 2):
        if idx < len(items):
            ctx.sample({"history": items[idx]["hist"], "configs": [list(c) for c in items[idx]["configs"]],
                        "tracks_per_config": results[idx]["ntracks"], "coq_case": (results[idx]["lit"] or "")[:600]})
    bad_l = _run_cases(ctx, "lat", HEADER + tabtext, [r["lit"] for r in results[:len(lat)]], "lagree", 300)
    gidx = [i for i in range(len(lat), len(items)) if results[i]["lit"] is not None]
    bad_g = _run_cases(ctx, "gen", HEADER, [results[i]["lit"] for i in gidx], "gagree", 100)
    _stage(ctx, "correspondence inside Coq")
    bad = list(bad_l) + [gidx[b] for b in bad_g]
    if pid == "C07":
        mlits = [m for r in results for m in r["metric"]][:ctx.scale(1500, 12000)]
        bad_m = _run_cases(ctx, "metric", HEADER_METRIC, mlits, "magree", 150)
        ctx.count("metric_cases(distance/overlap table vs Model/Grid.v)", "pairs", len(mlits))
        if bad_m:
            ctx.broken.append(f"metric: distance / overlap computed by the implementation differ from the Grid model "
                              f"on {len(bad_m)} pair(s), first: {mlits[bad_m[0]][:300]}")
    if pid == "C06":
        run_append_stream(ctx, rng, pid)
    run_sequence_stream(ctx, random.Random(ctx.seed + 8), pid)
    _stage(ctx, "append + sequence streams")
    ctx.notes.append("oracle only (not inside Coq): histories of >= 1100 frames (kind long-oracle-only); the metric comparison "
                     "with Model/Grid.v is restricted to Cartesian grids (cylindrical / spherical / polar grid objects enter "
                     "the correspondence and the other statements through the implementation's own tables)")
    for name, what, why in SUSPECTED:
        ctx.notes.append(f"SUSPECTED (reported, not judged): {name}: {what} -- {why}")
    if bad:
        ctx.broken.append(f"correspondence from_emulsion_time_course: model and implementation differ on {len(bad)} "
                          f"case(s), first: {items[bad[0]]['hist']} kind={items[bad[0]]['kind']}")
        ctx.extra["disagreeing_cases"] = [{"history": items[b]["hist"], "kind": items[b]["kind"]} for b in bad[:5]]
    record_violations(ctx, pid, items, results)
    if ctx.broken and not ctx.violations:
        # search: the oracle over a larger fresh stream
        extra = []
        r2 = random.Random(ctx.seed + 1)
        for i in range(ctx.scale(4000, 20000)):
            h = random_history(r2, 8, 5, plain=(i % 4 == 0))
            k = var_of(h).get("scale_pow2", 0)
            extra.append(mkitem(h, ALL_CONFIGS(_scaled_cutoffs([None, r2.choice([0.5, 1.0, 1.5, 2.0]), r2.choice([0.25, 0.75, 3.0])], k)),
                                pid, "random", coq=False))
        for i in range(ctx.scale(300, 1000)):
            extra.append(mkitem(drift_history(r2, plain=(i % 3 == 0)), ALL_CONFIGS([None, 1.0, 3.0]), pid, "drift", coq=False))
        res2 = _pool_map(process, extra)
        ctx.notes.append(f"search: oracle over {len(extra)} further histories")
        record_violations(ctx, pid, extra, res2)
    sq = ctx.extra.pop("_sequence_unexplained", None)
    if sq is not None and not ctx.violations:
        ctx.violations.append({"what": "in a sequence of calls within one process the implementation differs from the verified "
                                       "(state-free) model; no statement of the property text fails on it",
                               "input": {"sequence": sq, "kind": "sequence"}, "found": False, "broken": ctx.broken[:3]})
    if bad and not ctx.violations:
        # no statement of the property text fails, but the implementation no longer is the verified model:
        # report the smallest disagreeing history (and the config on which it disagrees) as replay input
        b = min(bad, key=lambda i: (sum(results[i]["sizes"]), len(results[i]["sizes"]), i))
        it = items[b]
        full = not strictly_increasing(it["hist"]["times"])
        singles = [process(mkitem(it["hist"], [cfg], pid, it["kind"], full=full)) for cfg in it["configs"]]
        bad_c = vlib.run_cases(ctx, "diag", HEADER, ["(" + s["lit"] + " : gcase)" for s in singles], "gagree", shard=10)
        for ci in (bad_c or [0])[:2]:
            cfg = it["configs"][ci]
            ctx.violations.append({"what": "implementation differs from the verified model on this input (no statement of the "
                                           "property text fails on it: see `./check %s --replay` for both results)" % pid,
                                   "input": {"history": it["hist"], "config": list(cfg), "kind": it["kind"]},
                                   "found": False, "broken": ctx.broken[:3]})
    ctx.extra.pop("_stage_t", None)
    return vlib.finish(ctx, "", TRUSTED, ASSUME, RULE, exhaustive=True)


def replay(path, pid):
    import json
    obj = json.load(open(path))
    print(json.dumps(obj, indent=1)[:3000])
    inp = obj.get("input")
    if not inp:
        print("no concrete input stored (no-failing-input-found replay)")
        return 1
    if "sequence" in inp:
        ref = sequence_reference(inp["sequence"]) if inp.get("with_fresh_process_reference") else None
        r = _fork_map(process_sequence, [(inp["sequence"], pid, ref)])[0]
        print("oracle failures on current tree:", [f for _, f in r["fails"]])
        return 1 if r["fails"] else 0
    if "append_case" in inp:
        r = process_append(inp["append_case"])
        print("oracle failures on current tree:", r["fails"])
        print("time arguments / stored time codes (per track):", r["lits"])
        return 1 if r["fails"] else 0
    hist, cfg, kind = inp["history"], tuple(inp["config"]), inp.get("kind", "random")
    full = not strictly_increasing(hist["times"])
    r = process(mkitem(hist, [cfg], pid, kind, full=full))
    ov, D = impl_tables(hist, full)
    res = run_impl(hist, cfg)
    print("implementation:", "raised " + res["raised"] if res["raised"] else (res["tracks"] or res["tracks_partial"]), res["problems"][:3])
    ctx = vlib.Ctx(pid, "quick", 0)
    d = ctx.casedir
    d.mkdir(parents=True, exist_ok=True)
    p = d / "replay_case.v"
    p.write_text(HEADER + f"\nDefinition c : gcase := {r['lit']}.\n"
                 "Eval vm_compute in (let '(full, frames, ot, dt, o) := c in\n"
                 "  let ov a b := match lookup did did_eqb ot a b with Some true => true | _ => false end in\n"
                 "  let D a b := match lookup did did_eqb dt a b with Some q => q | None => 0%Q end in\n"
                 "  map (fun c => match track_all (match c with CfgOv => MOverlap ov | CfgDist md => MDistance D md end) frames with\n"
                 "                | Ok t => Some (map (fun tr => map snd (entries tr)) t) | Err _ => None end) (flat_map fst o)).\n"
                 "Eval vm_compute in (gagree c).\n")
    rc, out = vlib.coqc(p, timeout=300)
    print("model (inside Coq):", " ".join(out.split())[:3000])
    print("oracle failures on current tree:", [f for _, f in r["fails"]])
    return 1 if r["fails"] else 0
